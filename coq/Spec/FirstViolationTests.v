(** [first_violation true] validated against the model on concrete programs.

    Every example states (i) the first violation the specification computes, written out, and
    (ii) that it agrees — in the sense of the C14 monitor — with the first error of the model's
    [run].  Both sides are computed by [vm_compute]. *)
From SA Require Import Model.
From SA.Spec Require Import FirstViolation.
From SA.Mon Require Import Verdict.
Local Open Scope list_scope.

(** the model terminates normally and the C14 monitor accepts its output *)
Definition agrees (p : program) : bool :=
  match run p with
  | ROk out => chk_C14 p out
  | _ => false
  end.

(** ** Builders *)
Definition i32 := TPrim PI32.
Definition tbool := TPrim PBool.
Definition num (z : Z) : expr_val := EVPrim (PV PI32 z).
Definition tru : expr_val := EVPrim (PV PBool 1).
Definition var (s : string) (l o : N) : expr_val := EVName (Id s l o).
Definition one (v : expr_val) : expr := Expr v [].
Definition fn (name : ident) (ps : list (ident * ast_ty)) (r : ast_ty) (body : list stmt) : top :=
  TFn (Fn name ps r body).
Definition lit (z : Z) : cexpr := CExpr (CVal (PV PI32 z)) [].
Definition ret0 : stmt := SRet (one (num 0)).
(** a struct type mention and an extension leaf of that type *)
Definition tS (attrs : list (ident * ast_ty)) : ast_ty := TStruct (Id "S" 9 9) attrs.
Definition extS (attrs : list (ident * ast_ty)) : expr_val := EVExt (tS attrs) 7.
Definition f_ := Id "f" 10 3.
Definition g_ := Id "g" 20 3.

Ltac both := vm_compute; split; reflexivity.

(** ** 0. Accepted programs *)
Definition p_ok : program :=
  [ TImport [Id "std" 1 1];
    TStructDecl (Id "S" 2 8) [(Id "a" 2 12, i32); (Id "b" 2 20, tbool)];
    TConst (Id "K" 3 7) i32 (lit 5);
    TConst (Id "L" 4 7) i32 (CExpr (CVal (PV PI32 1)) [(OPlus, CConst (Id "K" 4 20))]);
    fn g_ [(Id "a" 20 6, i32); (Id "s" 20 14, tS [(Id "a" 0 0, i32); (Id "b" 0 0, tbool)])] i32
       [ SLet (Id "x" 21 5) true (Some i32)
              (Expr (var "a" 21 9) [(OPlus, EVField (Id "s" 21 13) (Id "a" 21 15));
                                    (OMultiply, var "K" 21 19)]);
         SBind (Id "x" 22 1) (Expr (var "x" 22 5) [(OMinus, num 1)]);
         SIf (IfS (CLogic (LC (one (var "x" 23 4)) CGreat (one (num 0))
                              (Some (LAnd, LC (one tru) CEq (one tru) None))))
                  (IBIf [SLet (Id "y" 24 5) false None (one (var "x" 24 9));
                         SRet (one (var "y" 25 8))])
                  None
                  (Some (IfS (CSingle (one tru))
                             (IBIf [SCall g_ [one (num 1); one (var "s" 27 9)]])
                             (Some (IBIf [SLet (Id "x" 28 5) false None (one tru)]))
                             None)));
         SLoop [ SIf (IfS (CSingle (one tru)) (IBLoop [SBreak]) (Some (IBLoop [SContinue])) None);
                 SLoop [SRet (one (var "x" 31 8))];
                 SBreak ];
         SRet (one (var "x" 33 8)) ];
    fn f_ [] i32 [SExprStmt (one (EVCall g_ [one (num 1); one (extS [(Id "a" 0 0, i32); (Id "b" 0 0, tbool)])]))] ].
Example t_ok : first_violation true p_ok = None /\ agrees p_ok = true.
Proof. both. Qed.
Example t_ok_wf : wf_b p_ok = true.
Proof. vm_compute. reflexivity. Qed.

Example t_empty : first_violation true [] = None /\ agrees [] = true.
Proof. both. Qed.

(** ** 1. Declaration phase *)

(** R1: the struct pass comes first, even when an earlier top-level item has its own error *)
Definition p_r1 : program :=
  [ TConst (Id "K" 1 7) i32 (lit 1); TConst (Id "K" 2 7) i32 (lit 1);
    TStructDecl (Id "S" 3 8) []; TStructDecl (Id "S" 4 8) [(Id "a" 4 12, i32)] ].
Example t_r1 : first_violation true p_r1 = Some (Viol ETypeAlreadyExist (Some "S"%string) (4, 8))
               /\ agrees p_r1 = true.
Proof. both. Qed.

(** R2 *)
Definition p_r2 : program :=
  [ TConst (Id "K" 1 7) i32 (lit 1); fn f_ [] i32 []; TConst (Id "K" 2 7) tbool (lit 1) ].
Example t_r2 : first_violation true p_r2 = Some (Viol EConstantAlreadyExist (Some "K"%string) (2, 7))
               /\ agrees p_r2 = true.
Proof. both. Qed.

(** R3 (declarations come before every body: [f]'s missing return is later) *)
Definition p_r3 : program := [ fn f_ [] i32 []; fn (Id "f" 11 3) [] i32 [ret0] ].
Example t_r3 : first_violation true p_r3 = Some (Viol EFunctionAlreadyExist (Some "f"%string) (11, 3))
               /\ agrees p_r3 = true.
Proof. both. Qed.

(** R5 as enforced: a constant after the head and before the first literal *)
Definition p_r5 : program :=
  [ TConst (Id "A" 1 7) i32
           (CExpr (CVal (PV PI32 1)) [(OPlus, CConst (Id "B" 1 20)); (OPlus, CConst (Id "C" 1 24))]) ].
Example t_r5 : first_violation true p_r5 = Some (Viol EConstantNotFound (Some "B"%string) (1, 20))
               /\ agrees p_r5 = true.
Proof. both. Qed.
(** ... a later constant is not yet visible, an earlier one is *)
Definition p_r5_order : program :=
  [ TConst (Id "A" 1 7) i32 (lit 1);
    TConst (Id "B" 2 7) i32 (CExpr (CConst (Id "A" 2 15)) [(OPlus, CConst (Id "A" 2 19)); (OPlus, CConst (Id "C" 2 23))]);
    TConst (Id "C" 3 7) i32 (lit 1) ].
Example t_r5_order : first_violation true p_r5_order = Some (Viol EConstantNotFound (Some "C"%string) (2, 23))
                     /\ agrees p_r5_order = true.
Proof. both. Qed.

(** R5 before R6 on the same constant; R6 carries the constant's name *)
Definition p_r6_const : program :=
  [ TConst (Id "A" 1 7) (tS []) (lit 1) ].
Example t_r6_const : first_violation true p_r6_const = Some (Viol ETypeNotFound (Some "A"%string) (1, 7))
                     /\ agrees p_r6_const = true.
Proof. both. Qed.
Definition p_r5_r6 : program :=
  [ TConst (Id "A" 1 7) (tS []) (CExpr (CVal (PV PI32 1)) [(OPlus, CConst (Id "B" 1 20))]) ].
Example t_r5_r6 : first_violation true p_r5_r6 = Some (Viol EConstantNotFound (Some "B"%string) (1, 20))
                  /\ agrees p_r5_r6 = true.
Proof. both. Qed.

(** R6 on a function: result type first (function's name) ... *)
Definition p_r6_res : program :=
  [ fn f_ [(Id "a" 10 6, tS [])] (tS []) [ret0] ].
Example t_r6_res : first_violation true p_r6_res = Some (Viol ETypeNotFound (Some "f"%string) (10, 3))
                   /\ agrees p_r6_res = true.
Proof. both. Qed.
(** ... then parameters left to right (parameter's name, function's location) *)
Definition p_r6_par : program :=
  [ fn f_ [(Id "a" 10 6, i32); (Id "b" 10 14, tS []); (Id "c" 10 22, TStruct (Id "Q" 0 0) [])] i32 [ret0] ].
Example t_r6_par : first_violation true p_r6_par = Some (Viol ETypeNotFound (Some "b"%string) (10, 3))
                   /\ agrees p_r6_par = true.
Proof. both. Qed.
(** a struct declared later in the source is visible (types are a separate, earlier pass) *)
Definition p_r6_later : program :=
  [ fn f_ [(Id "a" 10 6, tS [])] i32 [ret0]; TStructDecl (Id "S" 30 8) [] ].
Example t_r6_later : first_violation true p_r6_later = None /\ agrees p_r6_later = true.
Proof. both. Qed.

(** ** 2. Parameters and function level *)

(** R4 *)
Definition p_r4 : program :=
  [ fn f_ [(Id "a" 10 6, i32); (Id "b" 10 14, i32); (Id "a" 10 22, tbool)] i32 [ret0] ].
Example t_r4 : first_violation true p_r4
               = Some (Viol EFunctionArgumentNameDuplicated (Some "a"%string) (1, 1))
               /\ agrees p_r4 = true.
Proof. both. Qed.

(** R22: no return *)
Definition p_noret : program := [ fn f_ [] i32 [SLet (Id "x" 11 5) false None (one (num 1))] ].
Example t_noret : first_violation true p_noret = Some (Viol EReturnNotFound (Some ""%string) (10, 3))
                  /\ agrees p_noret = true.
Proof. both. Qed.
(** a nested return does not count as the function-level return *)
Definition p_noret_nested : program :=
  [ fn f_ [] i32 [SIf (IfS (CSingle (one tru)) (IBIf [ret0]) None None)] ].
Example t_noret_nested : first_violation true p_noret_nested
                         = Some (Viol EReturnNotFound (Some ""%string) (10, 3))
                         /\ agrees p_noret_nested = true.
Proof. both. Qed.

(** R22: code after the function-level return (before the statement's own errors) *)
Definition p_after_ret : program :=
  [ fn f_ [] i32 [ret0; SLet (Id "x" 12 5) false None (one (var "nope" 12 9))] ].
Example t_after_ret : first_violation true p_after_ret
                      = Some (Viol EForbiddenCodeAfterReturnDeprecated None (1, 1))
                      /\ agrees p_after_ret = true.
Proof. both. Qed.
Definition p_two_rets : program := [ fn f_ [] i32 [SExprStmt (one (num 0)); ret0] ].
Example t_two_rets : first_violation true p_two_rets
                     = Some (Viol EForbiddenCodeAfterReturnDeprecated None (1, 1))
                     /\ agrees p_two_rets = true.
Proof. both. Qed.

(** R22: wrong return type; expression's own error first *)
Definition p_wrong_ret : program := [ fn f_ [] i32 [SRet (one tru)] ].
Example t_wrong_ret : first_violation true p_wrong_ret = Some (Viol EWrongReturnType None (1, 0))
                      /\ agrees p_wrong_ret = true.
Proof. both. Qed.
Definition p_ret_expr_err : program := [ fn f_ [] i32 [SExprStmt (Expr tru [(OPlus, var "q" 11 12)])] ].
Example t_ret_expr_err : first_violation true p_ret_expr_err
                         = Some (Viol EValueNotFound (Some "q"%string) (11, 12))
                         /\ agrees p_ret_expr_err = true.
Proof. both. Qed.
(** R22: the returned type must exist — before the comparison with the result type *)
Definition p_ret_ty : program := [ fn f_ [] i32 [SRet (one (extS []))] ].
Example t_ret_ty : first_violation true p_ret_ty = Some (Viol ETypeNotFound None (1, 0))
                   /\ agrees p_ret_ty = true.
Proof. both. Qed.

(** bodies in source order: the first function's body error precedes the second's *)
Definition p_two_bodies : program :=
  [ fn f_ [] i32 [SRet (one (var "u" 11 8))]; fn g_ [] i32 [SRet (one (var "w" 21 8))] ].
Example t_two_bodies : first_violation true p_two_bodies = Some (Viol EValueNotFound (Some "u"%string) (11, 8))
                       /\ agrees p_two_bodies = true.
Proof. both. Qed.
(** a constant declared after the function is visible in its body; a let shadows it *)
Definition p_const_vis : program :=
  [ fn f_ [] tbool [SLet (Id "y" 11 5) false (Some i32) (one (var "K" 11 9));
                    SLet (Id "K" 12 5) false None (one tru);
                    SRet (one (var "K" 13 8))];
    TConst (Id "K" 30 7) i32 (lit 1) ].
Example t_const_vis : first_violation true p_const_vis = None /\ agrees p_const_vis = true.
Proof. both. Qed.

(** ** 3. let / assignment *)

(** R15: the initialiser first (the let's own name is not yet visible in it) *)
Definition p_let_self : program :=
  [ fn f_ [] i32 [SLet (Id "x" 11 5) false (Some tbool) (one (var "x" 11 9)); ret0] ].
Example t_let_self : first_violation true p_let_self = Some (Viol EValueNotFound (Some "x"%string) (11, 9))
                     /\ agrees p_let_self = true.
Proof. both. Qed.
Definition p_let_ty : program :=
  [ fn f_ [] i32 [SLet (Id "x" 11 5) false (Some tbool) (one (num 1)); ret0] ].
Example t_let_ty : first_violation true p_let_ty = Some (Viol EWrongLetType (Some "x"%string) (11, 5))
                   /\ agrees p_let_ty = true.
Proof. both. Qed.
(** the let declares the initialiser's type; shadowing changes the type *)
Definition p_shadow : program :=
  [ fn f_ [(Id "x" 10 6, tbool)] i32
       [SLet (Id "x" 11 5) false None (one (num 1));
        SLet (Id "y" 12 5) false (Some tbool) (one (var "x" 12 9)); ret0] ].
Example t_shadow : first_violation true p_shadow = Some (Viol EWrongLetType (Some "y"%string) (12, 5))
                   /\ agrees p_shadow = true.
Proof. both. Qed.

(** R16: right-hand side first, then not found / not mutable / wrong type *)
Definition p_as_rhs : program :=
  [ fn f_ [] i32 [SBind (Id "x" 11 1) (one (var "z" 11 5)); ret0] ].
Example t_as_rhs : first_violation true p_as_rhs = Some (Viol EValueNotFound (Some "z"%string) (11, 5))
                   /\ agrees p_as_rhs = true.
Proof. both. Qed.
Definition p_as_nf : program :=
  [ TConst (Id "x" 1 7) i32 (lit 1);      (* a constant is not an assignable value *)
    fn f_ [] i32 [SBind (Id "x" 11 1) (one (num 1)); ret0] ].
Example t_as_nf : first_violation true p_as_nf = Some (Viol EValueNotFound (Some "x"%string) (11, 1))
                  /\ agrees p_as_nf = true.
Proof. both. Qed.
Definition p_as_imm : program :=
  [ fn f_ [(Id "x" 10 6, i32)] i32 [SBind (Id "x" 11 1) (one tru); ret0] ].
Example t_as_imm : first_violation true p_as_imm = Some (Viol EValueIsNotMutable (Some "x"%string) (11, 1))
                   /\ agrees p_as_imm = true.
Proof. both. Qed.
Definition p_as_ty : program :=
  [ fn f_ [] i32 [SLet (Id "x" 11 5) true None (one (num 1));
                  SLoop [SBind (Id "x" 13 1) (one tru); SBreak]; ret0] ].
Example t_as_ty : first_violation true p_as_ty = Some (Viol EWrongExpressionType (Some "x"%string) (13, 1))
                  /\ agrees p_as_ty = true.
Proof. both. Qed.

(** ** 4. Calls *)
Definition g_decl : top := fn g_ [(Id "a" 20 6, i32); (Id "b" 20 14, tbool)] i32 [ret0].

Definition p_call_nf : program :=
  [ fn f_ [] i32 [SCall (Id "h" 11 1) [one (var "nope" 11 3)]; ret0] ].
Example t_call_nf : first_violation true p_call_nf = Some (Viol EFunctionNotFound (Some "h"%string) (11, 1))
                    /\ agrees p_call_nf = true.
Proof. both. Qed.
(** an argument's own violation, then its type; the second argument is reached only after *)
Definition p_call_arg_err : program :=
  [ g_decl; fn f_ [] i32 [SCall (Id "g" 11 1) [one (num 1); one (var "nope" 11 6)]; ret0] ].
Example t_call_arg_err : first_violation true p_call_arg_err
                         = Some (Viol EValueNotFound (Some "nope"%string) (11, 6))
                         /\ agrees p_call_arg_err = true.
Proof. both. Qed.
Definition p_call_ty : program :=
  [ g_decl; fn f_ [] i32 [SCall (Id "g" 11 1) [one tru; one (var "nope" 11 6)]; ret0] ].
Example t_call_ty : first_violation true p_call_ty
                    = Some (Viol EFunctionParameterTypeWrong (Some "bool"%string) (11, 1))
                    /\ agrees p_call_ty = true.
Proof. both. Qed.
Definition p_call_surplus : program :=
  [ g_decl; fn f_ [] i32 [SRet (one (EVCall (Id "g" 11 8) [one (num 1); one tru; one (num 3)]))] ].
Example t_call_surplus : first_violation true p_call_surplus
                         = Some (Viol EFunctionParameterTypeWrong (Some "i32"%string) (11, 8))
                         /\ agrees p_call_surplus = true.
Proof. both. Qed.
(** F2: too few arguments pass the enforced rules (and the model) *)
Definition p_call_few : program :=
  [ g_decl; fn f_ [] i32 [SRet (one (EVCall (Id "g" 11 8) [one (num 1)]))] ].
Example t_call_few : first_violation true p_call_few = None /\ agrees p_call_few = true.
Proof. both. Qed.
Example t_call_few_intended :
  first_violation false p_call_few = Some (Viol EFunctionParameterTypeWrong None (11, 8)).
Proof. vm_compute. reflexivity. Qed.
(** a call nested in an argument: inner callee lookup comes before the outer type check *)
Definition p_call_nested : program :=
  [ g_decl; fn f_ [] i32 [SRet (one (EVCall (Id "g" 11 8)
                                      [one (EVCall (Id "g" 11 10) [one tru]); one (num 1)]))] ].
Example t_call_nested : first_violation true p_call_nested
                        = Some (Viol EFunctionParameterTypeWrong (Some "bool"%string) (11, 10))
                        /\ agrees p_call_nested = true.
Proof. both. Qed.

(** ** 5. Chains *)

(** R11, post-order of the bracketed tree: [1 + true * 2] compares inside [true * 2] first *)
Definition p_chain_prio : program :=
  [ fn f_ [] i32 [SRet (Expr (num 1) [(OPlus, tru); (OMultiply, num 2)])] ].
Example t_chain_prio : first_violation true p_chain_prio
                       = Some (Viol EWrongExpressionType (Some "bool"%string) (1, 0))
                       /\ agrees p_chain_prio = true.
Proof. both. Qed.
(** [1 * true + x]: the comparison of [1 * true] comes before [x] is looked up *)
Definition p_chain_left : program :=
  [ fn f_ [] i32 [SRet (Expr (num 1) [(OMultiply, tru); (OPlus, var "x" 11 20)])] ].
Example t_chain_left : first_violation true p_chain_left
                       = Some (Viol EWrongExpressionType (Some "i32"%string) (1, 0))
                       /\ agrees p_chain_left = true.
Proof. both. Qed.
(** [1 + x * true]: the operand [x] of the bracket is looked up before any comparison *)
Definition p_chain_leaf : program :=
  [ fn f_ [] i32 [SRet (Expr (num 1) [(OPlus, var "x" 11 12); (OMultiply, tru)])] ].
Example t_chain_leaf : first_violation true p_chain_leaf
                       = Some (Viol EValueNotFound (Some "x"%string) (11, 12))
                       /\ agrees p_chain_leaf = true.
Proof. both. Qed.
(** brackets in the source, three priority levels, a call inside *)
Definition p_chain_deep : program :=
  [ g_decl;
    fn f_ [(Id "a" 10 6, i32)] i32
       [SRet (Expr (var "a" 11 8)
                   [(OMinus, EVSub (Expr (num 1) [(OPlus, EVSub (one (EVSub (one (var "a" 11 20)))))]));
                    (OPlus, num 2); (OMultiply, EVCall (Id "g" 11 30) [one (var "a" 11 32); one tru]);
                    (ODivide, num 4); (OAnd, tru)])] ].
Example t_chain_deep : first_violation true p_chain_deep
                       = Some (Viol EWrongExpressionType (Some "i32"%string) (1, 0))
                       /\ agrees p_chain_deep = true.
Proof. both. Qed.

(** ** 6. Field reads (R9); struct values enter through parameters and extension leaves *)
Definition s_decl : top := TStructDecl (Id "S" 2 8) [(Id "a" 2 12, i32); (Id "a" 2 20, tbool)].
Definition s_attrs : list (ident * ast_ty) := [(Id "a" 0 0, i32); (Id "a" 0 0, tbool)].

(** a duplicate attribute name: the last one wins, so [s.a] is a [bool] *)
Definition p_field_ok : program :=
  [ s_decl; fn f_ [(Id "s" 10 6, tS s_attrs)] tbool [SRet (one (EVField (Id "s" 11 8) (Id "a" 11 10)))] ].
Example t_field_ok : first_violation true p_field_ok = None /\ agrees p_field_ok = true.
Proof. both. Qed.
Definition p_field_nf : program :=
  [ s_decl; TConst (Id "s" 3 7) (tS s_attrs) (lit 1);       (* a constant is not a value *)
    fn f_ [] tbool [SRet (one (EVField (Id "s" 11 8) (Id "a" 11 10)))] ].
Example t_field_nf : first_violation true p_field_nf = Some (Viol EValueNotFound (Some "s"%string) (11, 8))
                     /\ agrees p_field_nf = true.
Proof. both. Qed.
Definition p_field_ns : program :=
  [ fn f_ [(Id "s" 10 6, i32)] tbool [SRet (one (EVField (Id "s" 11 8) (Id "a" 11 10)))] ].
Example t_field_ns : first_violation true p_field_ns = Some (Viol EValueNotStruct (Some "s"%string) (11, 8))
                     /\ agrees p_field_ns = true.
Proof. both. Qed.
Definition p_field_tnf : program :=
  [ fn f_ [] tbool [SLet (Id "s" 11 5) false None (one (extS s_attrs));
                    SRet (one (EVField (Id "s" 12 8) (Id "a" 12 10)))] ].
Example t_field_tnf : first_violation true p_field_tnf = Some (Viol ETypeNotFound (Some "s"%string) (12, 8))
                      /\ agrees p_field_tnf = true.
Proof. both. Qed.
(** the value's struct type differs from the declared struct of that name *)
Definition p_field_wt : program :=
  [ s_decl;
    fn f_ [] tbool [SLet (Id "s" 11 5) false None (one (extS [(Id "a" 0 0, tbool)]));
                    SRet (one (EVField (Id "s" 12 8) (Id "a" 12 10)))] ].
Example t_field_wt : first_violation true p_field_wt
                     = Some (Viol EWrongExpressionType (Some "s"%string) (12, 8))
                     /\ agrees p_field_wt = true.
Proof. both. Qed.
Definition p_field_nfield : program :=
  [ s_decl; fn f_ [(Id "s" 10 6, tS s_attrs)] tbool [SRet (one (EVField (Id "s" 11 8) (Id "z" 11 10)))] ].
Example t_field_nfield : first_violation true p_field_nfield
                         = Some (Viol EValueNotStructField (Some "s"%string) (11, 8))
                         /\ agrees p_field_nfield = true.
Proof. both. Qed.

(** ** 7. Conditions *)
Definition iff (c : cond) (body : list stmt) : stmt := SIf (IfS c (IBIf body) None None).

(** R13: any type will do *)
Definition p_cond_single : program := [ fn f_ [] i32 [iff (CSingle (one (num 3))) []; ret0] ].
Example t_cond_single : first_violation true p_cond_single = None /\ agrees p_cond_single = true.
Proof. both. Qed.
(** R14: left then right; the side's own error is first ([ConditionIsEmpty] only follows) *)
Definition p_cond_right : program :=
  [ fn f_ [] i32 [iff (CLogic (LC (one (num 1)) CEq (one (var "r" 11 9)) None)) []; ret0] ].
Example t_cond_right : first_violation true p_cond_right = Some (Viol EValueNotFound (Some "r"%string) (11, 9))
                       /\ agrees p_cond_right = true.
Proof. both. Qed.
Definition p_cond_both : program :=
  [ fn f_ [] i32 [iff (CLogic (LC (one (var "l" 11 4)) CEq (one (var "r" 11 9)) None)) []; ret0] ].
Example t_cond_both : first_violation true p_cond_both = Some (Viol EValueNotFound (Some "l"%string) (11, 4))
                      /\ agrees p_cond_both = true.
Proof. both. Qed.
Definition p_cond_ty : program :=
  [ fn f_ [] i32 [iff (CLogic (LC (one tru) CEq (one (num 1)) None)) []; ret0] ].
Example t_cond_ty : first_violation true p_cond_ty
                    = Some (Viol EConditionExpressionWrongType (Some "bool"%string) (1, 0))
                    /\ agrees p_cond_ty = true.
Proof. both. Qed.
Definition p_cond_ns : program :=
  [ fn f_ [] i32 [iff (CLogic (LC (one (extS [])) CEq (one (extS [])) None)) []; ret0] ].
Example t_cond_ns : first_violation true p_cond_ns
                    = Some (Viol EConditionExpressionNotSupported (Some "S"%string) (1, 0))
                    /\ agrees p_cond_ns = true.
Proof. both. Qed.
(** the second comparison of a logic chain *)
Definition p_cond_next : program :=
  [ fn f_ [] i32 [iff (CLogic (LC (one (num 1)) CLess (one (num 2))
                                  (Some (LOr, LC (one (num 1)) CEq (one tru) None)))) []; ret0] ].
Example t_cond_next : first_violation true p_cond_next
                      = Some (Viol EConditionExpressionWrongType (Some "i32"%string) (1, 0))
                      /\ agrees p_cond_next = true.
Proof. both. Qed.

(** ** 8. if / else / else-if, scopes *)

(** R18 before the condition *)
Definition p_if_dup : program :=
  [ fn f_ [] i32 [SIf (IfS (CSingle (one (var "c" 11 4))) (IBIf []) (Some (IBIf []))
                           (Some (IfS (CSingle (one tru)) (IBIf []) None None))); ret0] ].
Example t_if_dup : first_violation true p_if_dup
                   = Some (Viol EIfElseDuplicated (Some "if-condition"%string) (1, 0))
                   /\ agrees p_if_dup = true.
Proof. both. Qed.
(** condition before the body *)
Definition p_if_cond_first : program :=
  [ fn f_ [] i32 [iff (CSingle (one (var "c" 11 4))) [SRet (one (var "d" 12 8))]; ret0] ].
Example t_if_cond_first : first_violation true p_if_cond_first
                          = Some (Viol EValueNotFound (Some "c"%string) (11, 4))
                          /\ agrees p_if_cond_first = true.
Proof. both. Qed.
(** a let of the then-block is not visible after the if ... *)
Definition p_scope_after : program :=
  [ fn f_ [] i32 [iff (CSingle (one tru)) [SLet (Id "t" 12 5) false None (one (num 1))];
                  SRet (one (var "t" 14 8))] ].
Example t_scope_after : first_violation true p_scope_after = Some (Viol EValueNotFound (Some "t"%string) (14, 8))
                        /\ agrees p_scope_after = true.
Proof. both. Qed.
(** ... nor in the else-body ... *)
Definition p_scope_else : program :=
  [ fn f_ [] i32 [SIf (IfS (CSingle (one tru)) (IBIf [SLet (Id "t" 12 5) false None (one (num 1))])
                           (Some (IBIf [SRet (one (var "t" 14 8))])) None); ret0] ].
Example t_scope_else : first_violation true p_scope_else = Some (Viol EValueNotFound (Some "t"%string) (14, 8))
                       /\ agrees p_scope_else = true.
Proof. both. Qed.
(** ... nor in the condition of the else-if (a sibling) *)
Definition p_scope_elif : program :=
  [ fn f_ [] i32 [SIf (IfS (CSingle (one tru)) (IBIf [SLet (Id "t" 12 5) false None (one (num 1))])
                           None
                           (Some (IfS (CSingle (one (var "t" 14 11))) (IBIf []) None None))); ret0] ].
Example t_scope_elif : first_violation true p_scope_elif = Some (Viol EValueNotFound (Some "t"%string) (14, 11))
                       /\ agrees p_scope_elif = true.
Proof. both. Qed.
(** an inner shadowing ends with its block: outside, [x] is an [i32] again *)
Definition p_scope_shadow : program :=
  [ fn f_ [] i32 [SLet (Id "x" 11 5) true None (one (num 1));
                  iff (CSingle (one tru)) [SLet (Id "x" 13 5) true None (one tru);
                                           SBind (Id "x" 14 1) (one tru)];
                  SBind (Id "x" 16 1) (one tru); ret0] ].
Example t_scope_shadow : first_violation true p_scope_shadow
                         = Some (Viol EWrongExpressionType (Some "x"%string) (16, 1))
                         /\ agrees p_scope_shadow = true.
Proof. both. Qed.
(** the then-body's error comes before the else-body's *)
Definition p_then_else : program :=
  [ fn f_ [] i32 [SIf (IfS (CSingle (one tru)) (IBIf [SCall (Id "h" 12 1) []])
                           (Some (IBIf [SCall (Id "k" 14 1) []])) None); ret0] ].
Example t_then_else : first_violation true p_then_else = Some (Viol EFunctionNotFound (Some "h"%string) (12, 1))
                      /\ agrees p_then_else = true.
Proof. both. Qed.

(** ** 9. Nested returns, code after (R20, R21) *)
Definition p_nested_ret_ty : program :=
  [ fn f_ [] i32 [iff (CSingle (one tru)) [SRet (one tru)]; ret0] ].
Example t_nested_ret_ty : first_violation true p_nested_ret_ty = Some (Viol EWrongReturnType None (1, 0))
                          /\ agrees p_nested_ret_ty = true.
Proof. both. Qed.
Definition p_after_nested_ret : program :=
  [ fn f_ [] i32 [iff (CSingle (one tru)) [ret0; SCall (Id "h" 13 1) []]; ret0] ].
Example t_after_nested_ret : first_violation true p_after_nested_ret
                             = Some (Viol EForbiddenCodeAfterReturnDeprecated None (1, 1))
                             /\ agrees p_after_nested_ret = true.
Proof. both. Qed.
(** a nested return does not forbid code after the if at function level *)
Definition p_nested_ret_then_code : program :=
  [ fn f_ [] i32 [iff (CSingle (one tru)) [ret0]; SLet (Id "x" 14 5) false None (one (num 1)); ret0] ].
Example t_nested_ret_then_code : first_violation true p_nested_ret_then_code = None
                                 /\ agrees p_nested_ret_then_code = true.
Proof. both. Qed.
Definition p_after_break : program :=
  [ fn f_ [] i32 [SLoop [SBreak; SContinue]; ret0] ].
Example t_after_break : first_violation true p_after_break
                        = Some (Viol EForbiddenCodeAfterBreakDeprecated None (1, 1))
                        /\ agrees p_after_break = true.
Proof. both. Qed.
Definition p_after_continue : program :=
  [ fn f_ [] i32 [SLoop [SIf (IfS (CSingle (one tru))
                                  (IBLoop [SContinue; SLet (Id "x" 13 5) false None (one (var "q" 13 9))])
                                  None None)]; ret0] ].
Example t_after_continue : first_violation true p_after_continue
                           = Some (Viol EForbiddenCodeAfterContinueDeprecated None (1, 1))
                           /\ agrees p_after_continue = true.
Proof. both. Qed.
Definition p_after_ret_loop : program :=
  [ fn f_ [] i32 [SLoop [ret0; SBreak]; ret0] ].
Example t_after_ret_loop : first_violation true p_after_ret_loop
                           = Some (Viol EForbiddenCodeAfterReturnDeprecated None (1, 1))
                           /\ agrees p_after_ret_loop = true.
Proof. both. Qed.
(** deep nesting: loop > if (loop-flavoured) > else-if > loop > if; the innermost error *)
Definition p_deep : program :=
  [ fn f_ [(Id "a" 10 6, i32)] i32
       [SLoop [SLet (Id "b" 12 5) false None (one tru);
               SIf (IfS (CLogic (LC (one (var "a" 13 4)) CLess (one (num 9)) None))
                        (IBLoop [SBreak])
                        None
                        (Some (IfS (CSingle (one (var "b" 15 9)))
                                   (IBLoop [SLoop [iff (CSingle (one tru))
                                                       [SLet (Id "c" 17 5) false (Some i32) (one (var "b" 17 9))];
                                                   SBreak];
                                            SContinue])
                                   (Some (IBLoop [SRet (one (var "a" 20 8))]))
                                   None)))];
        ret0] ].
Example t_deep : first_violation true p_deep = Some (Viol EWrongLetType (Some "c"%string) (17, 5))
                 /\ agrees p_deep = true.
Proof. both. Qed.

(** ** 10. Outside the claim: ill-kinded placements are [Stuck] (the model panics) *)
Example t_stuck_break : check_program true [ fn f_ [] i32 [SBreak; ret0] ] = Stuck
                        /\ run [ fn f_ [] i32 [SBreak; ret0] ] = RPanic PIllKinded.
Proof. both. Qed.
Example t_stuck_p1 :
  let p := [ fn f_ [] i32 [SIf (IfS (CSingle (one tru)) (IBLoop []) None None); ret0] ] in
  check_program true p = Stuck /\ run p = RPanic PLoopLabel.
Proof. both. Qed.

(** ** 11. Small families, exhaustively (177 616 programs)

    Every program of each family: the model terminates normally and the C14 monitor accepts
    the specification's answer.  The families are products of small pools chosen so that each
    position can hold a well-typed item, an item with each kind of violation, and items whose
    violation depends on what precedes them (scopes, shadowing, mutability, return flags). *)
Definition S1 : ast_ty := tS [(Id "a" 0 0, i32)].
Definition prelude : program :=
  [ TStructDecl (Id "S" 2 8) [(Id "a" 2 12, i32)];
    TConst (Id "K" 3 7) i32 (lit 5);
    fn g_ [(Id "a" 20 6, i32); (Id "b" 20 14, tbool)] i32 [ret0] ].
Definition wrap (body : list stmt) : program :=
  prelude ++ [ fn f_ [(Id "p" 10 6, i32); (Id "s" 10 14, S1)] i32 body ].

Definition pool_exprs : list expr :=
  [ one (num 1); one tru; one (var "p" 5 1); one (var "x" 5 2); one (var "K" 5 3);
    one (EVField (Id "s" 5 4) (Id "a" 5 5)); one (EVField (Id "s" 5 6) (Id "z" 5 7));
    one (EVField (Id "p" 5 8) (Id "a" 5 9)); one (EVField (Id "x" 5 10) (Id "a" 5 11));
    one (EVCall (Id "g" 6 1) [one (num 1); one tru]);
    one (EVCall (Id "g" 6 2) [one tru]);
    one (EVCall (Id "g" 6 3) [one (var "x" 6 4)]);
    one (EVCall (Id "g" 6 5) [one (num 1); one tru; one (var "x" 6 6)]);
    one (EVCall (Id "h" 6 7) []);
    Expr (num 1) [(OPlus, tru); (OMultiply, num 2)];
    Expr (var "p" 7 1) [(OMultiply, num 1); (OPlus, var "x" 7 2)];
    Expr (var "x" 7 3) [(OMinus, EVSub (Expr (var "p" 7 4) [(OPlus, var "K" 7 5)]));
                        (OShiftLeft, num 1)];
    one (extS [(Id "a" 0 0, i32)]); one (extS []) ].

Definition pool_simple : list stmt :=
  flat_map (fun e => [ SLet (Id "x" 8 1) true None e; SLet (Id "x" 8 2) false (Some i32) e;
                       SLet (Id "s" 8 5) true None e;
                       SBind (Id "x" 8 3) e; SBind (Id "p" 8 4) e; SRet e ]) pool_exprs
  ++ [ SCall (Id "g" 9 1) [one (num 1)]; SCall (Id "h" 9 2) [] ].

(** two function-level statements, then an expression statement as the return *)
Definition fam_fn_level (f : program -> bool) : bool :=
  forallb (fun s1 => forallb (fun s2 =>
    f (wrap [s1; s2; SExprStmt (one (var "x" 30 1))])) pool_simple) pool_simple.
Example t_fam_fn_level : fam_fn_level agrees = true.
Proof. vm_compute. reflexivity. Qed.

Definition pool_conds : list cond :=
  [ CSingle (one tru); CSingle (one (var "x" 40 1));
    CLogic (LC (one (var "x" 40 2)) CEq (one (num 1)) None);
    CLogic (LC (one (var "p" 40 3)) CLess (one (num 1))
               (Some (LAnd, LC (one (var "s" 40 4)) CEq (one (var "s" 40 5)) None)));
    CLogic (LC (one (var "x" 40 6)) CEq (one (var "nope" 40 7)) None) ].
Definition pool_small : list stmt :=
  [ SLet (Id "x" 8 1) true None (one (num 1)); SLet (Id "x" 8 2) true None (one tru);
    SLet (Id "y" 8 3) false (Some i32) (one (var "x" 8 4));
    SBind (Id "x" 8 5) (one (num 2)); SBind (Id "x" 8 6) (one (var "y" 8 7));
    SRet (one (var "x" 8 8)); SRet (one (num 1));
    SCall (Id "g" 9 1) [one (var "x" 9 2); one tru] ].
Definition pool_loopy : list stmt := pool_small ++ [SBreak; SContinue].

(** if / else at function level: scopes of then / else, code after a nested return *)
Definition fam_if_else (f : program -> bool) : bool :=
  forallb (fun c => forallb (fun s0 => forallb (fun s1 => forallb (fun s2 => forallb (fun s3 =>
    f (wrap [s0; SIf (IfS c (IBIf [s1; s2]) (Some (IBIf [s3; s2])) None); s3;
             SRet (one (var "x" 50 1))]))
    pool_small) pool_small) pool_small) pool_small) pool_conds.
Example t_fam_if_else : fam_if_else agrees = true.
Proof. vm_compute. reflexivity. Qed.

(** a loop holding a loop-flavoured if / else-if / else: break, continue, all three flags *)
Definition fam_loop (f : program -> bool) : bool :=
  forallb (fun c => forallb (fun s0 => forallb (fun s1 => forallb (fun s2 => forallb (fun s3 =>
    f (wrap [s0;
             SLoop [s1;
                    SIf (IfS c (IBLoop [s2; s3]) None
                             (Some (IfS (CSingle (one (var "y" 51 1))) (IBLoop [s1; s3])
                                        (Some (IBLoop [s2])) None)));
                    s2];
             s0; SRet (one (var "x" 50 1))]))
    pool_loopy) pool_loopy) pool_loopy) pool_small) pool_conds.
Example t_fam_loop : fam_loop agrees = true.
Proof. vm_compute. reflexivity. Qed.

(** chains of three operators: priorities, brackets, leaves with their own violations *)
Definition pool_leaves : list expr_val :=
  [ num 1; tru; var "p" 60 1; var "nope" 60 2; EVSub (Expr (num 1) [(OPlus, tru)]);
    EVCall (Id "g" 60 3) [one (num 1); one tru] ].
Definition pool_ops : list binop := [OPlus; OMultiply; OMinus; OAnd].
Definition fam_chain (f : program -> bool) : bool :=
  forallb (fun v0 => forallb (fun o1 => forallb (fun v1 => forallb (fun o2 => forallb (fun v2 =>
    forallb (fun o3 => forallb (fun v3 =>
      f (wrap [SRet (Expr v0 [(o1, v1); (o2, v2); (o3, v3)])]))
    pool_leaves) pool_ops) pool_leaves) pool_ops) pool_leaves) pool_ops) pool_leaves.
Example t_fam_chain : fam_chain agrees = true.
Proof. vm_compute. reflexivity. Qed.

(** four top-level items: the three passes, tables, R1..R6 in every order *)
Definition cA := CConst (Id "A" 70 2).
Definition cB := CConst (Id "B" 70 1).
Definition c1 := CVal (PV PI32 1).
Definition tQ : ast_ty := TStruct (Id "Q" 0 0) [].
Definition pool_tops : list top :=
  [ TStructDecl (Id "S" 71 1) []; TStructDecl (Id "Q" 71 2) [(Id "a" 71 3, tS [])];
    TConst (Id "A" 72 1) i32 (CExpr c1 []);
    TConst (Id "A" 72 2) (tS []) (CExpr cB []);
    TConst (Id "B" 72 3) tQ (CExpr cA [(OPlus, cA); (OPlus, c1); (OPlus, cB)]);
    TConst (Id "B" 72 4) i32 (CExpr c1 [(OPlus, cB)]);
    TConst (Id "C" 72 5) i32 (CExpr cB [(OPlus, cA); (OPlus, cB)]);
    fn (Id "f" 73 1) [] i32 [SRet (one (var "A" 73 2))];
    fn (Id "f" 73 3) [(Id "a" 73 4, tS []); (Id "a" 73 5, tQ)] (tS []) [SRet (one (var "a" 73 6))];
    fn (Id "h" 73 7) [(Id "a" 73 8, i32)] tQ [SRet (one (EVCall (Id "f" 73 9) []))];
    fn (Id "k" 74 1) [(Id "a" 74 2, TStruct (Id "Z" 0 0) [])] i32 [SRet (one (var "B" 74 3))];
    TImport [] ].
Definition fam_decls (f : program -> bool) : bool :=
  forallb (fun t1 => forallb (fun t2 => forallb (fun t3 => forallb (fun t4 =>
    f [t1; t2; t3; t4]) pool_tops) pool_tops) pool_tops) pool_tops.
Example t_fam_decls : fam_decls agrees = true.
Proof. vm_compute. reflexivity. Qed.

(** the intended rule set is at least as strict on all of them (an instance of
    [RulesBasic.wf_implies_accepted_spec], here by computation) *)
Example t_fam_decls_weaker :
  fam_decls (fun p => implb (wf_b p) (accepted_spec_b p)) = true.
Proof. vm_compute. reflexivity. Qed.
