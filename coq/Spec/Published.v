(** The priority table the library PUBLISHES, as fixed by DESIGN.md §3.3:

      [* << >>] 9,  [/] 8,  [& == != > < >= <=] 7,  [| ^] 6,  [+] 5,  [-] 4

    The model (and every theorem about bracketing, analysis order and verdicts) is written against
    the table REGENERATED from /repo/src/ast.rs on every run ([Gen/Priority.v]); this file pins
    the regenerated table to the published one.  A change of a priority in the source then breaks
    [prio_is_published] — a proof obligation of every property whose statement depends on the
    bracketing (C07, and through the analysis order C14, C01, C02) — instead of being followed
    silently. *)
From Coq Require Import NArith.
From SA.Gen Require Import Enums Priority.
Local Open Scope N_scope.

Definition published_prio (o : binop) : N :=
  match o with
  | OMultiply | OShiftLeft | OShiftRight => 9
  | ODivide => 8
  | OAnd | OEq | ONotEq | OGreat | OLess | OGreatEq | OLessEq => 7
  | OOr | OXor => 6
  | OPlus => 5
  | OMinus => 4
  end.

Definition published_max : N := 9.

Theorem prio_is_published : forall o : binop, prio o = published_prio o.
Proof. intro o; destruct o; reflexivity. Qed.

Theorem max_prio_is_published : max_prio = published_max.
Proof. reflexivity. Qed.
