(** Two executable readings of one function: its instruction stack as a jump program
    ([flat_exec]) and its source statements with structured control flow ([struct_exec]).
    Both produce the trace of observable events and a final status; data is abstracted away:
    every conditional consumes one boolean from a given string of outcomes.

    No proofs live here (see [Proofs/ExecBasic.v]); everything is computational and extracts. *)
From SA Require Import Model.
From SA.Spec Require Import Stack.
Local Open Scope list_scope.

(** ** Events and final statuses *)
Inductive event := EvLet | EvAssign | EvCall (f : string) | EvRet.

Inductive status := Returned | OutOfOutcomes | OutOfFuel | FellOff | BadLabel (l : string).

Definition trace := (list event * status)%type.

Definition event_eqb (a b : event) : bool :=
  match a, b with
  | EvLet, EvLet | EvAssign, EvAssign | EvRet, EvRet => true
  | EvCall f, EvCall g => String.eqb f g
  | _, _ => false
  end.

Fixpoint events_eqb (a b : list event) : bool :=
  match a, b with
  | [], [] => true
  | x :: a', y :: b' => event_eqb x y && events_eqb a' b'
  | _, _ => false
  end.

Fixpoint prefixb (a b : list event) : bool :=
  match a, b with
  | [], _ => true
  | x :: a', y :: b' => event_eqb x y && prefixb a' b'
  | _ :: _, [] => false
  end.

(** ** Flat execution: the instruction stack as a jump program *)

(** Position of the first [ISetLabel l]. *)
Fixpoint find_label (l : string) (code : list instr) : option nat :=
  match code with
  | [] => None
  | i :: code' =>
      if match i with ISetLabel l' => String.eqb l l' | _ => false end then Some O
      else match find_label l code' with Some n => Some (S n) | None => None end
  end.

(** One step: either go on at a program counter (with the events emitted and the outcomes left)
    or stop. *)
Inductive action :=
| Next (ev : list event) (pc : nat) (w : list bool)
| Halt (ev : list event) (st : status).

Definition goto (code : list instr) (l : string) (w : list bool) : action :=
  match find_label l code with
  | Some pc => Next [] pc w
  | None => Halt [] (BadLabel l)
  end.

Definition branch (code : list instr) (lt lf : string) (w : list bool) : action :=
  match w with
  | [] => Halt [] OutOfOutcomes
  | b :: w' => goto code (if b then lt else lf) w'
  end.

Definition instr_step (code : list instr) (i : instr) (pc : nat) (w : list bool) : action :=
  match i with
  | ILet _ _ => Next [EvLet] (S pc) w
  | IBind _ _ => Next [EvAssign] (S pc) w
  | ICall f _ _ => Next [EvCall (f_name f)] (S pc) w
  | IFnRet _ | IFnRetLabel _ | IJumpFnRet _ => Halt [EvRet] Returned
  | IIfCondExpr _ lt lf => branch code lt lf w
  | IIfCondLogic lt lf _ => branch code lt lf w
  | IJumpTo l => goto code l w
  | _ => Next [] (S pc) w
  end.

Definition flat_step (code : list instr) (pc : nat) (w : list bool) : action :=
  match nth_error code pc with
  | None => Halt [] FellOff
  | Some i => instr_step code i pc w
  end.

Definition prepend_trace (ev : list event) (t : trace) : trace := (ev ++ fst t, snd t).

(** Every executed instruction costs one unit of fuel. *)
Fixpoint flat_run (code : list instr) (fuel : nat) (pc : nat) (w : list bool) : trace :=
  match fuel with
  | O => ([], OutOfFuel)
  | S fuel' =>
      match flat_step code pc w with
      | Halt ev st => (ev, st)
      | Next ev pc' w' => prepend_trace ev (flat_run code fuel' pc' w')
      end
  end.

Definition flat_exec (code : list instr) (outcomes : list bool) (fuel : nat) : trace :=
  flat_run code fuel O outcomes.

(** ** Events of expressions and conditions (source side) *)

(** The calls of an expression in evaluation order: leaves of the operator chain from left to
    right, the arguments of a call before the call, sub-expressions recursively.  (Priority
    folding regroups the chain but keeps the order of its leaves.) *)
Fixpoint expr_events (e : expr) : list event :=
  match e with
  | Expr v rest =>
      val_events v ++
      (fix go (l : list (binop * expr_val)) : list event :=
         match l with [] => [] | (_, v') :: l' => val_events v' ++ go l' end) rest
  end
with val_events (v : expr_val) : list event :=
  match v with
  | EVCall f args =>
      (fix go (l : list expr) : list event :=
         match l with [] => [] | a :: l' => expr_events a ++ go l' end) args
      ++ [EvCall (iname f)]
  | EVSub e => expr_events e
  | _ => []
  end.

Definition exprs_events (l : list expr) : list event := flat_map expr_events l.

Fixpoint lcond_events (c : lcond) : list event :=
  match c with
  | LC l _ r next =>
      expr_events l ++ expr_events r ++
      match next with Some (_, c') => lcond_events c' | None => [] end
  end.

Definition cond_events (c : cond) : list event :=
  match c with CSingle e => expr_events e | CLogic l => lcond_events l end.

(** ** Structured execution *)

(** How a statement (or a block) completes.  [JumpOuterEnd] exists for the quirk (finding F5):
    control continues after the outermost enclosing if-chain. *)
Inductive completion := Normal | Brk | Cont | JumpOuterEnd | Stop (st : status).

(** events emitted, completion, outcomes left *)
Definition sres := (list event * completion * list bool)%type.

Definition prepend (ev : list event) (r : sres) : sres :=
  let '(ev', c, w) := r in (ev ++ ev', c, w).

(** sequencing: go on with [k] only after normal completion *)
Definition seq (r : sres) (k : list bool -> sres) : sres :=
  match r with
  | (ev, Normal, w) => prepend ev (k w)
  | _ => r
  end.

Definition ifbody_stmts (b : ifbody) : list stmt :=
  match b with IBIf ss | IBLoop ss => ss end.

Section Structured.
  (** [quirk = false]: the intended semantics.  [quirk = true]: an [if] that is a statement of an
      if / else / else-if body continues, when it completes normally, after the outermost
      enclosing if-chain (finding F5). *)
  Variable quirk : bool.

  (** The completion of an [if] statement seen from the block it is a statement of.  [in_if]:
      that block is an if / else / else-if body; otherwise it is a function body or a loop body,
      where the outermost if-chain ends. *)
  Definition if_exit (in_if : bool) (r : sres) : sres :=
    let '(ev, c, w) := r in
    (ev,
     match c with
     | Normal => if quirk && in_if then JumpOuterEnd else Normal
     | JumpOuterEnd => if in_if then JumpOuterEnd else Normal
     | _ => c
     end, w).

  (** What one pass over a loop body means for the loop. *)
  Definition loop_exit (r : sres) (again : list bool -> sres) : sres :=
    match r with
    | (ev, Normal, w) | (ev, Cont, w) => prepend ev (again w)
    | (ev, Brk, w) => (ev, Normal, w)
    | _ => r
    end.

  Definition out_of_fuel_res (w : list bool) : sres := ([], Stop OutOfFuel, w).

  (** The fuel bounds the depth of the evaluation: one unit for every statement of a sequence,
      for every loop iteration and for every nesting level. *)
  Fixpoint exec_stmt (n : nat) (in_if : bool) (s : stmt) (w : list bool) {struct n} : sres :=
    match n with
    | O => out_of_fuel_res w
    | S n' =>
        match s with
        | SLet _ _ _ e => (expr_events e ++ [EvLet], Normal, w)
        | SBind _ e => (expr_events e ++ [EvAssign], Normal, w)
        | SCall f args => (exprs_events args ++ [EvCall (iname f)], Normal, w)
        | SIf i => if_exit in_if (exec_if n' i w)
        | SLoop body => exec_loop n' body w
        | SRet e | SExprStmt e => (expr_events e ++ [EvRet], Stop Returned, w)
        | SBreak => ([], Brk, w)
        | SContinue => ([], Cont, w)
        end
    end
  with exec_stmts (n : nat) (in_if : bool) (ss : list stmt) (w : list bool) {struct n} : sres :=
    match ss with
    | [] => ([], Normal, w)
    | s :: ss' =>
        match n with
        | O => out_of_fuel_res w
        | S n' => seq (exec_stmt n' in_if s w) (exec_stmts n' in_if ss')
        end
    end
  with exec_if (n : nat) (i : ifstmt) (w : list bool) {struct n} : sres :=
    match n with
    | O => out_of_fuel_res w
    | S n' =>
        match i with
        | IfS c body els elif =>
            match w with
            | [] => (cond_events c, Stop OutOfOutcomes, [])
            | b :: w' =>
                prepend (cond_events c)
                  (if b then exec_stmts n' true (ifbody_stmts body) w'
                   else match els with
                        | Some eb => exec_stmts n' true (ifbody_stmts eb) w'
                        | None =>
                            match elif with
                            | Some ei => exec_if n' ei w'
                            | None => ([], Normal, w')
                            end
                        end)
            end
        end
    end
  with exec_loop (n : nat) (body : list stmt) (w : list bool) {struct n} : sres :=
    match n with
    | O => out_of_fuel_res w
    | S n' => loop_exit (exec_stmts n' false body w) (exec_loop n' body)
    end.

  (** A function body that completes without [return] falls off its end. *)
  Definition finish (r : sres) : trace :=
    match r with
    | (ev, Stop st, _) => (ev, st)
    | (ev, _, _) => (ev, FellOff)
    end.
End Structured.

Definition struct_exec (quirk : bool) (body : list stmt) (outcomes : list bool) (fuel : nat)
  : trace :=
  finish (exec_stmts quirk fuel false body outcomes).

(** ** The bounded comparison *)
Definition agree (t1 t2 : trace) : bool :=
  match snd t1, snd t2 with
  | Returned, Returned => events_eqb (fst t1) (fst t2)
  | _, _ => prefixb (fst t1) (fst t2) || prefixb (fst t2) (fst t1)
  end.

Definition flat_ok (st : status) : bool :=
  match st with FellOff | BadLabel _ => false | _ => true end.

(** All [2^k] strings of outcomes of length [k]. *)
Fixpoint all_outcomes (k : nat) : list (list bool) :=
  match k with
  | O => [[]]
  | S k' => map (cons true) (all_outcomes k') ++ map (cons false) (all_outcomes k')
  end.
