(** The C03 and C04 monitors validated inside Coq against the model.

    Positive part: accepted, well-formed programs built for the situations named in the text of
    C03 (shadowing, sibling bodies, initialisers, constants against values, loops, fields, nested
    calls, extension leaves); on the model's output both monitors answer [true].  For some of
    them the event list of the lexical resolver is written out.

    Negative part: the model's output is damaged by a small function and the monitor concerned
    answers [false] (the other one, where the damage is invisible to it, still [true]).

    Everything is decided by [vm_compute]. *)
From SA Require Import Model.
From SA.Mon Require Import C03 C04.
From SA.Spec Require FirstViolation.
Local Open Scope list_scope.

(** ** What is asserted *)

(** the form asked for: the model terminates normally and both monitors accept its output *)
Definition both (p : program) : bool :=
  match run p with
  | ROk out => chk_C03 p out && chk_C04 p out
  | _ => false
  end.

(** the program is in the domain: accepted by the model (otherwise the monitors say [true]
    without looking) and well-formed by the intended rules (the domain of C04) *)
Definition in_domain (p : program) : bool :=
  match run p with
  | ROk out => match o_errors out with [] => true | _ => false end
  | _ => false
  end && FirstViolation.wf_b p.

Definition good (p : program) : Prop := in_domain p = true /\ both p = true.
Ltac decide_good := vm_compute; split; reflexivity.

(** the resolver's events for the k-th function of a program *)
Definition src_of (p : program) (k : nat) : option (list ev) :=
  match nth_error (functions_of p) k with
  | Some f => src_events f
  | None => None
  end.

(** ** Builders *)
Definition id (s : string) : ident := Id s 1 1.
Definition i32 := TPrim PI32.
Definition u8 := TPrim PU8.
Definition tbool := TPrim PBool.
Definition num (z : Z) : expr_val := EVPrim (PV PI32 z).
Definition tru : expr_val := EVPrim (PV PBool 1).
Definition var (s : string) : expr_val := EVName (id s).
Definition fld (x a : string) : expr_val := EVField (id x) (id a).
Definition call (f : string) (args : list expr) : expr_val := EVCall (id f) args.
Definition one (v : expr_val) : expr := Expr v [].
Definition bin (a : expr_val) (o : binop) (b : expr_val) : expr := Expr a [(o, b)].
Definition fn (name : string) (ps : list (string * ast_ty)) (r : ast_ty) (body : list stmt) : top :=
  TFn (Fn (id name) (map (fun q => (id (fst q), snd q)) ps) r body).
Definition lit (z : Z) : cexpr := CExpr (CVal (PV PI32 z)) [].
Definition slet (x : string) (e : expr) : stmt := SLet (id x) false None e.
Definition smut (x : string) (e : expr) : stmt := SLet (id x) true None e.
Definition sset (x : string) (e : expr) : stmt := SBind (id x) e.
Definition sret (e : expr) : stmt := SRet e.
Definition cvar (s : string) : cond := CSingle (one (var s)).
Definition cmp (l : expr_val) (c : cmpop) (r : expr_val) : cond := CLogic (LC (one l) c (one r) None).
(** if / else ; if / else-if *)
Definition sif (c : cond) (body : list stmt) : stmt := SIf (IfS c (IBIf body) None None).
Definition sife (c : cond) (body els : list stmt) : stmt := SIf (IfS c (IBIf body) (Some (IBIf els)) None).
(** the struct type [S { a: i32, b: bool }] *)
Definition sattrs : list (ident * ast_ty) := [(id "a", i32); (id "b", tbool)].
Definition tS : ast_ty := TStruct (id "S") sattrs.
Definition declS : top := TStructDecl (id "S") sattrs.
Definition ext (tag : N) : expr_val := EVExt i32 tag.
Definition extS (tag : N) : expr_val := EVExt tS tag.

(** ** Positive examples *)

(** 1. shadowed parameters; the initialiser of the shadowing let reads the parameter *)
Definition p01 : program :=
  [ fn "f" [("a", i32); ("b", i32)] i32
       [ slet "a" (bin (var "a") OPlus (var "b"));
         slet "b" (one (var "a"));
         sret (bin (var "a") OPlus (var "b")) ] ].
Example t01 : good p01. Proof. decide_good. Qed.
Example t01_events :
  src_of p01 0 = Some [EUse 0; EUse 1; EDecl 2; EUse 2; EDecl 3; EUse 2; EUse 3; ERet]%nat.
Proof. vm_compute. reflexivity. Qed.

(** 2. the same name re-declared in the sibling if / else-if / else bodies, read after them *)
Definition p02 : program :=
  [ fn "f" [("c", tbool)] i32
       [ slet "x" (one (num 1));
         SIf (IfS (cvar "c")
                  (IBIf [ slet "x" (bin (var "x") OPlus (num 10)); slet "y" (one (var "x")) ])
                  None
                  (Some (IfS (cvar "c")
                             (IBIf [ slet "x" (bin (var "x") OPlus (num 20));
                                     slet "y" (one (var "x")) ])
                             (Some (IBIf [ slet "x" (bin (var "x") OPlus (num 30));
                                           slet "y" (one (var "x")) ]))
                             None)));
         sret (one (var "x")) ] ].
Example t02 : good p02. Proof. decide_good. Qed.
Example t02_events :
  src_of p02 0 = Some [EDecl 1;
                       EUse 0; EUse 1; EDecl 2; EUse 2; EDecl 3;
                       EUse 0; EUse 1; EDecl 4; EUse 4; EDecl 5;
                       EUse 1; EDecl 6; EUse 6; EDecl 7;
                       EUse 1; ERet]%nat.
Proof. vm_compute. reflexivity. Qed.

(** 3. a chain of lets of one name: every initialiser reads the previous binding *)
Definition p03 : program :=
  [ fn "f" [] i32
       [ slet "x" (one (num 1));
         slet "x" (bin (var "x") OPlus (var "x"));
         slet "x" (bin (var "x") OMultiply (num 2));
         sret (one (var "x")) ] ].
Example t03 : good p03. Proof. decide_good. Qed.
Example t03_events :
  src_of p03 0 = Some [EDecl 0; EUse 0; EUse 0; EDecl 1; EUse 1; EDecl 2; EUse 2; ERet]%nat.
Proof. vm_compute. reflexivity. Qed.

(** 4. a constant and a value of the same name: the constant before the let (also inside the
    let's own initialiser), the value after *)
Definition p04 : program :=
  [ TConst (id "K") i32 (lit 5);
    fn "f" [] i32
       [ slet "y" (one (var "K"));
         slet "K" (bin (var "y") OPlus (var "K"));
         sret (bin (var "K") OPlus (var "y")) ] ].
Example t04 : good p04. Proof. decide_good. Qed.
Example t04_events :
  src_of p04 0 = Some [EUseConst "K"; EDecl 0; EUse 0; EUseConst "K"; EDecl 1; EUse 1; EUse 0; ERet]%nat.
Proof. vm_compute. reflexivity. Qed.

(** 5. ... and the constant again once the body that declared the value is closed *)
Definition p05 : program :=
  [ TConst (id "K") i32 (lit 5);
    fn "f" [("c", tbool)] i32
       [ sife (cvar "c")
              [ slet "K" (one (num 1)); slet "z" (one (var "K")) ]
              [ slet "z" (one (var "K")) ];
         sret (one (var "K")) ] ].
Example t05 : good p05. Proof. decide_good. Qed.
Example t05_events :
  src_of p05 0 = Some [EUse 0; EDecl 1; EUse 1; EDecl 2; EUseConst "K"; EDecl 3; EUseConst "K"; ERet]%nat.
Proof. vm_compute. reflexivity. Qed.

(** 6. a loop body reads a value declared before the loop, re-declares it, reads the new one;
    after the loop the old one *)
Definition p06 : program :=
  [ fn "f" [] i32
       [ slet "x" (one (num 1));
         SLoop [ slet "y" (one (var "x"));
                 slet "x" (bin (var "y") OPlus (num 2));
                 slet "z" (one (var "x"));
                 SBreak ];
         sret (one (var "x")) ] ].
Example t06 : good p06. Proof. decide_good. Qed.
Example t06_events :
  src_of p06 0 = Some [EDecl 0; EUse 0; EDecl 1; EUse 1; EDecl 2; EUse 2; EDecl 3; EUse 0; ERet]%nat.
Proof. vm_compute. reflexivity. Qed.

(** 7. field reads of struct parameters (operands after field reads: F7); a struct parameter
    shadowed by an integer inside a body *)
Definition p07 : program :=
  [ declS;
    fn "f" [("s", tS); ("t", tS)] i32
       [ slet "u" (bin (fld "s" "a") OPlus (fld "t" "a"));
         sif (cmp (fld "s" "b") CEq (fld "t" "b"))
             [ slet "s" (one (num 1)); sret (bin (var "s") OPlus (var "u")) ];
         sret (one (fld "s" "a")) ] ].
Example t07 : good p07. Proof. decide_good. Qed.
Example t07_events :
  src_of p07 0 = Some [EUseField 0 "a"; EUseField 1 "a"; EDecl 2;
                       EUseField 0 "b"; EUseField 1 "b"; EDecl 3; EUse 3; EUse 2; ERet;
                       EUseField 0 "a"; ERet]%nat.
Proof. vm_compute. reflexivity. Qed.

(** 8. calls whose arguments are calls; a call statement; a call as an operand *)
Definition p08 : program :=
  [ fn "g" [("a", i32); ("b", i32)] i32 [ sret (bin (var "a") OPlus (var "b")) ];
    fn "h" [] i32 [ sret (one (num 7)) ];
    fn "f" [("x", i32)] i32
       [ SCall (id "g") [ one (call "g" [one (var "x"); one (call "h" [])]); one (num 3) ];
         slet "y" (bin (call "g" [ one (call "g" [one (var "x"); one (num 1)]);
                                   one (call "g" [one (num 2); one (var "x")]) ])
                       OPlus (call "h" []));
         sret (one (call "g" [one (var "y"); one (var "x")])) ] ].
Example t08 : good p08. Proof. decide_good. Qed.
Example t08_events :
  src_of p08 2 = Some [EUse 0; ECall "h"; ECall "g"; ECall "g";
                       EUse 0; ECall "g"; EUse 0; ECall "g"; ECall "g"; ECall "h"; EDecl 1;
                       EUse 1; EUse 0; ECall "g"; ERet]%nat.
Proof. vm_compute. reflexivity. Qed.

(** 9. extension leaves: in a chain with priorities, of a struct type, as a call argument, as the
    subject of a field read *)
Definition p09 : program :=
  [ declS;
    fn "k" [("s", tS)] i32 [ sret (one (fld "s" "a")) ];
    fn "f" [] i32
       [ slet "e" (Expr (ext 1) [(OPlus, ext 2); (OMultiply, ext 3)]);
         slet "t" (one (extS 4));
         slet "r" (bin (call "k" [one (extS 5)]) OPlus (fld "t" "a"));
         sret (Expr (var "e") [(OPlus, var "r"); (OMinus, ext 6)]) ] ].
Example t09 : good p09. Proof. decide_good. Qed.
Example t09_events :
  src_of p09 1 = Some [EExt 1; EExt 2; EExt 3; EDecl 0; EExt 4; EDecl 1;
                       EExt 5; ECall "k"; EUseField 1 "a"; EDecl 2;
                       EUse 0; EUse 2; EExt 6; ERet]%nat.
Proof. vm_compute. reflexivity. Qed.

(** 10. assignments: to the outer value from inside a body, to the value re-declared in the
    body, to the outer value from the sibling body and after the if *)
Definition p10 : program :=
  [ fn "f" [("c", tbool)] i32
       [ smut "x" (one (num 1));
         sife (cvar "c")
              [ sset "x" (one (num 2));
                smut "x" (one (num 3));
                sset "x" (bin (var "x") OPlus (num 4)) ]
              [ sset "x" (one (num 5)) ];
         sset "x" (bin (var "x") OPlus (num 6));
         sret (one (var "x")) ] ].
Example t10 : good p10. Proof. decide_good. Qed.
Example t10_events :
  src_of p10 0 = Some [EDecl 1; EUse 0; EAssign 1; EDecl 2; EUse 2; EAssign 2; EAssign 1;
                       EUse 1; EAssign 1; EUse 1; ERet]%nat.
Proof. vm_compute. reflexivity. Qed.

(** 11. a logic condition: left, right, then the rest of the chain, resolved outside the body's
    declarations *)
Definition p11 : program :=
  [ fn "f" [("a", i32); ("b", i32)] i32
       [ slet "x" (one (var "a"));
         sif (CLogic (LC (one (var "a")) CGreat (one (var "b"))
                         (Some (LAnd, LC (one (var "x")) CEq (one (var "a"))
                                         (Some (LOr, LC (one (var "b")) CLess (one (var "x")) None))))))
             [ slet "a" (one (var "b")); sret (one (var "a")) ];
         sret (one (var "a")) ] ].
Example t11 : good p11. Proof. decide_good. Qed.
Example t11_events :
  src_of p11 0 = Some [EUse 0; EDecl 2; EUse 0; EUse 1; EUse 2; EUse 0; EUse 1; EUse 2;
                       EUse 1; EDecl 3; EUse 3; ERet; EUse 0; ERet]%nat.
Proof. vm_compute. reflexivity. Qed.

(** 12. an if with loop-flavoured bodies inside a loop: break / continue, names re-declared at
    every level *)
Definition p12 : program :=
  [ fn "f" [("c", tbool)] i32
       [ slet "n" (one (num 0));
         SLoop [ slet "n" (bin (var "n") OPlus (num 1));
                 SIf (IfS (cvar "c")
                          (IBLoop [ slet "n" (bin (var "n") OPlus (num 2)); SBreak ])
                          (Some (IBLoop [ slet "m" (one (var "n")); SContinue ]))
                          None) ];
         sret (one (var "n")) ] ].
Example t12 : good p12. Proof. decide_good. Qed.
Example t12_events :
  src_of p12 0 = Some [EDecl 1; EUse 1; EDecl 2; EUse 0; EUse 2; EDecl 3; EUse 2; EDecl 4;
                       EUse 1; ERet]%nat.
Proof. vm_compute. reflexivity. Qed.

(** 13. returns inside both bodies of an if (same name declared in each), and the function-level
    return after them *)
Definition p13 : program :=
  [ fn "f" [("c", tbool)] i32
       [ sife (cvar "c")
              [ slet "r" (one (num 1)); sret (one (var "r")) ]
              [ slet "r" (one (num 2)); sret (one (var "r")) ];
         sret (one (num 0)) ] ].
Example t13 : good p13. Proof. decide_good. Qed.

(** 14. two functions using the same names: the numbering is per function *)
Definition p14 : program :=
  [ fn "a" [("x", i32)] i32 [ slet "y" (one (var "x")); sret (one (var "y")) ];
    fn "b" [("y", i32); ("x", i32)] i32
       [ slet "x" (one (var "y")); slet "y" (one (var "x"));
         sret (one (call "a" [one (var "y")])) ] ].
Example t14 : good p14. Proof. decide_good. Qed.
Example t14_events :
  src_of p14 1 = Some [EUse 0; EDecl 2; EUse 2; EDecl 3; EUse 3; ECall "a"; ERet]%nat.
Proof. vm_compute. reflexivity. Qed.

(** 15. three levels: loop / if / loop, one name re-declared at each, read again at each level
    after the inner body *)
Definition p15 : program :=
  [ fn "f" [("c", tbool)] i32
       [ slet "x" (one (num 1));
         SLoop [ slet "x" (bin (var "x") OPlus (num 1));
                 SIf (IfS (cvar "c")
                          (IBLoop [ slet "x" (bin (var "x") OPlus (num 2));
                                    SLoop [ slet "x" (bin (var "x") OPlus (num 3)); SBreak ];
                                    slet "w" (one (var "x"));
                                    SBreak ])
                          None None);
                 slet "v" (one (var "x"));
                 SBreak ];
         sret (one (var "x")) ] ].
Example t15 : good p15. Proof. decide_good. Qed.
Example t15_events :
  src_of p15 0 = Some [EDecl 1; EUse 1; EDecl 2; EUse 0; EUse 2; EDecl 3; EUse 3; EDecl 4;
                       EUse 3; EDecl 5; EUse 2; EDecl 6; EUse 1; ERet]%nat.
Proof. vm_compute. reflexivity. Qed.

(** 16. expression statements as returns; constants (one defined from the other) as arguments
    and operands; an unused parameter *)
Definition p16 : program :=
  [ TConst (id "A") i32 (lit 1);
    TConst (id "B") i32 (CExpr (CConst (id "A")) [(OPlus, CVal (PV PI32 2))]);
    fn "g" [("a", i32); ("b", i32)] i32 [ SExprStmt (one (var "a")) ];
    fn "f" [("u", i32)] i32
       [ SExprStmt (bin (call "g" [one (var "A"); one (var "B")]) OPlus (var "A")) ] ].
Example t16 : good p16. Proof. decide_good. Qed.

(** 17. the then-body declares the name; the else body still reads the outer one, then declares
    its own *)
Definition p17 : program :=
  [ fn "f" [("c", tbool)] i32
       [ slet "x" (one (num 1));
         sife (cvar "c")
              [ slet "x" (one (num 2)); slet "a" (one (var "x")) ]
              [ slet "a" (one (var "x")); slet "x" (one (num 3)); slet "b" (one (var "x")) ];
         sret (one (var "x")) ] ].
Example t17 : good p17. Proof. decide_good. Qed.
Example t17_events :
  src_of p17 0 = Some [EDecl 1; EUse 0; EDecl 2; EUse 2; EDecl 3; EUse 1; EDecl 4; EDecl 5;
                       EUse 5; EDecl 6; EUse 1; ERet]%nat.
Proof. vm_compute. reflexivity. Qed.

(** 18. the condition of an else-if reads the parameter although the then-body re-declared it *)
Definition p18 : program :=
  [ fn "f" [("x", i32)] i32
       [ SIf (IfS (cmp (var "x") CGreat (num 0))
                  (IBIf [ slet "x" (one (num 5)); slet "q" (one (var "x")) ])
                  None
                  (Some (IfS (cmp (var "x") CGreat (num 1))
                             (IBIf [ slet "q" (one (var "x")) ])
                             None None)));
         sret (one (var "x")) ] ].
Example t18 : good p18. Proof. decide_good. Qed.
Example t18_events :
  src_of p18 0 = Some [EUse 0; EDecl 1; EUse 1; EDecl 2; EUse 0; EUse 0; EDecl 3; EUse 0; ERet]%nat.
Proof. vm_compute. reflexivity. Qed.

(** 19. several primitive types, an annotated let, a comparison of non-integers *)
Definition p19 : program :=
  [ fn "f" [("a", u8); ("b", tbool)] tbool
       [ SLet (id "c") false (Some u8) (one (var "a"));
         smut "d" (one (var "b"));
         sif (cmp (var "c") CEq (var "a")) [ sset "d" (one tru); sret (one (var "d")) ];
         sret (one (var "b")) ] ].
Example t19 : good p19. Proof. decide_good. Qed.

(** 20. the smallest cases *)
Definition p20 : program := [ fn "f" [] i32 [ sret (one (num 1)) ] ].
Example t20 : good p20. Proof. decide_good. Qed.
Example t_empty : good []. Proof. decide_good. Qed.

(** ** Negative examples: damaged outputs *)

Definition set_ctx (c : list instr) (b : block) : block :=
  Block (b_values b) (b_inner b) (b_labels b) (b_reg b) (b_mret b) c (b_kids b).

(** apply [g] to the root stack of the k-th function *)
Definition on_root (k : nat) (g : list instr -> list instr) (o : output) : output :=
  Output (o_errors o) (o_globals o) (o_gstack o)
         (update_nth k (fun b => set_ctx (g (b_ctx b)) b) (o_fns o)).

(** apply [f] to the k-th instruction that satisfies [sel] *)
Fixpoint at_kth (sel : instr -> bool) (k : nat) (f : instr -> instr) (c : list instr) : list instr :=
  match c with
  | [] => []
  | i :: c' =>
      if sel i then match k with
                    | O => f i :: c'
                    | S k' => i :: at_kth sel k' f c'
                    end
      else i :: at_kth sel k f c'
  end.

(** swap the k-th instruction with the one after it *)
Fixpoint swap_at (k : nat) (c : list instr) : list instr :=
  match k, c with
  | O, a :: b :: c' => b :: a :: c'
  | S k', a :: c' => a :: swap_at k' c'
  | _, _ => c
  end.

Definition is_read (i : instr) : bool := match i with IExprValue _ _ => true | _ => false end.
Definition is_let (i : instr) : bool := match i with ILet _ _ => true | _ => false end.
Definition is_op (i : instr) : bool := match i with IExprOp _ _ _ _ => true | _ => false end.
Definition is_call (i : instr) : bool := match i with ICall _ _ _ => true | _ => false end.
Definition is_bind (i : instr) : bool := match i with IBind _ _ => true | _ => false end.
Definition is_field (i : instr) : bool := match i with IExprStruct _ _ _ => true | _ => false end.
Definition is_arg (i : instr) : bool := match i with IFnArg _ _ _ => true | _ => false end.
Definition is_ret (i : instr) : bool :=
  match i with IFnRet _ | IFnRetLabel _ | IJumpFnRet _ => true | _ => false end.

(** the value declared by the k-th [LetBinding] *)
Fixpoint kth_let_value (k : nat) (c : list instr) : option value :=
  match c with
  | [] => None
  | ILet v _ :: c' => match k with O => Some v | S k' => kth_let_value k' c' end
  | _ :: c' => kth_let_value k c'
  end.

Definition retype (t : sem_ty) (e : eres) : eres := ERes t (r_val e).
Definition sbool := SPrim PBool.

(** the verdicts of the two monitors on the damaged output of the model *)
Definition verdicts (p : program) (d : output -> output) : option (bool * bool) :=
  match run p with
  | ROk out => Some (chk_C03 p (d out), chk_C04 p (d out))
  | _ => None
  end.

(** the identity damages nothing *)
Example n00 : verdicts p03 (fun o => o) = Some (true, true).
Proof. vm_compute. reflexivity. Qed.

(** N1. a read carries the Value of a different declaration of the same source name: the read of
    the returned [x] (the third [x]) is given the Value of the first [x].  Types and mutability
    agree, so only C03 sees it. *)
Definition d_read_other_decl (c : list instr) : list instr :=
  match kth_let_value 0 c with
  | Some v0 => at_kth is_read 3 (fun i => match i with IExprValue _ r => IExprValue v0 r | _ => i end) c
  | None => c
  end.
Example n01 : verdicts p03 (on_root 0 d_read_other_decl) = Some (false, true).
Proof. vm_compute. reflexivity. Qed.

(** ... the same for an assignment: in the then-body of [p10] the assignment to the re-declared
    [x] is retargeted to the outer [x] *)
Definition d_bind_other_decl (c : list instr) : list instr :=
  match kth_let_value 0 c with
  | Some v0 => at_kth is_bind 1 (fun i => match i with IBind _ e => IBind v0 e | _ => i end) c
  | None => c
  end.
Example n01b : verdicts p10 (on_root 0 d_bind_other_decl) = Some (false, true).
Proof. vm_compute. reflexivity. Qed.

(** N2. two adjacent instructions of different event kinds swapped: in the last statement of
    [f] in [p08], [return g(y, x)], the read of [x] and the call *)
Definition last_call_pos (c : list instr) : nat :=
  (fix go (c : list instr) (k : nat) (best : nat) : nat :=
     match c with
     | [] => best
     | i :: c' => go c' (S k) (if is_call i then k else best)
     end) c O O.
Definition d_swap_before_last_call (c : list instr) : list instr := swap_at (last_call_pos c - 1) c.
Example n02 : verdicts p08 (on_root 2 d_swap_before_last_call) = Some (false, false).
Proof. vm_compute. reflexivity. Qed.

(** ... a declaration and the read before it: in the loop body of [p06], [let y = x] reads [x] and
    then declares [y]; swapped, the declaration comes first.  Every internal name is still
    declared before it is used: it is the ORDER that C03 rejects (C04 too: the let's operand
    names a register that is not written yet). *)
Fixpoint pos_kth (sel : instr -> bool) (k : nat) (c : list instr) : nat :=
  match c with
  | [] => O
  | i :: c' =>
      if sel i then match k with O => O | S k' => S (pos_kth sel k' c') end
      else S (pos_kth sel k c')
  end.
Definition d_swap_before_let (k : nat) (c : list instr) : list instr :=
  swap_at (pos_kth is_let k c - 1) c.
Example n02b : verdicts p06 (on_root 0 (d_swap_before_let 1)) = Some (false, false).
Proof. vm_compute. reflexivity. Qed.

(** ... operands left to right: the reads of [a] and [b] in [let a = a + b] of [p01] swapped (the
    registers and types still fit, so C04 does not see it) *)
Example n02c : verdicts p01 (on_root 0 (swap_at 2)) = Some (false, true).
Proof. vm_compute. reflexivity. Qed.

(** N3. the type stamped on one operand changed (left operand of the first operation) *)
Definition d_operand_type : list instr -> list instr :=
  at_kth is_op 0 (fun i => match i with IExprOp o l r reg => IExprOp o (retype sbool l) r reg | _ => i end).
Example n03 : verdicts p03 (on_root 0 d_operand_type) = Some (true, false).
Proof. vm_compute. reflexivity. Qed.

(** N4. the type of one let's Value changed (second let) *)
Definition d_let_type : list instr -> list instr :=
  at_kth is_let 1 (fun i => match i with
                            | ILet v e => ILet (Value (v_inner v) sbool (v_mut v)) e
                            | _ => i
                            end).
Example n04 : verdicts p03 (on_root 0 d_let_type) = Some (true, false).
Proof. vm_compute. reflexivity. Qed.

(** N5. an argument dropped from one call: the inner [g(x, h())] of [f] in [p08], the second call
    of that stack *)
Definition d_drop_arg (c : list instr) : list instr :=
  at_kth is_call 1 (fun i => match i with ICall f args r => ICall f (tl args) r | _ => i end) c.
Example n05 : verdicts p08 (on_root 2 d_drop_arg) = Some (true, false).
Proof. vm_compute. reflexivity. Qed.

(** N6. one return's type changed.  The returned operand is an extension leaf, whose type is only
    known from the operand itself: what fails is the comparison with the declared result type. *)
Definition p_ret_ext : program := [ fn "f" [] i32 [ sret (one (ext 7)) ] ].
Example t_ret_ext : good p_ret_ext. Proof. decide_good. Qed.
Definition d_ret_type : list instr -> list instr :=
  at_kth is_ret 0 (fun i => match i with
                            | IFnRet e => IFnRet (retype sbool e)
                            | IFnRetLabel e => IFnRetLabel (retype sbool e)
                            | IJumpFnRet e => IJumpFnRet (retype sbool e)
                            | _ => i
                            end).
Example n06 : verdicts p_ret_ext (on_root 0 d_ret_type) = Some (true, false).
Proof. vm_compute. reflexivity. Qed.
(** ... and a nested return of a register ([p13], then-body) *)
Example n06b : verdicts p13 (on_root 0 d_ret_type) = Some (true, false).
Proof. vm_compute. reflexivity. Qed.

(** N7. a read carries the right internal name with another mutability *)
Definition d_read_mut : list instr -> list instr :=
  at_kth is_read 0 (fun i => match i with
                             | IExprValue v r => IExprValue (Value (v_inner v) (v_ty v) (negb (v_mut v))) r
                             | _ => i
                             end).
Example n07 : verdicts p03 (on_root 0 d_read_mut) = Some (true, false).
Proof. vm_compute. reflexivity. Qed.

(** N8. an internal name declared twice (the second let re-uses the name of the first) *)
Definition d_dup_inner (c : list instr) : list instr :=
  match kth_let_value 0 c with
  | Some v0 => at_kth is_let 1 (fun i => match i with ILet _ e => ILet v0 e | _ => i end) c
  | None => c
  end.
Example n08 : verdicts p03 (on_root 0 d_dup_inner) = Some (false, false).
Proof. vm_compute. reflexivity. Qed.

(** N9. a field read with another index: another attribute name (C03), another type (C04) *)
Definition d_field_idx : list instr -> list instr :=
  at_kth is_field 0 (fun i => match i with IExprStruct v _ r => IExprStruct v 1 r | _ => i end).
Example n09 : verdicts p07 (on_root 0 d_field_idx) = Some (false, false).
Proof. vm_compute. reflexivity. Qed.

(** N10. a parameter declaration dropped *)
Definition d_drop_arg_decl (c : list instr) : list instr :=
  match c with IFnArg _ _ _ :: c' => c' | _ => c end.
Example n10 : verdicts p14 (on_root 1 d_drop_arg_decl) = Some (false, false).
Proof. vm_compute. reflexivity. Qed.

(** N11. a read in a sibling body bound to the declaration of the then-body ([p17]: the first
    read of the else body is given the Value declared in the then-body) *)
Definition d_read_sibling (c : list instr) : list instr :=
  match kth_let_value 1 c with
  | Some v1 => at_kth is_read 2 (fun i => match i with IExprValue _ r => IExprValue v1 r | _ => i end) c
  | None => c
  end.
Example n11 : verdicts p17 (on_root 0 d_read_sibling) = Some (false, true).
Proof. vm_compute. reflexivity. Qed.

(** N12. the domain of C04: a call with too few arguments is accepted (finding F2) and the
    UNDAMAGED output fails C04 — such programs are not well-formed and are excluded by the
    orchestrator, not by the monitor.  C03 holds. *)
Definition p_f2 : program :=
  [ fn "g" [("a", i32)] i32 [ sret (one (var "a")) ];
    fn "f" [] i32 [ sret (one (call "g" [])) ] ].
Example n12 : verdicts p_f2 (fun o => o) = Some (true, false)
              /\ in_domain p_f2 = false /\ FirstViolation.accepted_spec_b p_f2 = true.
Proof. vm_compute. repeat split; reflexivity. Qed.
