(** Two executable readings of one function WITH DATA, for an arbitrary interpretation of the
    primitive operations:

    - [vflat_exec]: the instruction stack as a program of a register machine (register file, a
      store keyed by the INTERNAL names of values, jumps to labels);
    - [vstruct_exec]: the source statements, with a lexically scoped environment of SOURCE names,
      expressions bracketed by [Spec/Bracket.bracket], structured control flow exactly as
      [Spec/Exec.struct_exec] (same completions, same [quirk] for finding F5).

    Both produce the trace of observable events - now carrying the values - and a final status.
    There is no string of outcomes any more: every conditional is decided by the data.

    No proofs live here (see [Proofs/ValueSim*.v]); everything is computational and extracts. *)
From SA Require Import Model.
From SA.Spec Require Import Stack Bracket.
Local Open Scope list_scope.

(** ** Interpretations of the primitive operations *)
Record interp (V : Type) : Type := Interp {
  i_lit : prim_val -> V;
  i_op : binop -> V -> V -> V;
  i_cmp : cmpop -> V -> V -> bool;
  i_truth : V -> bool;
  i_field : V -> string -> V;            (* attribute NAME *)
  i_ext : N -> V;
  i_const : string -> V;
  i_call : string -> list V -> V;        (* calls are opaque pure functions of their arguments *)
  i_eqb : V -> V -> bool                 (* used by the comparison of traces only *)
}.
Arguments i_lit {V} _ _.
Arguments i_op {V} _ _ _ _.
Arguments i_cmp {V} _ _ _ _.
Arguments i_truth {V} _ _.
Arguments i_field {V} _ _ _.
Arguments i_ext {V} _ _.
Arguments i_const {V} _ _.
Arguments i_call {V} _ _ _.
Arguments i_eqb {V} _ _ _.

(** Why an execution cannot go on.  On the machine side: a read of a register or of an internal
    name that was never written (never a default value), a register of the wrong kind (a boolean
    where a value is expected or the converse), a field index that the struct type of the value
    record does not have, a [FunctionArg] with no argument left.  On the source side: an
    assignment to, or a field read of, a name that is not in scope; a wrong number of arguments. *)
Inductive stuck :=
| UnwrittenReg (n : N)
| UnwrittenName (x : string)
| WrongKind (n : N)
| NoField (x : string) (idx : N)
| NoArgument.

Inductive vstatus :=
| VReturned
| VOutOfFuel
| VFellOff
| VBadLabel (l : string)
| VStuck (why : stuck).

Definition vok (s : vstatus) : bool :=
  match s with VReturned | VOutOfFuel => true | _ => false end.

Definition combine_logic (o : logicop) (a b : bool) : bool :=
  match o with LAnd => andb a b | LOr => orb a b end.

(** the attribute name of an index, from the struct type carried by a value record *)
Fixpoint attr_name_of (idx : N) (attrs : list (string * N * sem_ty)) : option string :=
  match attrs with
  | [] => None
  | (a, i, _) :: attrs' => if N.eqb i idx then Some a else attr_name_of idx attrs'
  end.

Definition field_name_of (t : sem_ty) (idx : N) : option string :=
  match t with
  | SStruct _ attrs => attr_name_of idx attrs
  | _ => None
  end.

(** the result of a read of the machine *)
Inductive rd (A : Type) := Rd (a : A) | Unreadable (why : stuck).
Arguments Rd {A} a.
Arguments Unreadable {A} why.

(** the result of an evaluation of the source: a value, or the reason of the stop *)
Inductive outcome (A : Type) := Got (a : A) | Stopped (s : vstatus).
Arguments Got {A} a.
Arguments Stopped {A} s.

(** How a statement (or a block) completes: as [Spec/Exec.completion]. *)
Inductive vcompletion := VNormal | VBrk | VCont | VJumpOuterEnd | VStop (s : vstatus).

Section Value.
  Variable V : Type.
  Variable I : interp V.

  (** ** Events and traces *)
  Inductive vevent :=
  | VLet (v : V)
  | VAssign (v : V)
  | VCall (f : string) (args : list V)
  | VRet (v : V).

  Definition vtrace := (list vevent * vstatus)%type.

  Fixpoint vals_eqb (a b : list V) : bool :=
    match a, b with
    | [], [] => true
    | x :: a', y :: b' => i_eqb I x y && vals_eqb a' b'
    | _, _ => false
    end.

  Definition vevent_eqb (a b : vevent) : bool :=
    match a, b with
    | VLet x, VLet y | VAssign x, VAssign y | VRet x, VRet y => i_eqb I x y
    | VCall f xs, VCall g ys => String.eqb f g && vals_eqb xs ys
    | _, _ => false
    end.

  Fixpoint vevents_eqb (a b : list vevent) : bool :=
    match a, b with
    | [], [] => true
    | x :: a', y :: b' => vevent_eqb x y && vevents_eqb a' b'
    | _, _ => false
    end.

  Fixpoint vprefixb (a b : list vevent) : bool :=
    match a, b with
    | [], _ => true
    | x :: a', y :: b' => vevent_eqb x y && vprefixb a' b'
    | _ :: _, [] => false
    end.

  (** ** The register machine *)

  (** A register holds a value, or the boolean of a comparison / logic connective. *)
  Inductive rval := RV (v : V) | RB (b : bool).

  (** register, content, "written by a call or a field read" (for the rule of finding F7) *)
  Definition regfile := list (N * (rval * bool)).
  Definition store := list (string * V).

  Fixpoint reg_find (n : N) (rf : regfile) : option (rval * bool) :=
    match rf with
    | [] => None
    | (m, x) :: rf' => if N.eqb n m then Some x else reg_find n rf'
    end.

  Fixpoint reg_set (n : N) (x : rval * bool) (rf : regfile) : regfile :=
    match rf with
    | [] => [(n, x)]
    | (m, y) :: rf' => if N.eqb n m then (n, x) :: rf' else (m, y) :: reg_set n x rf'
    end.

  Record mstate := MState { m_regs : regfile; m_store : store; m_args : list V }.

  (** An operand.  Finding F7 (as in [Mon/C06.operand]): a register that nothing wrote denotes the
      result of the call / field read that wrote the register before it. *)
  Definition operand (rf : regfile) (e : eres) : rd V :=
    match r_val e with
    | RPrim p => Rd (i_lit I p)
    | RReg n =>
        match reg_find n rf with
        | Some (RV v, _) => Rd v
        | Some (RB _, _) => Unreadable (WrongKind n)
        | None =>
            if N.eqb n 0 then Unreadable (UnwrittenReg n)
            else match reg_find (n - 1) rf with
                 | Some (RV v, true) => Rd v
                 | _ => Unreadable (UnwrittenReg n)
                 end
        end
    end.

  Fixpoint operands (rf : regfile) (es : list eres) : rd (list V) :=
    match es with
    | [] => Rd []
    | e :: es' =>
        match operand rf e with
        | Unreadable w => Unreadable w
        | Rd v => match operands rf es' with
                  | Unreadable w => Unreadable w
                  | Rd vs => Rd (v :: vs)
                  end
        end
    end.

  (** the boolean of a comparison / connective: no F7 rule (as [Mon/C06.reg_tree]) *)
  Definition bool_reg (rf : regfile) (n : N) : rd bool :=
    match reg_find n rf with
    | Some (RB b, _) => Rd b
    | Some (RV _, _) => Unreadable (WrongKind n)
    | None => Unreadable (UnwrittenReg n)
    end.

  Definition read_name (st : store) (x : string) : rd V :=
    match alookup x st with
    | Some v => Rd v
    | None => Unreadable (UnwrittenName x)
    end.

  (** Position of the first [ISetLabel l] (as [Spec/Exec.find_label]). *)
  Fixpoint vfind_label (l : string) (code : list instr) : option nat :=
    match code with
    | [] => None
    | i :: code' =>
        if match i with ISetLabel l' => String.eqb l l' | _ => false end then Some O
        else match vfind_label l code' with Some n => Some (S n) | None => None end
    end.

  Inductive vaction :=
  | VNext (ev : list vevent) (pc : nat) (st : mstate)
  | VHalt (ev : list vevent) (s : vstatus).

  Definition vgoto (code : list instr) (l : string) (st : mstate) : vaction :=
    match vfind_label l code with
    | Some pc => VNext [] pc st
    | None => VHalt [] (VBadLabel l)
    end.

  Definition set_reg_of (st : mstate) (n : N) (x : rval) (f7 : bool) : mstate :=
    MState (reg_set n (x, f7) (m_regs st)) (m_store st) (m_args st).
  Definition set_name_of (st : mstate) (x : string) (v : V) : mstate :=
    MState (m_regs st) (ainsert x v (m_store st)) (m_args st).

  Definition stuck_at (w : stuck) : vaction := VHalt [] (VStuck w).

  Definition vinstr_step (code : list instr) (i : instr) (pc : nat) (st : mstate) : vaction :=
    match i with
    | IFnArg v _ _ =>
        match m_args st with
        | a :: rest =>
            VNext [] (S pc) (MState (m_regs st) (ainsert (v_inner v) a (m_store st)) rest)
        | [] => stuck_at NoArgument
        end
    | IExprValue v r =>
        match read_name (m_store st) (v_inner v) with
        | Rd x => VNext [] (S pc) (set_reg_of st r (RV x) false)
        | Unreadable w => stuck_at w
        end
    | IExprConst c r => VNext [] (S pc) (set_reg_of st r (RV (i_const I (c_name c))) false)
    | IExprStruct v idx r =>
        match read_name (m_store st) (v_inner v) with
        | Rd x =>
            match field_name_of (v_ty v) idx with
            | Some a => VNext [] (S pc) (set_reg_of st r (RV (i_field I x a)) true)
            | None => stuck_at (NoField (v_inner v) idx)
            end
        | Unreadable w => stuck_at w
        end
    | IExt tag r => VNext [] (S pc) (set_reg_of st r (RV (i_ext I tag)) false)
    | IExprOp o l r reg =>
        match operand (m_regs st) l with
        | Rd a =>
            match operand (m_regs st) r with
            | Rd b => VNext [] (S pc) (set_reg_of st reg (RV (i_op I o a b)) false)
            | Unreadable w => stuck_at w
            end
        | Unreadable w => stuck_at w
        end
    | ICall f args r =>
        match operands (m_regs st) args with
        | Rd vs =>
            VNext [VCall (f_name f) vs] (S pc)
                  (set_reg_of st r (RV (i_call I (f_name f) vs)) true)
        | Unreadable w => stuck_at w
        end
    | ILet v e =>
        match operand (m_regs st) e with
        | Rd x => VNext [VLet x] (S pc) (set_name_of st (v_inner v) x)
        | Unreadable w => stuck_at w
        end
    | IBind v e =>
        match operand (m_regs st) e with
        | Rd x => VNext [VAssign x] (S pc) (set_name_of st (v_inner v) x)
        | Unreadable w => stuck_at w
        end
    | IFnRet e | IFnRetLabel e | IJumpFnRet e =>
        match operand (m_regs st) e with
        | Rd x => VHalt [VRet x] VReturned
        | Unreadable w => stuck_at w
        end
    | ISetLabel _ => VNext [] (S pc) st
    | IJumpTo l => vgoto code l st
    | IIfCondExpr e lt lf =>
        match operand (m_regs st) e with
        | Rd x => vgoto code (if i_truth I x then lt else lf) st
        | Unreadable w => stuck_at w
        end
    | ICondExpr l r c reg =>
        match operand (m_regs st) l with
        | Rd a =>
            match operand (m_regs st) r with
            | Rd b => VNext [] (S pc) (set_reg_of st reg (RB (i_cmp I c a b)) false)
            | Unreadable w => stuck_at w
            end
        | Unreadable w => stuck_at w
        end
    | ILogic o lreg rreg reg =>
        match bool_reg (m_regs st) lreg with
        | Rd a =>
            match bool_reg (m_regs st) rreg with
            | Rd b => VNext [] (S pc) (set_reg_of st reg (RB (combine_logic o a b)) false)
            | Unreadable w => stuck_at w
            end
        | Unreadable w => stuck_at w
        end
    | IIfCondLogic lt lf reg =>
        match bool_reg (m_regs st) reg with
        | Rd b => vgoto code (if b then lt else lf) st
        | Unreadable w => stuck_at w
        end
    end.

  Definition vflat_step (code : list instr) (pc : nat) (st : mstate) : vaction :=
    match nth_error code pc with
    | None => VHalt [] VFellOff
    | Some i => vinstr_step code i pc st
    end.

  Definition vprepend_trace (ev : list vevent) (t : vtrace) : vtrace := (ev ++ fst t, snd t).

  (** Every executed instruction costs one unit of fuel. *)
  Fixpoint vflat_run (code : list instr) (fuel : nat) (pc : nat) (st : mstate) : vtrace :=
    match fuel with
    | O => ([], VOutOfFuel)
    | S fuel' =>
        match vflat_step code pc st with
        | VHalt ev s => (ev, s)
        | VNext ev pc' st' => vprepend_trace ev (vflat_run code fuel' pc' st')
        end
    end.

  (** [args]: the argument values, bound to the [FunctionArg] instructions in order. *)
  Definition vflat_exec (code : list instr) (args : list V) (fuel : nat) : vtrace :=
    vflat_run code fuel O (MState [] [] args).

  (** ** The source semantics *)

  (** The environment: one frame per open block, innermost first; in a frame the newest
      declaration first.  The parameters and the declarations of the function body are the
      outermost frame. *)
  Definition venv := list (list (string * V)).

  Fixpoint env_find (x : string) (env : venv) : option V :=
    match env with
    | [] => None
    | fr :: env' => match alookup x fr with
                    | Some v => Some v
                    | None => env_find x env'
                    end
    end.

  (** a name that is not in scope is a global constant *)
  Definition read_var (env : venv) (x : string) : V :=
    match env_find x env with Some v => v | None => i_const I x end.

  (** replace the newest binding of [x] in a frame *)
  Fixpoint frame_set (x : string) (v : V) (fr : list (string * V)) : list (string * V) :=
    match fr with
    | [] => []
    | (y, w) :: fr' => if String.eqb x y then (y, v) :: fr' else (y, w) :: frame_set x v fr'
    end.

  (** assign to the visible declaration of [x]; [None]: not in scope *)
  Fixpoint env_assign (x : string) (v : V) (env : venv) : option venv :=
    match env with
    | [] => None
    | fr :: env' =>
        match alookup x fr with
        | Some _ => Some (frame_set x v fr :: env')
        | None => match env_assign x v env' with
                  | Some env'' => Some (fr :: env'')
                  | None => None
                  end
        end
    end.

  Definition env_declare (x : string) (v : V) (env : venv) : venv :=
    match env with
    | fr :: env' => ((x, v) :: fr) :: env'
    | [] => [[(x, v)]]
    end.

  (** *** Expressions *)

  (** what an evaluation yields: the events so far, and a result or the reason of the stop *)
  Definition evr (A : Type) := (list vevent * outcome A)%type.

  Definition ebind {A B : Type} (r : evr A) (k : A -> evr B) : evr B :=
    match r with
    | (ev, Got a) => let '(ev', o) := k a in (ev ++ ev', o)
    | (ev, Stopped s) => (ev, Stopped s)
    end.

  Section Expr.
    Variable env : venv.

    Section WithE.
      (** the recursive evaluation of sub-expressions, one level of fuel below *)
      Variable E : expr -> evr V.

      Fixpoint eval_args (args : list expr) : evr (list V) :=
        match args with
        | [] => ([], Got [])
        | a :: args' =>
            ebind (E a) (fun v => ebind (eval_args args') (fun vs => ([], Got (v :: vs))))
        end.

      (** a leaf of an operator chain; the arguments of a call before the call *)
      Definition eval_val (v : expr_val) : evr V :=
        match v with
        | EVName x => ([], Got (read_var env (iname x)))
        | EVPrim p => ([], Got (i_lit I p))
        | EVCall f args =>
            ebind (eval_args args)
                  (fun vs => ([VCall (iname f) vs], Got (i_call I (iname f) vs)))
        | EVField x a =>
            match env_find (iname x) env with
            | Some v => ([], Got (i_field I v (iname a)))
            | None => ([], Stopped (VStuck (UnwrittenName (iname x))))
            end
        | EVSub e => E e
        | EVExt _ tag => ([], Got (i_ext I tag))
        end.

      (** a bracketed chain: left operand, then right operand, then the operator *)
      Fixpoint eval_tree (t : tree) : evr V :=
        match t with
        | Leaf v => eval_val v
        | Node l o r =>
            ebind (eval_tree l) (fun a =>
            ebind (eval_tree r) (fun b => ([], Got (i_op I o a b))))
        end.

      (** operator chains group by priority: [Spec/Bracket.bracket] *)
      Definition eval_expr_body (e : expr) : evr V :=
        match e with Expr v rest => eval_tree (bracket v rest) end.
    End WithE.

    (** the fuel bounds the nesting of sub-expressions *)
    Fixpoint eval_expr (n : nat) (e : expr) : evr V :=
      match n with
      | O => ([], Stopped VOutOfFuel)
      | S n' => eval_expr_body (eval_expr n') e
      end.

    Definition eval_exprs (n : nat) (args : list expr) : evr (list V) :=
      eval_args (eval_expr n) args.

    (** conditions: [And] / [Or] in source nesting, WITHOUT short-circuit (the emitted code
        evaluates every comparison) *)
    Fixpoint eval_lcond (n : nat) (c : lcond) : evr bool :=
      match c with
      | LC l cmp r next =>
          ebind (eval_expr n l) (fun a =>
          ebind (eval_expr n r) (fun b =>
            let here := i_cmp I cmp a b in
            match next with
            | None => ([], Got here)
            | Some (o, c') =>
                ebind (eval_lcond n c') (fun rest => ([], Got (combine_logic o here rest)))
            end))
      end.

    Definition eval_cond (n : nat) (c : cond) : evr bool :=
      match c with
      | CSingle e => ebind (eval_expr n e) (fun v => ([], Got (i_truth I v)))
      | CLogic l => eval_lcond n l
      end.
  End Expr.

  (** *** Statements *)

  (** events emitted, completion, environment after *)
  Definition vsres := (list vevent * vcompletion * venv)%type.

  Definition vprepend (ev : list vevent) (r : vsres) : vsres :=
    let '(ev', c, env) := r in (ev ++ ev', c, env).

  Definition vseq (r : vsres) (k : venv -> vsres) : vsres :=
    match r with
    | (ev, VNormal, env) => vprepend ev (k env)
    | _ => r
    end.

  (** a simple statement: evaluate, then go on with the value *)
  Definition after {A : Type} (r : evr A) (env : venv) (k : A -> vsres) : vsres :=
    match r with
    | (ev, Got a) => vprepend ev (k a)
    | (ev, Stopped s) => (ev, VStop s, env)
    end.

  Definition vifbody_stmts (b : ifbody) : list stmt :=
    match b with IBIf ss | IBLoop ss => ss end.

  (** the declarations of a block end with the block, however it completes *)
  Definition close_block (r : vsres) : vsres :=
    let '(ev, c, env) := r in (ev, c, tl env).

  Section Structured.
    (** [quirk]: exactly as in [Spec/Exec.v] (finding F5). *)
    Variable quirk : bool.

    Definition vif_exit (in_if : bool) (r : vsres) : vsres :=
      let '(ev, c, env) := r in
      (ev,
       match c with
       | VNormal => if quirk && in_if then VJumpOuterEnd else VNormal
       | VJumpOuterEnd => if in_if then VJumpOuterEnd else VNormal
       | _ => c
       end, env).

    Definition vloop_exit (r : vsres) (again : venv -> vsres) : vsres :=
      match r with
      | (ev, VNormal, env) | (ev, VCont, env) => vprepend ev (again env)
      | (ev, VBrk, env) => (ev, VNormal, env)
      | _ => r
      end.

    Definition vout_of_fuel (env : venv) : vsres := ([], VStop VOutOfFuel, env).

    (** The fuel bounds the depth of the evaluation, as in [Spec/Exec.exec_stmt]; an expression
        is evaluated with the fuel of its statement. *)
    Fixpoint vexec_stmt (n : nat) (in_if : bool) (s : stmt) (env : venv) {struct n} : vsres :=
      match n with
      | O => vout_of_fuel env
      | S n' =>
          match s with
          | SLet x _ _ e =>
              after (eval_expr env n' e) env
                    (fun v => ([VLet v], VNormal, env_declare (iname x) v env))
          | SBind x e =>
              after (eval_expr env n' e) env
                    (fun v => match env_assign (iname x) v env with
                              | Some env' => ([VAssign v], VNormal, env')
                              | None => ([], VStop (VStuck (UnwrittenName (iname x))), env)
                              end)
          | SCall f args =>
              after (eval_exprs env n' args) env
                    (fun vs => ([VCall (iname f) vs], VNormal, env))
          | SIf i => vif_exit in_if (vexec_if n' i env)
          | SLoop body => vexec_loop n' body env
          | SRet e | SExprStmt e =>
              after (eval_expr env n' e) env (fun v => ([VRet v], VStop VReturned, env))
          | SBreak => ([], VBrk, env)
          | SContinue => ([], VCont, env)
          end
      end
    with vexec_stmts (n : nat) (in_if : bool) (ss : list stmt) (env : venv) {struct n} : vsres :=
      match ss with
      | [] => ([], VNormal, env)
      | s :: ss' =>
          match n with
          | O => vout_of_fuel env
          | S n' => vseq (vexec_stmt n' in_if s env) (vexec_stmts n' in_if ss')
          end
      end
    with vexec_if (n : nat) (i : ifstmt) (env : venv) {struct n} : vsres :=
      match n with
      | O => vout_of_fuel env
      | S n' =>
          match i with
          | IfS c body els elif =>
              after (eval_cond env n' c) env
                (fun b =>
                   if b then close_block (vexec_stmts n' true (vifbody_stmts body) ([] :: env))
                   else match els with
                        | Some eb =>
                            close_block (vexec_stmts n' true (vifbody_stmts eb) ([] :: env))
                        | None =>
                            match elif with
                            | Some ei => vexec_if n' ei env
                            | None => ([], VNormal, env)
                            end
                        end)
          end
      end
    with vexec_loop (n : nat) (body : list stmt) (env : venv) {struct n} : vsres :=
      match n with
      | O => vout_of_fuel env
      | S n' =>
          vloop_exit (close_block (vexec_stmts n' false body ([] :: env))) (vexec_loop n' body)
      end.

    (** A function body that completes without [return] falls off its end. *)
    Definition vfinish (r : vsres) : vtrace :=
      match r with
      | (ev, VStop s, _) => (ev, s)
      | (ev, _, _) => (ev, VFellOff)
      end.
  End Structured.

  (** the parameters, bound to the arguments in order: one frame, the last parameter first *)
  Definition param_frame (ps : list (ident * ast_ty)) (args : list V) : list (string * V) :=
    rev (combine (map (fun p => iname (fst p)) ps) args).

  Definition vstruct_exec (quirk : bool) (f : fn_decl) (args : list V) (fuel : nat) : vtrace :=
    if Nat.eqb (length args) (length (fn_params f)) then
      vfinish (vexec_stmts quirk fuel false (fn_body f) [param_frame (fn_params f) args])
    else ([], VStuck NoArgument).

  (** ** The bounded comparison: as [Spec/Exec.agree] (equal event lists when both runs
      returned; otherwise - a fuel ran out - one a prefix of the other), and the statuses with
      which a run ends well: it is not stuck, did not fall off its end, did not look up a label
      that is not set (the counterpart of [Spec/Exec.flat_ok]). *)
  Definition vagree (t1 t2 : vtrace) : bool :=
    match snd t1, snd t2 with
    | VReturned, VReturned => vevents_eqb (fst t1) (fst t2)
    | _, _ => vprefixb (fst t1) (fst t2) || vprefixb (fst t2) (fst t1)
    end.
End Value.

Arguments VLet {V} v.
Arguments VAssign {V} v.
Arguments VCall {V} f args.
Arguments VRet {V} v.
Arguments RV {V} v.
Arguments RB {V} b.
Arguments MState {V} _ _ _.
Arguments m_regs {V} _.
Arguments m_store {V} _.
Arguments m_args {V} _.
Arguments VNext {V} ev pc st.
Arguments VHalt {V} ev s.

(** ** The free interpretation: values are terms, every operation is its constructor; comparisons
    and truth are decided by a hash of the terms and a salt, so that traces that agree for
    several salts agree structurally (and several paths are explored). *)
Inductive term :=
| TLit (p : prim_val)
| TOp (o : binop) (l r : term)
| TField (t : term) (a : string)
| TExt (tag : N)
| TCst (x : string)
| TCall (f : string) (args : list term)
| TArg (k : N).

Definition prim_val_eqb (a b : prim_val) : bool :=
  prim_ty_eqb (pv_ty a) (pv_ty b) && Z.eqb (pv_bits a) (pv_bits b).

Fixpoint term_eqb (a b : term) : bool :=
  match a, b with
  | TLit p, TLit q => prim_val_eqb p q
  | TOp o l r, TOp o' l' r' =>
      String.eqb (binop_name o) (binop_name o') && term_eqb l l' && term_eqb r r'
  | TField t x, TField t' x' => term_eqb t t' && String.eqb x x'
  | TExt n, TExt m => N.eqb n m
  | TCst x, TCst y => String.eqb x y
  | TCall f xs, TCall g ys =>
      String.eqb f g &&
      (fix go (xs ys : list term) : bool :=
         match xs, ys with
         | [], [] => true
         | x :: xs', y :: ys' => term_eqb x y && go xs' ys'
         | _, _ => false
         end) xs ys
  | TArg k, TArg j => N.eqb k j
  | _, _ => false
  end.

Definition hash_mod : N := 1000003.

Fixpoint hash_string (s : string) : N :=
  match s with
  | EmptyString => 7
  | String c r => (N_of_ascii c + 31 * hash_string r) mod hash_mod
  end.

Fixpoint hash_term (t : term) : N :=
  match t with
  | TLit p => (3 + 5 * Z.abs_N (pv_bits p) + 11 * hash_string (prim_ty_name (pv_ty p))) mod hash_mod
  | TOp o l r =>
      (13 + 17 * hash_string (binop_name o) + 19 * hash_term l + 23 * hash_term r) mod hash_mod
  | TField t a => (29 + 31 * hash_term t + 37 * hash_string a) mod hash_mod
  | TExt n => (41 + 43 * n) mod hash_mod
  | TCst x => (47 + 53 * hash_string x) mod hash_mod
  | TCall f args =>
      (59 + 61 * hash_string f +
       (fix go (l : list term) : N :=
          match l with [] => 67 | a :: l' => (71 * hash_term a + 73 * go l') mod hash_mod end)
         args) mod hash_mod
  | TArg k => (79 + 83 * k) mod hash_mod
  end.

(** one bit out of a number and the salt *)
Definition decide (salt x : N) : bool :=
  N.odd (((x + 1) * (2 * salt + 1) + salt * salt) mod 65537 / 4).

Definition free_interp (salt : N) : interp term :=
  Interp term
    TLit TOp
    (fun c a b => decide salt (89 * hash_string (cmpop_name c) + 97 * hash_term a + 101 * hash_term b))
    (fun a => decide salt (103 + 107 * hash_term a))
    TField TExt TCst TCall term_eqb.

(** the arguments of the free interpretation: [TArg 0; TArg 1; ...] *)
Definition free_args (n : nat) : list term := map (fun k => TArg (N.of_nat k)) (seq 0 n).
