(** Shared vocabulary about instruction stacks: which register an instruction defines, which
    registers it reads, which labels it sets and mentions. *)
From SA Require Import Model.
Local Open Scope list_scope.

(** The register an instruction defines, if any. *)
Definition def_reg (i : instr) : option N :=
  match i with
  | IExprValue _ r | IExprConst _ r | IExprStruct _ _ r | IExprOp _ _ _ r | ICall _ _ r
  | ICondExpr _ _ _ r | ILogic _ _ _ r | IExt _ r => Some r
  | _ => None
  end.

Definition defs (c : list instr) : list N :=
  flat_map (fun i => match def_reg i with Some r => [r] | None => [] end) c.

Definition eres_reg (e : eres) : list N :=
  match r_val e with RReg n => [n] | RPrim _ => [] end.

(** The registers an instruction reads: operands, logic-condition inputs, conditional subject. *)
Definition use_regs (i : instr) : list N :=
  match i with
  | IExprOp _ l r _ => eres_reg l ++ eres_reg r
  | ICall _ args _ => flat_map eres_reg args
  | ILet _ e | IBind _ e | IFnRet e | IFnRetLabel e | IJumpFnRet e => eres_reg e
  | IIfCondExpr e _ _ => eres_reg e
  | ICondExpr l r _ _ => eres_reg l ++ eres_reg r
  | ILogic _ l r _ => [l; r]
  | IIfCondLogic _ _ r => [r]
  | _ => []
  end.

Definition set_label_of (i : instr) : list string :=
  match i with ISetLabel l => [l] | _ => [] end.
Definition set_labels (c : list instr) : list string := flat_map set_label_of c.

(** Labels an instruction names as a jump target. *)
Definition target_labels (i : instr) : list string :=
  match i with
  | IJumpTo l => [l]
  | IIfCondExpr _ a b => [a; b]
  | IIfCondLogic a b _ => [a; b]
  | _ => []
  end.

Lemma defs_app c1 c2 : defs (c1 ++ c2) = defs c1 ++ defs c2.
Proof. unfold defs. apply flat_map_app. Qed.

Lemma defs_snoc_none c i : def_reg i = None -> defs (c ++ [i]) = defs c.
Proof. intro H. rewrite defs_app. cbn. rewrite H. cbn. apply app_nil_r. Qed.

Lemma defs_snoc_some c i r : def_reg i = Some r -> defs (c ++ [i]) = defs c ++ [r].
Proof. intro H. rewrite defs_app. cbn. rewrite H. reflexivity. Qed.

Lemma set_labels_app c1 c2 : set_labels (c1 ++ c2) = set_labels c1 ++ set_labels c2.
Proof. unfold set_labels. apply flat_map_app. Qed.
