(** Bracketing of operator chains: the specification side of C07.

    A [tree] is a fully bracketed expression over opaque operands; [inorder] is the flat chain
    it denotes.  [well_bracketed] says that an operator of higher priority binds tighter and
    that operators of equal priority associate to the left.  A chain has at most one
    well-bracketed tree ([well_bracketed_unique]) and at least one: [bracket] computes it
    ([bracket_wb], [bracket_inorder]).

    Nothing here depends on the concrete numbers of the priority table [prio]. *)
From Coq Require Import Lia.
From SA Require Import Model.
Local Open Scope list_scope.

Inductive tree :=
| Leaf (v : expr_val)
| Node (l : tree) (o : binop) (r : tree).

(** ** The chain a tree denotes: head operand and (operator, operand) links *)
Fixpoint thead (t : tree) : expr_val :=
  match t with
  | Leaf v => v
  | Node l _ _ => thead l
  end.

Fixpoint tlinks (t : tree) : links :=
  match t with
  | Leaf _ => []
  | Node l o r => tlinks l ++ (o, thead r) :: tlinks r
  end.

Definition inorder (t : tree) : expr_val * links := (thead t, tlinks t).

Definition root_op (t : tree) : option binop :=
  match t with
  | Leaf _ => None
  | Node _ o _ => Some o
  end.

(** ** Well-bracketed trees
    left operand: root operator of priority >= (equal priorities associate to the left);
    right operand: root operator of priority > (a tighter operator only). *)
Fixpoint well_bracketed (t : tree) : Prop :=
  match t with
  | Leaf _ => True
  | Node l o r =>
      well_bracketed l /\ well_bracketed r /\
      (forall q, root_op l = Some q -> prio o <= prio q) /\
      (forall q, root_op r = Some q -> prio o < prio q)
  end.

(** ** Every operator of a tree satisfies a predicate on priorities *)
Fixpoint all_ops (P : N -> Prop) (t : tree) : Prop :=
  match t with
  | Leaf _ => True
  | Node l o r => all_ops P l /\ P (prio o) /\ all_ops P r
  end.

Lemma all_ops_impl (P Q : N -> Prop) t :
  (forall n, P n -> Q n) -> all_ops P t -> all_ops Q t.
Proof.
  intros HPQ. induction t as [x|l IHl o r IHr]; cbn [all_ops]; [trivial|].
  intros (Hl & Ho & Hr). split; [auto|]. split; auto.
Qed.

Lemma all_ops_root (P : N -> Prop) t :
  all_ops P t -> forall q, root_op t = Some q -> P (prio q).
Proof.
  destruct t as [x|l o r]; cbn [all_ops root_op]; [discriminate|].
  intros (_ & Ho & _) q E. injection E as E. subst q. exact Ho.
Qed.

Lemma wb_all_ge t :
  well_bracketed t -> forall m, (forall q, root_op t = Some q -> m <= prio q) ->
  all_ops (fun n => m <= n) t.
Proof.
  induction t as [x|l IHl o r IHr]; cbn [well_bracketed all_ops]; [trivial|].
  intros (Hl & Hr & Hlo & Hro) m Hm.
  assert (Hmo : m <= prio o) by (apply Hm; reflexivity).
  split; [|split; [exact Hmo|]].
  - apply IHl; [exact Hl|]. intros q Hq. specialize (Hlo q Hq). lia.
  - apply IHr; [exact Hr|]. intros q Hq. specialize (Hro q Hq). lia.
Qed.

Lemma wb_node_left l o r :
  well_bracketed (Node l o r) -> all_ops (fun n => prio o <= n) l.
Proof.
  cbn [well_bracketed]. intros (Hl & _ & Hlo & _). apply wb_all_ge; [exact Hl|exact Hlo].
Qed.

Lemma wb_node_right l o r :
  well_bracketed (Node l o r) -> all_ops (fun n => prio o < n) r.
Proof.
  cbn [well_bracketed]. intros (_ & Hr & _ & Hro).
  apply (all_ops_impl (fun n => prio o + 1 <= n)); [intros n Hn; lia|].
  apply wb_all_ge; [exact Hr|]. intros q Hq. specialize (Hro q Hq). lia.
Qed.

(** the same predicate on the operators of a list of links *)
Definition ops_in (P : N -> Prop) (ls : links) : Prop :=
  forall o v, In (o, v) ls -> P (prio o).

Lemma all_ops_links P t : all_ops P t -> ops_in P (tlinks t).
Proof.
  induction t as [x|l IHl o r IHr]; cbn [all_ops tlinks]; intros H o' v' Hin.
  - destruct Hin.
  - destruct H as (Hl & Ho & Hr). apply in_app_or in Hin as [Hin|[Hin|Hin]].
    + apply (IHl Hl o' v' Hin).
    + injection Hin as Eo _. subst o'. exact Ho.
    + apply (IHr Hr o' v' Hin).
Qed.

(** ** Uniqueness: a chain has at most one well-bracketed tree *)
Theorem well_bracketed_unique :
  forall t1 t2, well_bracketed t1 -> well_bracketed t2 -> inorder t1 = inorder t2 -> t1 = t2.
Proof.
  unfold inorder.
  induction t1 as [x|l1 IHl o1 r1 IHr]; intros t2 H1 H2 E;
    destruct t2 as [y|l2 o2 r2]; cbn [thead tlinks] in E.
  - injection E as Eh. subst y. reflexivity.
  - exfalso. injection E as _ El. destruct (tlinks l2); discriminate.
  - exfalso. injection E as _ El. destruct (tlinks l1); discriminate.
  - injection E as Eh El.
    pose proof (all_ops_links _ _ (wb_node_left _ _ _ H1)) as L1.
    pose proof (all_ops_links _ _ (wb_node_right _ _ _ H1)) as R1.
    pose proof (all_ops_links _ _ (wb_node_left _ _ _ H2)) as L2.
    pose proof (all_ops_links _ _ (wb_node_right _ _ _ H2)) as R2.
    cbn [well_bracketed] in H1, H2.
    destruct H1 as (Hl1 & Hr1 & _ & _). destruct H2 as (Hl2 & Hr2 & _ & _).
    apply app_eq_app in El as [m [[Ea Eb]|[Ea Eb]]].
    + (* tlinks l1 = tlinks l2 ++ m *)
      destruct m as [|[mo mv] m'].
      * rewrite app_nil_r in Ea. cbn [app] in Eb. injection Eb as Eo Ev Er. subst o2.
        rewrite (IHl l2 Hl1 Hl2) by (rewrite Eh, Ea; reflexivity).
        rewrite (IHr r2 Hr1 Hr2) by (rewrite Ev, Er; reflexivity).
        reflexivity.
      * exfalso. cbn [app] in Eb. injection Eb as Eo Ev Er. subst mo mv.
        assert (In1 : In (o2, thead r2) (tlinks l1)).
        { rewrite Ea. apply in_or_app. right. left. reflexivity. }
        assert (In2 : In (o1, thead r1) (tlinks r2)).
        { rewrite Er. apply in_or_app. right. left. reflexivity. }
        specialize (L1 _ _ In1). specialize (R2 _ _ In2). cbn beta in L1, R2. lia.
    + (* tlinks l2 = tlinks l1 ++ m *)
      destruct m as [|[mo mv] m'].
      * rewrite app_nil_r in Ea. cbn [app] in Eb. injection Eb as Eo Ev Er. subst o2.
        rewrite (IHl l2 Hl1 Hl2) by (rewrite Eh, Ea; reflexivity).
        rewrite (IHr r2 Hr1 Hr2) by (rewrite Ev, Er; reflexivity).
        reflexivity.
      * exfalso. cbn [app] in Eb. injection Eb as Eo Ev Er. subst mo mv.
        assert (In1 : In (o1, thead r1) (tlinks l2)).
        { rewrite Ea. apply in_or_app. right. left. reflexivity. }
        assert (In2 : In (o2, thead r2) (tlinks r1)).
        { rewrite Er. apply in_or_app. right. left. reflexivity. }
        specialize (L2 _ _ In1). specialize (R1 _ _ In2). cbn beta in L2, R1. lia.
Qed.

(** ** Existence: an executable reference algorithm

    Operator-precedence insertion: the tree of [v0 op1 v1 ... opn vn] is obtained from the
    tree of [v0 op1 ... vn-1] by walking down its right spine while the operators bind
    strictly looser than [opn], and making the subtree found there the left operand of
    [opn].  Structural recursion, no fuel; a different algorithm from the level passes of
    [Model.fetch]. *)
Fixpoint insert (t : tree) (o : binop) (v : expr_val) : tree :=
  match t with
  | Leaf _ => Node t o (Leaf v)
  | Node l o' r =>
      if prio o' <? prio o then Node l o' (insert r o v) else Node t o (Leaf v)
  end.

Definition bracket (v : expr_val) (rest : links) : tree :=
  fold_left (fun t ov => insert t (fst ov) (snd ov)) rest (Leaf v).

Lemma insert_head t o v : thead (insert t o v) = thead t.
Proof.
  destruct t as [x|l o' r]; cbn [insert thead]; [reflexivity|].
  destruct (prio o' <? prio o); reflexivity.
Qed.

Lemma insert_links t o v : tlinks (insert t o v) = tlinks t ++ [(o, v)].
Proof.
  induction t as [x|l IHl o' r IHr]; cbn [insert]; [reflexivity|].
  destruct (prio o' <? prio o).
  - cbn [tlinks]. rewrite IHr, insert_head, <- app_assoc. reflexivity.
  - reflexivity.
Qed.

Lemma insert_root t o v q :
  root_op (insert t o v) = Some q -> q = o \/ root_op t = Some q.
Proof.
  destruct t as [x|l o' r]; cbn [insert].
  - cbn [root_op]. intros E. injection E as E. left. symmetry. exact E.
  - destruct (prio o' <? prio o); cbn [root_op]; intros E.
    + right. exact E.
    + injection E as E. left. symmetry. exact E.
Qed.

Lemma insert_wb t o v : well_bracketed t -> well_bracketed (insert t o v).
Proof.
  induction t as [x|l IHl o' r IHr]; intros Hw; cbn [insert].
  - cbn [well_bracketed root_op]. repeat split; discriminate.
  - destruct (N.ltb_spec (prio o') (prio o)) as [Hlt|Hge].
    + cbn [well_bracketed] in Hw |- *. destruct Hw as (Hl & Hr & Hlo & Hro).
      split; [exact Hl|]. split; [exact (IHr Hr)|]. split; [exact Hlo|].
      intros q Hq. apply insert_root in Hq as [Hq|Hq]; [subst q; exact Hlt|exact (Hro q Hq)].
    + cbn [well_bracketed root_op]. split; [exact Hw|]. split; [exact I|].
      split; [|discriminate]. intros q E. injection E as E. subst q. exact Hge.
Qed.

Lemma bracket_fold_spec : forall rest t,
  well_bracketed t ->
  let t' := fold_left (fun t ov => insert t (fst ov) (snd ov)) rest t in
  well_bracketed t' /\ thead t' = thead t /\ tlinks t' = tlinks t ++ rest.
Proof.
  induction rest as [|[o v] rest IH]; intros t Hw; cbn [fold_left fst snd].
  - cbn zeta. rewrite app_nil_r. auto.
  - destruct (IH (insert t o v) (insert_wb t o v Hw)) as (Hw' & Hh & Hl).
    cbn zeta. split; [exact Hw'|]. split.
    + rewrite Hh. apply insert_head.
    + rewrite Hl, insert_links, <- app_assoc. reflexivity.
Qed.

Theorem bracket_wb : forall v rest, well_bracketed (bracket v rest).
Proof.
  intros v rest. unfold bracket.
  apply (bracket_fold_spec rest (Leaf v) I).
Qed.

Theorem bracket_inorder : forall v rest, inorder (bracket v rest) = (v, rest).
Proof.
  intros v rest. unfold bracket, inorder.
  destruct (bracket_fold_spec rest (Leaf v) I) as (_ & Hh & Hl).
  cbn zeta in Hh, Hl. rewrite Hh, Hl. reflexivity.
Qed.

Print Assumptions well_bracketed_unique.
Print Assumptions bracket_wb.
Print Assumptions bracket_inorder.
