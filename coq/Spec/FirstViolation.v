(** * The static rule set of the analyzer as a plain type / scope checker (DESIGN.md §3.1, §3.2)

    [first_violation enforced p] is the FIRST rule violation of [p] in the analyzer's analysis
    order, or [None] when [p] obeys every rule.

    - [enforced = false]: the INTENDED rule set R1..R22 of DESIGN.md §3.1;
    - [enforced = true] : the rule set the analyzer actually enforces.  It differs in exactly
      two documented places (search for "F2" and "F8" below):
        F2  a call with FEWER arguments than declared parameters is not a violation;
        F8  in a constant's value expression only the constants after the head and before the
            first literal are checked for existence.

    The checker knows the three global tables and a stack of scopes — nothing else: no
    registers, labels, internal value names, instruction stacks or block trees.  It stops at
    the first violation, so it says nothing about how the analyzer goes on after an error.

    The only thing borrowed from the model is [Model.fold_priority], the pure bracketing
    function on the AST that property C07 specifies separately.  [Model] is required but not
    imported: nothing else of it is used.

    Recursion discipline (the same as the model's, so that a simulation proof can go by
    induction on the same fuel): expressions re-bracket and then recurse into the result, so
    [check_expr] takes fuel; [check_if]/[check_loop] take fuel; everything else is structural.
    Exhausted fuel and statement placements that the Rust AST types cannot express give the
    distinguished outcome [Stuck], never [Pass] and never a violation of a real kind. *)
From SA Require Import Sem.
From SA Require Model.
Local Open Scope list_scope.

(** ** Violations and outcomes *)

(** [vi_val = None]: the analyzer's text for this kind is a debug dump or a rendering that is
    left unspecified (DESIGN.md §3.2); otherwise the identifier (or type name) it carries. *)
Record viol := Viol { vi_kind : err_kind; vi_val : option string; vi_loc : loc }.

Inductive outcome (A : Type) :=
| Pass (a : A)        (* no violation so far *)
| Fail (v : viol)     (* the first violation *)
| Stuck.              (* out of fuel / ill-kinded statement placement: outside the claim *)
Arguments Pass {A} a.
Arguments Fail {A} v.
Arguments Stuck {A}.

Definition andthen {A B} (m : outcome A) (k : A -> outcome B) : outcome B :=
  match m with
  | Pass a => k a
  | Fail v => Fail v
  | Stuck => Stuck
  end.

Local Notation "x <- m ;; k" := (andthen m (fun x => k))
  (at level 61, m at next level, right associativity).
Local Notation "m ;;; k" := (andthen m (fun _ => k))
  (at level 61, right associativity).

(** A rule: the condition must hold, otherwise this is the violation. *)
Definition require (ok : bool) (k : err_kind) (v : option string) (l : loc) : outcome unit :=
  if ok then Pass tt else Fail (Viol k v l).

(** The two locations the code hard-wires. *)
Definition at_1_0 : loc := (1, 0).
Definition at_1_1 : loc := (1, 1).

(** ** The environment *)

(** Global tables: name -> what the rules need to know about it. *)
Record tables := Tables {
  tb_types  : list (string * sem_ty);                   (* first struct declaration of a name *)
  tb_consts : list (string * sem_ty);                   (* registered constants: their type *)
  tb_funcs  : list (string * (list sem_ty * sem_ty)) }. (* registered functions: params, result *)

(** A scope: name -> (type, mutable).  Scopes are stacked innermost first. *)
Definition scope := list (string * (sem_ty * bool)).
Definition scopes := list scope.

(** R7's search: innermost scope outward. *)
Fixpoint lookup_scopes (x : string) (G : scopes) : option (sem_ty * bool) :=
  match G with
  | [] => None
  | s :: G' => match alookup x s with
               | Some b => Some b
               | None => lookup_scopes x G'
               end
  end.

(** R15: a [let] declares (or re-declares: shadowing is legal) in the innermost scope. *)
Definition declare (x : string) (t : sem_ty) (mut : bool) (G : scopes) : scopes :=
  match G with
  | s :: G' => ainsert x (t, mut) s :: G'
  | [] => []
  end.

(** R6's notion of an existing type: primitive, or a name of the types table. *)
Definition type_known (T : tables) (t : sem_ty) : bool :=
  is_prim t || amem (type_name t) (tb_types T).

Definition is_some {A} (o : option A) : bool :=
  match o with Some _ => true | None => false end.

(** ** Expressions (R7 .. R12): [Pass t] = well typed with type [t] *)
Section Expressions.
  Variable enforced : bool.
  Variable T : tables.
  Variable G : scopes.

  Section OneLevel.
    (** the recursive call on a sub-expression (bracket or call argument) *)
    Variable E : expr -> outcome sem_ty.

    (** R10, arguments against parameters, left to right: an argument's own violations first,
        then its type against the parameter in the same position. *)
    Fixpoint check_args (callee : ident) (params : list sem_ty) (args : list expr)
      : outcome unit :=
      match args, params with
      | [], [] => Pass tt
      | [], _ :: _ =>
          (* fewer arguments than parameters.  F2: the analyzer does not look. *)
          if enforced then Pass tt
          else Fail (Viol EFunctionParameterTypeWrong None (iloc callee))
      | a :: args', [] =>
          (* a surplus argument *)
          t <- E a ;;
          Fail (Viol EFunctionParameterTypeWrong (Some (type_name t)) (iloc callee))
      | a :: args', pt :: params' =>
          t <- E a ;;
          require (sem_ty_eqb pt t)
                  EFunctionParameterTypeWrong (Some (type_name t)) (iloc callee) ;;;
          check_args callee params' args'
      end.

    (** R10: the callee first, then the arguments; the type is the declared result type. *)
    Definition check_call (f : ident) (args : list expr) : outcome sem_ty :=
      match alookup (iname f) (tb_funcs T) with
      | None => Fail (Viol EFunctionNotFound (Some (iname f)) (iloc f))
      | Some (params, result) => check_args f params args ;;; Pass result
      end.

    (** R7: a visible value, otherwise a constant. *)
    Definition check_name (x : ident) : outcome sem_ty :=
      match lookup_scopes (iname x) G with
      | Some (t, _) => Pass t
      | None =>
          match alookup (iname x) (tb_consts T) with
          | Some t => Pass t
          | None => Fail (Viol EValueNotFound (Some (iname x)) (iloc x))
          end
      end.

    (** R9: [x.a] — every violation carries the VALUE's name and location. *)
    Definition check_field (x a : ident) : outcome sem_ty :=
      let bad k := Fail (Viol k (Some (iname x)) (iloc x)) in
      match lookup_scopes (iname x) G with
      | None => bad EValueNotFound                       (* values only: not a constant *)
      | Some (t, _) =>
          match t with
          | SStruct _ attrs =>
              match alookup (type_name t) (tb_types T) with
              | None => bad ETypeNotFound
              | Some declared =>
                  if negb (sem_ty_eqb t declared) then bad EWrongExpressionType
                  else match attr_lookup (iname a) attrs with
                       | None => bad EValueNotStructField
                       | Some (_, ta) => Pass ta
                       end
              end
          | _ => bad EValueNotStruct
          end
      end.

    (** one operand of a chain *)
    Definition check_operand (v : expr_val) : outcome sem_ty :=
      match v with
      | EVName x => check_name x                          (* R7 *)
      | EVPrim p => Pass (SPrim (pv_ty p))                (* R8 *)
      | EVCall f args => check_call f args                (* R10 *)
      | EVField x a => check_field x a                    (* R9 *)
      | EVSub e => E e                                    (* R11: a bracket, on its own *)
      | EVExt t _ => Pass (sem_of_ty t)                   (* R12 *)
      end.

    (** R11 on a bracketed chain: every operand, left to right, must have the type of what
        stands to its left. *)
    Fixpoint check_links (left : sem_ty) (rest : list (binop * expr_val)) : outcome sem_ty :=
      match rest with
      | [] => Pass left
      | (_, v) :: rest' =>
          t <- check_operand v ;;
          require (sem_ty_eqb left t) EWrongExpressionType (Some (type_name left)) at_1_0 ;;;
          check_links t rest'
      end.

    (** R11: bracket the chain by priority (C07), then walk it. *)
    Definition check_expr_step (e : expr) : outcome sem_ty :=
      match Model.fold_priority e with
      | Expr v rest => t <- check_operand v ;; check_links t rest
      end.
  End OneLevel.

  Fixpoint check_expr (fuel : nat) (e : expr) : outcome sem_ty :=
    match fuel with
    | O => Stuck
    | S f => check_expr_step (check_expr f) e
    end.
End Expressions.

(** ** Conditions, statements and blocks (R13 .. R22) *)
Section Statements.
  Variable enforced : bool.
  Variable T : tables.
  Variable fuel : nat.       (* fuel of every expression of this function body *)
  Variable RT : sem_ty.      (* the declared result type of the function *)

  Definition ex (G : scopes) (e : expr) : outcome sem_ty := check_expr enforced T G fuel e.

  (** R14: left side, right side, equal types, primitive type; then the rest of the chain. *)
  Fixpoint check_lcond (G : scopes) (c : lcond) : outcome unit :=
    match c with
    | LC l _ r next =>
        tl <- ex G l ;;
        tr <- ex G r ;;
        require (sem_ty_eqb tl tr)
                EConditionExpressionWrongType (Some (type_name tl)) at_1_0 ;;;
        require (is_prim tl)
                EConditionExpressionNotSupported (Some (type_name tl)) at_1_0 ;;;
        match next with
        | Some (_, c') => check_lcond G c'
        | None => Pass tt
        end
    end.

  (** R13 / R14 *)
  Definition check_cond (G : scopes) (c : cond) : outcome unit :=
    match c with
    | CSingle e => ex G e ;;; Pass tt          (* R13: well typed, any type *)
    | CLogic l => check_lcond G l
    end.

  (** R15: the initialiser in the scope BEFORE the let, then the annotation; the name then
      denotes a new value of the initialiser's type. *)
  Definition check_let (G : scopes) (x : ident) (mut : bool) (ty : option ast_ty) (e : expr)
    : outcome scopes :=
    t <- ex G e ;;
    require (match ty with Some a => sem_ty_eqb t (sem_of_ty a) | None => true end)
            EWrongLetType (Some (iname x)) (iloc x) ;;;
    Pass (declare (iname x) t mut G).

  (** R16: the right-hand side first, then the target: visible value, mutable, same type. *)
  Definition check_assign (G : scopes) (x : ident) (e : expr) : outcome unit :=
    t <- ex G e ;;
    match lookup_scopes (iname x) G with
    | None => Fail (Viol EValueNotFound (Some (iname x)) (iloc x))
    | Some (tx, mut) =>
        require mut EValueIsNotMutable (Some (iname x)) (iloc x) ;;;
        require (sem_ty_eqb tx t) EWrongExpressionType (Some (iname x)) (iloc x)
    end.

  (** R17 *)
  Definition check_call_stmt (G : scopes) (f : ident) (args : list expr) : outcome unit :=
    check_call enforced T (ex G) f args ;;; Pass tt.

  (** R21: [ended = Some k] — the previous statement of this block was a return / break /
      continue, and [k] is the kind that any following statement raises. *)
  Definition no_code_after (ended : option err_kind) : outcome unit :=
    match ended with
    | Some k => Fail (Viol k None at_1_1)
    | None => Pass tt
    end.

  Section Control.
    (** the recursive calls on an [if] and on a loop body *)
    Variable IFC : scopes -> bool -> ifstmt -> outcome unit.
    Variable LOOP : scopes -> list stmt -> outcome unit.

    (** One statement of a nested block.  [loopy]: the block is a loop body or a
        loop-flavoured if body (break / continue allowed); [in_loop]: some loop encloses it.
        Result: the scopes for the next statement and R21's state. *)
    Definition check_nested_stmt (loopy in_loop : bool) (G : scopes) (st : stmt)
      : outcome (scopes * option err_kind) :=
      match st with
      | SLet x m t e => G' <- check_let G x m t e ;; Pass (G', None)
      | SBind x e => check_assign G x e ;;; Pass (G, None)
      | SCall f args => check_call_stmt G f args ;;; Pass (G, None)
      | SIf i => IFC G in_loop i ;;; Pass (G, None)                        (* R18 *)
      | SLoop body => LOOP G body ;;; Pass (G, None)                       (* R19 *)
      | SRet e =>                                                          (* R20 *)
          t <- ex G e ;;
          require (sem_ty_eqb RT t) EWrongReturnType None at_1_0 ;;;
          Pass (G, Some EForbiddenCodeAfterReturnDeprecated)
      | SBreak =>
          if loopy && in_loop then Pass (G, Some EForbiddenCodeAfterBreakDeprecated)
          else Stuck
      | SContinue =>
          if loopy && in_loop then Pass (G, Some EForbiddenCodeAfterContinueDeprecated)
          else Stuck
      | SExprStmt _ => Stuck                         (* function level only *)
      end.

    (** A block: R21 before every statement, then the statement. *)
    Fixpoint check_block (loopy in_loop : bool) (G : scopes) (ended : option err_kind)
             (ss : list stmt) : outcome unit :=
      match ss with
      | [] => Pass tt
      | st :: ss' =>
          no_code_after ended ;;;
          r <- check_nested_stmt loopy in_loop G st ;;
          check_block loopy in_loop (fst r) (snd r) ss'
      end.

    (** A then / else body, in the scopes it is given.  P1: a loop-flavoured body needs an
        enclosing loop. *)
    Definition check_ifbody (G : scopes) (in_loop : bool) (b : ifbody) : outcome unit :=
      match b with
      | IBIf ss => check_block false in_loop G None ss
      | IBLoop ss => if in_loop then check_block true in_loop G None ss else Stuck
      end.

    (** R18.  The condition is checked in the (fresh) scope of the then-block; the else-body
        has its own fresh scope; an else-if is a sibling: it starts from the scopes of the
        [if] itself. *)
    Definition check_if_step (G : scopes) (in_loop : bool) (i : ifstmt) : outcome unit :=
      match i with
      | IfS c body els elif =>
          require (negb (is_some els && is_some elif))
                  EIfElseDuplicated (Some "if-condition"%string) at_1_0 ;;;
          check_cond ([] :: G) c ;;;
          check_ifbody ([] :: G) in_loop body ;;;
          match els with
          | Some eb => check_ifbody ([] :: G) in_loop eb
          | None =>
              match elif with
              | Some ei => IFC G in_loop ei
              | None => Pass tt
              end
          end
      end.

    (** R19: a loop body is a block in a fresh scope. *)
    Definition check_loop_step (G : scopes) (body : list stmt) : outcome unit :=
      check_block true true ([] :: G) None body.
  End Control.

  Fixpoint check_if (n : nat) (G : scopes) (in_loop : bool) (i : ifstmt) : outcome unit :=
    match n with
    | O => Stuck
    | S n' => check_if_step (check_if n') (check_loop n') G in_loop i
    end
  with check_loop (n : nat) (G : scopes) (body : list stmt) : outcome unit :=
    match n with
    | O => Stuck
    | S n' => check_loop_step (check_if n') (check_loop n') G body
    end.

  (** R22: one statement at function level.  [returned]: a function-level return was seen.
      A [return e] and an expression statement are the same thing here. *)
  Definition check_fn_stmt (G : scopes) (returned : bool) (st : stmt)
    : outcome (scopes * bool) :=
    match st with
    | SLet x m t e => G' <- check_let G x m t e ;; Pass (G', returned)
    | SBind x e => check_assign G x e ;;; Pass (G, returned)
    | SCall f args => check_call_stmt G f args ;;; Pass (G, returned)
    | SIf i => check_if fuel G false i ;;; Pass (G, returned)
    | SLoop body => check_loop fuel G body ;;; Pass (G, returned)
    | SExprStmt e | SRet e =>
        t <- ex G e ;;
        (* never first: R21's check in [check_fn_stmts] precedes it *)
        require (negb returned) EReturnAlreadyCalled None at_1_0 ;;;
        require (type_known T t) ETypeNotFound None at_1_0 ;;;
        require (sem_ty_eqb RT t) EWrongReturnType None at_1_0 ;;;
        Pass (G, true)
    | SBreak | SContinue => Stuck                    (* loop-flavoured blocks only *)
    end.

  (** R22: nothing follows the function-level return. *)
  Fixpoint check_fn_stmts (G : scopes) (returned : bool) (ss : list stmt) : outcome bool :=
    match ss with
    | [] => Pass returned
    | st :: ss' =>
        require (negb returned) EForbiddenCodeAfterReturnDeprecated None at_1_1 ;;;
        r <- check_fn_stmt G returned st ;;
        check_fn_stmts (fst r) (snd r) ss'
    end.
End Statements.

(** R4: parameters left to right into the function's outermost scope, immutable. *)
Fixpoint declare_params (s : scope) (ps : list (ident * ast_ty)) : outcome scope :=
  match ps with
  | [] => Pass s
  | (x, t) :: ps' =>
      require (negb (amem (iname x) s))
              EFunctionArgumentNameDuplicated (Some (iname x)) at_1_1 ;;;
      declare_params (ainsert (iname x) (sem_of_ty t, false) s) ps'
  end.

(** the fuel the model gives to one function body *)
Definition fuel_of_fn (f : fn_decl) : nat := S (S (size_fn f)).

(** One function body: R4, the statements (in the parameters' scope), R22's "a return exists". *)
Definition check_fn_body (enforced : bool) (T : tables) (f : fn_decl) : outcome unit :=
  params <- declare_params [] (fn_params f) ;;
  returned <- check_fn_stmts enforced T (fuel_of_fn f) (sem_of_ty (fn_result f))
                             [params] false (fn_body f) ;;
  require returned EReturnNotFound (Some ""%string) (iloc (fn_name f)).

Fixpoint check_bodies (enforced : bool) (T : tables) (fs : list fn_decl) : outcome unit :=
  match fs with
  | [] => Pass tt
  | f :: fs' => check_fn_body enforced T f ;;; check_bodies enforced T fs'
  end.

(** ** The declaration phase (R1, R2, R3, R5, R6) *)

(** R1, over all struct declarations in source order. *)
Fixpoint check_structs (types : list (string * sem_ty)) (p : program)
  : outcome (list (string * sem_ty)) :=
  match p with
  | [] => Pass types
  | TStructDecl name attrs :: p' =>
      require (negb (amem (iname name) types))
              ETypeAlreadyExist (Some (iname name)) (iloc name) ;;;
      check_structs (types ++ [(iname name, struct_of_decl name attrs)]) p'
  | _ :: p' => check_structs types p'
  end.

(** R5: which constants of a value expression must exist. *)
Fixpoint consts_mentioned (l : list cval) : list ident :=
  match l with
  | [] => []
  | CConst c :: l' => c :: consts_mentioned l'
  | CVal _ :: l' => consts_mentioned l'
  end.
Fixpoint consts_before_literal (l : list cval) : list ident :=
  match l with
  | CConst c :: l' => c :: consts_before_literal l'
  | _ => []
  end.
Definition r5_checked (enforced : bool) (v : cexpr) : list ident :=
  if enforced
  then consts_before_literal (map snd (ce_rest v))          (* F8: not the head; stop at a literal *)
  else consts_mentioned (ce_head v :: map snd (ce_rest v)). (* R5: every constant mentioned *)

Fixpoint all_declared (consts : list (string * sem_ty)) (l : list ident) : outcome unit :=
  match l with
  | [] => Pass tt
  | c :: l' =>
      require (amem (iname c) consts) EConstantNotFound (Some (iname c)) (iloc c) ;;;
      all_declared consts l'
  end.

(** One constant: R2, R5, R6 — then it enters the table. *)
Definition check_const_decl (enforced : bool) (T : tables) (name : ident) (ty : ast_ty)
           (v : cexpr) : outcome tables :=
  require (negb (amem (iname name) (tb_consts T)))
          EConstantAlreadyExist (Some (iname name)) (iloc name) ;;;
  all_declared (tb_consts T) (r5_checked enforced v) ;;;
  require (type_known T (sem_of_ty ty)) ETypeNotFound (Some (iname name)) (iloc name) ;;;
  Pass (Tables (tb_types T) (tb_consts T ++ [(iname name, sem_of_ty ty)]) (tb_funcs T)).

(** R6 on parameter types, left to right: the PARAMETER's name, the FUNCTION's location. *)
Fixpoint check_param_types (T : tables) (floc : loc) (ps : list (ident * ast_ty))
  : outcome unit :=
  match ps with
  | [] => Pass tt
  | (x, t) :: ps' =>
      require (type_known T (sem_of_ty t)) ETypeNotFound (Some (iname x)) floc ;;;
      check_param_types T floc ps'
  end.

(** One function signature: R3, R6 (result, then parameters) — then it enters the table. *)
Definition check_fn_decl (T : tables) (f : fn_decl) : outcome tables :=
  let name := fn_name f in
  require (negb (amem (iname name) (tb_funcs T)))
          EFunctionAlreadyExist (Some (iname name)) (iloc name) ;;;
  require (type_known T (sem_of_ty (fn_result f)))
          ETypeNotFound (Some (iname name)) (iloc name) ;;;
  check_param_types T (iloc name) (fn_params f) ;;;
  Pass (Tables (tb_types T) (tb_consts T)
               (tb_funcs T ++ [(iname name, (map (fun p => sem_of_ty (snd p)) (fn_params f),
                                             sem_of_ty (fn_result f)))])).

(** Constants and function signatures in source order. *)
Fixpoint check_decls (enforced : bool) (T : tables) (p : program) : outcome tables :=
  match p with
  | [] => Pass T
  | TConst name ty v :: p' =>
      T' <- check_const_decl enforced T name ty v ;; check_decls enforced T' p'
  | TFn f :: p' =>
      T' <- check_fn_decl T f ;; check_decls enforced T' p'
  | _ :: p' => check_decls enforced T p'
  end.

Fixpoint fn_decls (p : program) : list fn_decl :=
  match p with
  | [] => []
  | TFn f :: p' => f :: fn_decls p'
  | _ :: p' => fn_decls p'
  end.

(** ** The whole program: structs, then constants and signatures, then all bodies *)
Definition check_program (enforced : bool) (p : program) : outcome unit :=
  types <- check_structs [] p ;;
  T <- check_decls enforced (Tables types [] []) p ;;
  check_bodies enforced T (fn_decls p).

(** What [first_violation] answers on [Stuck]: a violation of the kind [Common], which the
    analyzer never raises, at a location no rule uses — so a stuck check can be mistaken
    neither for "well-formed" nor for a real first error. *)
Definition stuck_viol : viol := Viol ECommon None (0, 0).

Definition first_violation (enforced : bool) (p : program) : option viol :=
  match check_program enforced p with
  | Pass _ => None
  | Fail v => Some v
  | Stuck => Some stuck_viol
  end.

(** well-formed (intended rules) / accepted according to the enforced rules *)
Definition wf_b (p : program) : bool :=
  match first_violation false p with None => true | _ => false end.
Definition accepted_spec_b (p : program) : bool :=
  match first_violation true p with None => true | _ => false end.

(** The decidable class of the known findings F2 and F8: passes the enforced rules, breaks
    the intended ones. *)
Definition in_K_F2_or_F8 (p : program) : bool := accepted_spec_b p && negb (wf_b p).
