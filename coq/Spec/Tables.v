(** Specification of the declaration phase (C15), independent of [Model.v].

    Each pass walks the top-level statements once and yields, for every declaration it looks at,
    an [outcome]: the declaration instruction of the entity it registers, or the one diagnostic it
    reports.  A declaration is registered when its name is not yet registered and it passes its
    checks.  The tables, the global instruction stack and the declaration diagnostics are
    projections of these outcome lists.  Only [Sem.v] (types of tables and outputs) is imported. *)
From SA Require Import Sem.
Local Open Scope list_scope.

(** ** Outcomes *)
Inductive outcome :=
| Registers (g : ginstr)
| Reports (e : err).

Definition registered (l : list outcome) : list ginstr :=
  flat_map (fun o => match o with Registers g => [g] | Reports _ => [] end) l.
Definition reported (l : list outcome) : list err :=
  flat_map (fun o => match o with Registers _ => [] | Reports e => [e] end) l.

(** The table entry a declaration instruction stands for. *)
Definition types_of (l : list ginstr) : list (string * sem_ty) :=
  flat_map (fun g => match g with GTypes t => [(type_name t, t)] | _ => [] end) l.
Definition consts_of (l : list ginstr) : list (string * const_sem) :=
  flat_map (fun g => match g with GConst c => [(c_name c, c)] | _ => [] end) l.
Definition funcs_of (l : list ginstr) : list (string * func_sem) :=
  flat_map (fun g => match g with
                     | GFnDecl n ps r => [(n, Func n r (map snd ps))]
                     | _ => []
                     end) l.

(** ** Pass 1: struct types.  [seen]: the names registered so far. *)
Fixpoint pass1 (seen : list string) (p : program) : list outcome :=
  match p with
  | [] => []
  | TStructDecl n a :: p' =>
      if smem (iname n) seen
      then Reports (Err ETypeAlreadyExist (Some (iname n)) (iloc n)) :: pass1 seen p'
      else Registers (GTypes (struct_of_decl n a)) :: pass1 (iname n :: seen) p'
  | _ :: p' => pass1 seen p'
  end.

(** ** Pass 2: constants and functions, in source order *)
Definition spec_cval (c : cval) : cval_sem :=
  match c with CConst n => CCs (iname n) | CVal v => CVs v end.
Definition spec_const (name : ident) (ty : ast_ty) (v : cexpr) : const_sem :=
  Const (iname name) (sem_of_ty ty) (spec_cval (ce_head v))
        (map (fun l => (fst l, spec_cval (snd l))) (ce_rest v)).
Definition spec_fn_instr (f : fn_decl) : ginstr :=
  GFnDecl (iname (fn_name f))
          (map (fun q => (iname (fst q), sem_of_ty (snd q))) (fn_params f))
          (sem_of_ty (fn_result f)).

Section Pass2.
  (** "the type is primitive or a registered struct" *)
  Variable tok : sem_ty -> bool.

  (** The first constant named in the links after the head, up to the first literal link, that
      is not registered yet. *)
  Fixpoint missing_const (cs : list string) (l : list (binop * cval)) : option ident :=
    match l with
    | [] => None
    | (_, CConst c) :: l' => if smem (iname c) cs then missing_const cs l' else Some c
    | (_, CVal _) :: _ => None
    end.

  (** The first parameter whose type does not exist. *)
  Fixpoint bad_param (ps : list (ident * ast_ty)) : option ident :=
    match ps with
    | [] => None
    | (x, t) :: ps' => if tok (sem_of_ty t) then bad_param ps' else Some x
    end.

  Definition const_outcome (cs : list string) (n : ident) (ty : ast_ty) (v : cexpr) : outcome :=
    if smem (iname n) cs then Reports (Err EConstantAlreadyExist (Some (iname n)) (iloc n))
    else match missing_const cs (ce_rest v) with
         | Some c => Reports (Err EConstantNotFound (Some (iname c)) (iloc c))
         | None =>
             if tok (sem_of_ty ty) then Registers (GConst (spec_const n ty v))
             else Reports (Err ETypeNotFound (Some (iname n)) (iloc n))
         end.

  Definition fn_outcome (fs : list string) (f : fn_decl) : outcome :=
    let n := fn_name f in
    if smem (iname n) fs then Reports (Err EFunctionAlreadyExist (Some (iname n)) (iloc n))
    else if tok (sem_of_ty (fn_result f)) then
      match bad_param (fn_params f) with
      | Some x => Reports (Err ETypeNotFound (Some (iname x)) (iloc n))
      | None => Registers (spec_fn_instr f)
      end
    else Reports (Err ETypeNotFound (Some (iname n)) (iloc n)).

  Definition is_reg (o : outcome) : bool := match o with Registers _ => true | Reports _ => false end.

  (** [cs], [fs]: the names of the constants and functions registered so far. *)
  Fixpoint pass2 (cs fs : list string) (p : program) : list outcome :=
    match p with
    | [] => []
    | TConst n ty v :: p' =>
        let o := const_outcome cs n ty v in
        o :: pass2 (if is_reg o then iname n :: cs else cs) fs p'
    | TFn f :: p' =>
        let o := fn_outcome fs f in
        o :: pass2 cs (if is_reg o then iname (fn_name f) :: fs else fs) p'
    | _ :: p' => pass2 cs fs p'
    end.
End Pass2.

(** ** The specification *)
Definition spec_pass1 (p : program) : list outcome := pass1 [] p.
Definition spec_types (p : program) : list (string * sem_ty) := types_of (registered (spec_pass1 p)).

Definition type_ok (T : list (string * sem_ty)) (t : sem_ty) : bool :=
  is_prim t || amem (type_name t) T.

Definition spec_pass2 (p : program) : list outcome := pass2 (type_ok (spec_types p)) [] [] p.
Definition spec_consts (p : program) : list (string * const_sem) :=
  consts_of (registered (spec_pass2 p)).
Definition spec_funcs (p : program) : list (string * func_sem) :=
  funcs_of (registered (spec_pass2 p)).
Definition spec_globals (p : program) : globals :=
  Globals (spec_types p) (spec_consts p) (spec_funcs p).

(** Types first, then constants and functions in source order. *)
Definition spec_gstack (p : program) : list ginstr :=
  registered (spec_pass1 p) ++ registered (spec_pass2 p).
Definition spec_decl_errs (p : program) : list err :=
  reported (spec_pass1 p) ++ reported (spec_pass2 p).

(** Every function declaration, registered or not. *)
Definition spec_fns (p : program) : list fn_decl :=
  flat_map (fun t => match t with TFn f => [f] | _ => [] end) p.

(** ** Boolean equalities (used by the monitors) *)
Fixpoint list_eqb {A : Type} (eqb : A -> A -> bool) (l l' : list A) : bool :=
  match l, l' with
  | [], [] => true
  | a :: r, a' :: r' => eqb a a' && list_eqb eqb r r'
  | _, _ => false
  end.

Definition binop_eqb (a b : binop) : bool :=
  match a, b with
  | OPlus, OPlus | OMinus, OMinus | OMultiply, OMultiply | ODivide, ODivide
  | OShiftLeft, OShiftLeft | OShiftRight, OShiftRight | OAnd, OAnd | OOr, OOr | OXor, OXor
  | OEq, OEq | ONotEq, ONotEq | OGreat, OGreat | OLess, OLess | OGreatEq, OGreatEq
  | OLessEq, OLessEq => true
  | _, _ => false
  end.

Definition prim_val_eqb (a b : prim_val) : bool :=
  prim_ty_eqb (pv_ty a) (pv_ty b) && Z.eqb (pv_bits a) (pv_bits b).

Definition cval_sem_eqb (a b : cval_sem) : bool :=
  match a, b with
  | CCs x, CCs y => String.eqb x y
  | CVs v, CVs w => prim_val_eqb v w
  | _, _ => false
  end.

Definition const_sem_eqb (a b : const_sem) : bool :=
  String.eqb (c_name a) (c_name b) && sem_ty_eqb (c_ty a) (c_ty b) &&
  cval_sem_eqb (c_head a) (c_head b) &&
  list_eqb (fun x y => binop_eqb (fst x) (fst y) && cval_sem_eqb (snd x) (snd y))
           (c_rest a) (c_rest b).

Definition func_sem_eqb (a b : func_sem) : bool :=
  String.eqb (f_name a) (f_name b) && sem_ty_eqb (f_ty a) (f_ty b) &&
  list_eqb sem_ty_eqb (f_params a) (f_params b).

Definition ginstr_eqb (a b : ginstr) : bool :=
  match a, b with
  | GTypes t, GTypes u => sem_ty_eqb t u
  | GConst c, GConst d => const_sem_eqb c d
  | GFnDecl n ps r, GFnDecl m qs s =>
      String.eqb n m &&
      list_eqb (fun x y => String.eqb (fst x) (fst y) && sem_ty_eqb (snd x) (snd y)) ps qs &&
      sem_ty_eqb r s
  | _, _ => false
  end.

(** ** Correctness of the boolean equalities *)
Lemma list_eqb_eq {A : Type} (eqb : A -> A -> bool) :
  (forall a b, eqb a b = true <-> a = b) ->
  forall l l', list_eqb eqb l l' = true <-> l = l'.
Proof.
  intros Heq. induction l as [|a l IH]; intros [|a' l']; cbn; try (split; [discriminate|discriminate]).
  - split; reflexivity.
  - rewrite Bool.andb_true_iff, Heq, IH. split.
    + intros [H1 H2]; subst; reflexivity.
    + intro H; inversion H; split; reflexivity.
Qed.

Lemma prim_ty_eqb_eq a b : prim_ty_eqb a b = true <-> a = b.
Proof. destruct a, b; cbn; split; intro H; try reflexivity; discriminate H. Qed.

Lemma binop_eqb_eq a b : binop_eqb a b = true <-> a = b.
Proof. destruct a, b; cbn; split; intro H; try reflexivity; discriminate H. Qed.

Lemma prim_val_eqb_eq a b : prim_val_eqb a b = true <-> a = b.
Proof.
  destruct a as [t z], b as [t' z']. unfold prim_val_eqb. cbn.
  rewrite Bool.andb_true_iff, prim_ty_eqb_eq, Z.eqb_eq. split.
  - intros [H1 H2]; subst; reflexivity.
  - intro H; inversion H; split; reflexivity.
Qed.

Lemma cval_sem_eqb_eq a b : cval_sem_eqb a b = true <-> a = b.
Proof.
  destruct a as [x|v], b as [y|w]; cbn; try (split; intro H; discriminate H).
  - rewrite String.eqb_eq. split; intro H; [subst | inversion H]; reflexivity.
  - rewrite prim_val_eqb_eq. split; intro H; [subst | inversion H]; reflexivity.
Qed.

(** Induction over [sem_ty] with the hypothesis for every attribute type. *)
Section SemTyInd.
  Variable P : sem_ty -> Prop.
  Hypothesis HP : forall p, P (SPrim p).
  Hypothesis HS : forall n attrs, Forall (fun a => P (snd a)) attrs -> P (SStruct n attrs).
  Hypothesis HA : forall t n, P t -> P (SArray t n).
  Fixpoint sem_ty_ind' (t : sem_ty) : P t :=
    match t with
    | SPrim p => HP p
    | SStruct n attrs =>
        HS n attrs
           ((fix go (l : list (string * N * sem_ty)) : Forall (fun a => P (snd a)) l :=
               match l with
               | [] => Forall_nil _
               | (xi, t') :: l' => Forall_cons (xi, t') (sem_ty_ind' t') (go l')
               end) attrs)
    | SArray t' n => HA t' n (sem_ty_ind' t')
    end.
End SemTyInd.

Lemma sem_ty_eqb_eq : forall a b, sem_ty_eqb a b = true <-> a = b.
Proof.
  induction a as [p | n attrs IH | t n IH] using sem_ty_ind'; intros [q | m attrs' | u k]; cbn;
    try (split; intro H; discriminate H).
  - rewrite prim_ty_eqb_eq. split; intro H; [subst | inversion H]; reflexivity.
  - rewrite Bool.andb_true_iff, String.eqb_eq.
    match goal with |- context [?g attrs attrs'] =>
      assert (Hgo : g attrs attrs' = true <-> attrs = attrs') end.
    { clear n m. revert attrs'. induction IH as [|[[x i] t] l Ht _ IHl]; intros [|[[y j] u] l'];
        try (split; intro H; discriminate H).
      - split; reflexivity.
      - rewrite !Bool.andb_true_iff, String.eqb_eq, N.eqb_eq. cbn [snd] in Ht.
        rewrite Ht, IHl. split.
        + intros [[[H1 H2] H3] H4]; subst; reflexivity.
        + intro H; inversion H; repeat split; reflexivity. }
    rewrite Hgo. split.
    + intros [H1 H2]; subst; reflexivity.
    + intro H; inversion H; split; reflexivity.
  - rewrite Bool.andb_true_iff, IH, N.eqb_eq. split.
    + intros [H1 H2]; subst; reflexivity.
    + intro H; inversion H; split; reflexivity.
Qed.

Lemma link_eqb_eq (x y : binop * cval_sem) :
  binop_eqb (fst x) (fst y) && cval_sem_eqb (snd x) (snd y) = true <-> x = y.
Proof.
  destruct x as [o c], y as [o' c']; cbn. rewrite Bool.andb_true_iff, binop_eqb_eq, cval_sem_eqb_eq.
  split; [intros [H1 H2]; subst; reflexivity | intro H; inversion H; split; reflexivity].
Qed.

Lemma param_eqb_eq (x y : string * sem_ty) :
  String.eqb (fst x) (fst y) && sem_ty_eqb (snd x) (snd y) = true <-> x = y.
Proof.
  destruct x as [a t], y as [a' t']; cbn. rewrite Bool.andb_true_iff, String.eqb_eq, sem_ty_eqb_eq.
  split; [intros [H1 H2]; subst; reflexivity | intro H; inversion H; split; reflexivity].
Qed.

Lemma const_sem_eqb_eq a b : const_sem_eqb a b = true <-> a = b.
Proof.
  destruct a as [n t h r], b as [n' t' h' r']. unfold const_sem_eqb. cbn.
  rewrite !Bool.andb_true_iff, String.eqb_eq, sem_ty_eqb_eq, cval_sem_eqb_eq.
  rewrite (list_eqb_eq _ link_eqb_eq).
  split.
  - intros [[[H1 H2] H3] H4]; subst; reflexivity.
  - intro H; inversion H; repeat split; reflexivity.
Qed.

Lemma func_sem_eqb_eq a b : func_sem_eqb a b = true <-> a = b.
Proof.
  destruct a as [n t ps], b as [n' t' ps']. unfold func_sem_eqb. cbn.
  rewrite !Bool.andb_true_iff, String.eqb_eq, sem_ty_eqb_eq, (list_eqb_eq _ sem_ty_eqb_eq).
  split.
  - intros [[H1 H2] H3]; subst; reflexivity.
  - intro H; inversion H; repeat split; reflexivity.
Qed.

Lemma ginstr_eqb_eq a b : ginstr_eqb a b = true <-> a = b.
Proof.
  destruct a as [t|c|n ps r], b as [u|d|m qs s]; cbn; try (split; intro H; discriminate H).
  - rewrite sem_ty_eqb_eq. split; intro H; [subst | inversion H]; reflexivity.
  - rewrite const_sem_eqb_eq. split; intro H; [subst | inversion H]; reflexivity.
  - rewrite !Bool.andb_true_iff, String.eqb_eq, sem_ty_eqb_eq.
    rewrite (list_eqb_eq _ param_eqb_eq).
    split.
    + intros [[H1 H2] H3]; subst; reflexivity.
    + intro H; inversion H; repeat split; reflexivity.
Qed.
