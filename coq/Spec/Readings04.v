(** A Prop-level reading of C04 ("the recorded types of every function stack of an accepted
    program are mutually consistent").  Definitions only; the proof that the boolean monitor
    [chk_C04] of [Mon/C04.v] decides exactly this judgement is in [Proofs/Readings04.v]
    ([chk_C04_reading]); the statements are collected in [Properties/C04r.v].

    This file does not import the monitor.  It uses [Sem.v] (the shape of instructions and of
    the output), [Ast.v] (source parameters), [alookup] of [Base.v] and, from [Model.v], only
    [functions_of] (the function declarations of a program, in source order).

    The English text of the property, clause by clause (the letters are used below):
    (a) an operand that names a register carries the type of the instruction that produced that
        register;
    (b) both operands of every operation and of every comparison have the same type (primitive
        for comparisons) and an operation's result has that type;
    (c) every call passes exactly as many arguments as the callee declares, each of the declared
        parameter type, and yields the callee's declared result type;
    (d) a let-declared value has its initialiser's type and every later read or assignment of it
        carries that same type and mutability;
    (e) every return value has the function's declared result type.

    The judgement [Typed G RT E VS PS c] reads the stack [c] from left to right under
    - [E]  : what is known about the registers written so far ("register environment");
    - [VS] : the values declared so far ([FunctionArg], [LetBinding]), by internal name;
    - [PS] : the source parameters that no [FunctionArg] has declared yet;
    with one rule per instruction kind.  Each rule is a transcription of one clause; the
    clauses that the text does NOT contain but the monitor enforces are marked "(+)", the one
    place where the monitor is weaker than the text is marked "(-)". *)
From SA Require Import Model.
Local Open Scope list_scope.

(** ** Register environments *)

(** What the instruction that produced a register says about it. *)
Inductive rinfo :=
| Produced (t : sem_ty) (call_or_field : bool)
    (* the result of an expression instruction, of type [t]; the flag is set when the
       instruction is a [Call] or an [ExpressionStructValue] (used by clause (-) only) *)
| Condition.
    (* the result of a [ConditionExpression] or of a [LogicCondition]: it has no type *)

(** most recent instruction first: a register that is written again is re-typed *)
Definition renv := list (N * rinfo).

Fixpoint produced (n : N) (E : renv) : option rinfo :=
  match E with
  | [] => None
  | (k, x) :: E' => if N.eqb n k then Some x else produced n E'
  end.

(** ** (a) Operands.  [operand_ok E e]: the operand [e] is consistent with [E]. *)
Inductive operand_ok (E : renv) (e : eres) : Prop :=
| O_literal p :
    (* (+) a literal operand carries the type of the literal *)
    r_val e = RPrim p -> r_ty e = SPrim (pv_ty p) -> operand_ok E e
| O_register n b :
    (* (a): the operand names register [n]; the instruction that produced [n] gave it the
       operand's type.  A [Condition] register is never an operand ((+): there is no rule). *)
    r_val e = RReg n -> produced n E = Some (Produced (r_ty e) b) -> operand_ok E e
| O_after_call_or_field n :
    (* (-) finding F7: the operand names a register [n] that NOTHING produced; then register
       [n - 1] was produced by a [Call] / [ExpressionStructValue] of the operand's type *)
    r_val e = RReg n -> produced n E = None -> n <> 0 ->
    produced (n - 1) E = Some (Produced (r_ty e) true) -> operand_ok E e.

(** ** (d) Declared values *)
Definition venv := list (string * value).

(** "the value [v] that an instruction reads, assigns to or takes a field of is the record
    (internal name, type, mutability) carried by the most recent declaration of that name" *)
Definition declared_as (VS : venv) (v : value) : Prop := alookup (v_inner v) VS = Some v.

(** the type of the attribute with index [idx] of a struct type (the first one listed) *)
Fixpoint attr_at (idx : N) (l : list (string * N * sem_ty)) : option sem_ty :=
  match l with
  | [] => None
  | (_, i, t) :: l' => if N.eqb idx i then Some t else attr_at idx l'
  end.

Inductive field_has_ty : sem_ty -> N -> sem_ty -> Prop :=
| Field_of_struct name attrs idx t :
    attr_at idx attrs = Some t -> field_has_ty (SStruct name attrs) idx t.

Definition primitive (t : sem_ty) : Prop := exists p, t = SPrim p.

Section Judgement.
  Variable G : globals.   (* the global declarations of the same run *)
  Variable RT : sem_ty.   (* the declared result type of the function *)

  Inductive Typed : renv -> venv -> list (ident * ast_ty) -> list instr -> Prop :=

  (** the end of the stack: (+) every source parameter has been declared by a [FunctionArg] *)
  | T_end E VS :
      Typed E VS [] []

  (** [ExpressionValue v -> r]  (d): a read of a declared value carries its record; (a): the
      register gets the value's type *)
  | T_value E VS PS v r c :
      declared_as VS v ->
      Typed ((r, Produced (v_ty v) false) :: E) VS PS c ->
      Typed E VS PS (IExprValue v r :: c)

  (** [ExpressionConst k -> r]  (+) the constant is the one declared under its name; (a): the
      register gets the constant's type *)
  | T_const E VS PS k r c :
      alookup (c_name k) (g_consts G) = Some k ->
      Typed ((r, Produced (c_ty k) false) :: E) VS PS c ->
      Typed E VS PS (IExprConst k r :: c)

  (** [ExpressionStructValue v idx -> r]  (d) for [v]; (+) the register gets the type of the
      attribute with that index *)
  | T_field E VS PS v idx t r c :
      declared_as VS v ->
      field_has_ty (v_ty v) idx t ->
      Typed ((r, Produced t true) :: E) VS PS c ->
      Typed E VS PS (IExprStruct v idx r :: c)

  (** [ExpressionOperation op l r -> reg]  (a) for both operands; (b): they have the same type
      and the result register has that type *)
  | T_operation E VS PS op l r reg c :
      operand_ok E l -> operand_ok E r ->
      r_ty l = r_ty r ->
      Typed ((reg, Produced (r_ty r) false) :: E) VS PS c ->
      Typed E VS PS (IExprOp op l r reg :: c)

  (** [Call f args -> r]  (a) for every argument; (c): [f] is the callee declared under its
      name, there are exactly as many arguments as declared parameters, each of the declared
      type, and the result register has the declared result type *)
  | T_call E VS PS f args r c :
      Forall (operand_ok E) args ->
      alookup (f_name f) (g_funcs G) = Some f ->
      length args = length (f_params f) ->
      Forall2 (fun a t => r_ty a = t) args (f_params f) ->
      Typed ((r, Produced (f_ty f) true) :: E) VS PS c ->
      Typed E VS PS (ICall f args r :: c)

  (** [LetBinding v e]  (a) for [e]; (d): the declared value has its initialiser's type; from
      here on [v] is the declaration of its internal name *)
  | T_let E VS PS v e c :
      operand_ok E e ->
      v_ty v = r_ty e ->
      Typed E ((v_inner v, v) :: VS) PS c ->
      Typed E VS PS (ILet v e :: c)

  (** [Binding v e]  (a) for [e]; (d): the assigned value carries the declared record, (+) it
      is mutable, and the stored operand has its type *)
  | T_assign E VS PS v e c :
      operand_ok E e ->
      declared_as VS v ->
      v_mut v = true ->
      v_ty v = r_ty e ->
      Typed E VS PS c ->
      Typed E VS PS (IBind v e :: c)

  (** the three return forms  (a) for [e]; (e): the value has the declared result type *)
  | T_return E VS PS e c :
      operand_ok E e -> r_ty e = RT -> Typed E VS PS c ->
      Typed E VS PS (IFnRet e :: c)
  | T_return_label E VS PS e c :
      operand_ok E e -> r_ty e = RT -> Typed E VS PS c ->
      Typed E VS PS (IFnRetLabel e :: c)
  | T_jump_return E VS PS e c :
      operand_ok E e -> r_ty e = RT -> Typed E VS PS c ->
      Typed E VS PS (IJumpFnRet e :: c)

  (** [IfConditionExpression e]  (a) for [e] *)
  | T_if_expression E VS PS e l1 l2 c :
      operand_ok E e -> Typed E VS PS c ->
      Typed E VS PS (IIfCondExpr e l1 l2 :: c)

  (** [ConditionExpression l r cmp -> reg]  (a) for both operands; (b): same type, primitive;
      the result is a condition *)
  | T_comparison E VS PS l r cmp reg c :
      operand_ok E l -> operand_ok E r ->
      r_ty l = r_ty r -> primitive (r_ty l) ->
      Typed ((reg, Condition) :: E) VS PS c ->
      Typed E VS PS (ICondExpr l r cmp reg :: c)

  (** [LogicCondition op lreg rreg -> reg]  (+) both inputs are conditions; so is the result *)
  | T_logic E VS PS op lreg rreg reg c :
      produced lreg E = Some Condition -> produced rreg E = Some Condition ->
      Typed ((reg, Condition) :: E) VS PS c ->
      Typed E VS PS (ILogic op lreg rreg reg :: c)

  (** [IfConditionLogic reg]  (+) the subject is a condition *)
  | T_if_logic E VS PS l1 l2 reg c :
      produced reg E = Some Condition -> Typed E VS PS c ->
      Typed E VS PS (IIfCondLogic l1 l2 reg :: c)

  (** [FunctionArg v pname pty]  (+) it declares the next source parameter [x : t]: same name,
      the semantic form of its type, an immutable value of that type; from here on [v] is the
      declaration of its internal name *)
  | T_argument E VS PS x t v pname pty c :
      pname = iname x -> pty = sem_of_ty t -> v_ty v = pty -> v_mut v = false ->
      Typed E ((v_inner v, v) :: VS) PS c ->
      Typed E VS ((x, t) :: PS) (IFnArg v pname pty :: c)

  (** [ExtendedExpression tag -> r]  the instruction carries no type: (a) then says that SOME
      type [t] is the type of every operand that names [r] *)
  | T_extension E VS PS tag r t c :
      Typed ((r, Produced t false) :: E) VS PS c ->
      Typed E VS PS (IExt tag r :: c)

  (** labels and jumps carry no types *)
  | T_set_label E VS PS l c :
      Typed E VS PS c -> Typed E VS PS (ISetLabel l :: c)
  | T_jump E VS PS l c :
      Typed E VS PS c -> Typed E VS PS (IJumpTo l :: c).
End Judgement.

(** ** Functions and programs *)

(** the complete stack of the function [f] (the root block's), read from the empty
    environments with all the parameters of [f] still to be declared *)
Definition fn_typed (G : globals) (f : fn_decl) (root : block) : Prop :=
  Typed G (sem_of_ty (fn_result f)) [] [] (fn_params f) (b_ctx root).

(** "in every function stack of an accepted program": one root per function declaration of the
    source, in order, each well typed against the globals of the same run *)
Definition C04_reading (p : program) (o : output) : Prop :=
  o_errors o = [] -> Forall2 (fn_typed (o_globals o)) (functions_of p) (o_fns o).
