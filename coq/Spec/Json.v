(** JSON trees: the model of [serde_json::Value] used by the codec specification (C20).

    Only the TREE level is modelled.  The text layer of serde_json (number and float formatting,
    string escaping, whitespace) is out of scope:
    - [JNum z]      an integer number ([u8] .. [u64], [i8] .. [i64], [usize]);
    - [JFloat32 b]  the JSON number serde_json produces for the [f32] with IEEE-754 bit pattern [b]
                    (opaque: no claim is made about its decimal rendering);
    - [JFloat64 b]  the same for an [f64];
    - [JStr s]      a string;
    - [JChar c]     the one-character JSON string holding the [char] with code point [c]
                    (kept apart from [JStr] because Coq strings are byte strings: the UTF-8
                    rendering of a code point belongs to the text layer);
    - [JObj fields] an object as the list of its (key, value) members IN SERIALISATION ORDER.
                    For structs serde emits the fields in declaration order, so lists are compared
                    literally; for [HashMap]s the order is unspecified and a comparison with the
                    implementation has to treat that one object as a map (see [Codec.v]). *)
From SA Require Import Base.
Local Open Scope list_scope.

Inductive json :=
| JNull
| JBool (b : bool)
| JNum (z : Z)
| JFloat32 (bits : Z)
| JFloat64 (bits : Z)
| JStr (s : string)
| JChar (code : Z)
| JArr (l : list json)
| JObj (fields : list (string * json)).

(** ** Induction principle with the hypotheses for the nested lists *)
Section JsonInd.
  Variable P : json -> Prop.
  Hypothesis HNull : P JNull.
  Hypothesis HBool : forall b, P (JBool b).
  Hypothesis HNum : forall z, P (JNum z).
  Hypothesis HF32 : forall b, P (JFloat32 b).
  Hypothesis HF64 : forall b, P (JFloat64 b).
  Hypothesis HStr : forall s, P (JStr s).
  Hypothesis HChar : forall c, P (JChar c).
  Hypothesis HArr : forall l, Forall P l -> P (JArr l).
  Hypothesis HObj : forall fields, Forall (fun kv => P (snd kv)) fields -> P (JObj fields).

  Fixpoint json_ind' (j : json) : P j :=
    match j with
    | JNull => HNull
    | JBool b => HBool b
    | JNum z => HNum z
    | JFloat32 b => HF32 b
    | JFloat64 b => HF64 b
    | JStr s => HStr s
    | JChar c => HChar c
    | JArr l =>
        HArr l ((fix go (l : list json) : Forall P l :=
                   match l with
                   | [] => Forall_nil _
                   | x :: l' => Forall_cons x (json_ind' x) (go l')
                   end) l)
    | JObj fields =>
        HObj fields
          ((fix go (l : list (string * json)) : Forall (fun kv => P (snd kv)) l :=
              match l with
              | [] => Forall_nil _
              | kv :: l' =>
                  Forall_cons (P := fun kv => P (snd kv)) kv
                    (match kv as kv0 return P (snd kv0) with (k, v) => json_ind' v end) (go l')
              end) fields)
    end.
End JsonInd.

(** ** Size (number of nodes) *)
Fixpoint json_size (j : json) : nat :=
  match j with
  | JArr l => S (fold_right (fun x n => (json_size x + n)%nat) O l)
  | JObj fields => S (fold_right (fun kv n => (json_size (snd kv) + n)%nat) O fields)
  | _ => 1%nat
  end.

(** ** Objects *)

(** Member lookup (first occurrence), as [serde_json::Map::get] on an order-preserving map. *)
Fixpoint jlookup (k : string) (fields : list (string * json)) : option json :=
  match fields with
  | [] => None
  | (k', v) :: fields' => if String.eqb k k' then Some v else jlookup k fields'
  end.

Definition jfield (k : string) (j : json) : option json :=
  match j with JObj fields => jlookup k fields | _ => None end.

Definition jkeys (j : json) : list string :=
  match j with JObj fields => map fst fields | _ => [] end.

(** Key test used by the decoders. *)
Definition keq (k expected : string) : bool := String.eqb k expected.

Lemma keq_refl k : keq k k = true.
Proof. apply String.eqb_refl. Qed.

(** ** serde's adjacent tagging [#[serde(tag = "type", content = "content")]] *)

(** a unit variant: [{"type": T}] *)
Definition tag0 (t : string) : json := JObj [("type", JStr t)].
(** a newtype / tuple / struct variant: [{"type": T, "content": C}] *)
Definition tagc (t : string) (c : json) : json := JObj [("type", JStr t); ("content", c)].

(** ** Decidable equality on trees (lists compared in order) *)
Fixpoint json_eqb (a b : json) : bool :=
  match a, b with
  | JNull, JNull => true
  | JBool x, JBool y => Bool.eqb x y
  | JNum x, JNum y => Z.eqb x y
  | JFloat32 x, JFloat32 y => Z.eqb x y
  | JFloat64 x, JFloat64 y => Z.eqb x y
  | JStr x, JStr y => String.eqb x y
  | JChar x, JChar y => Z.eqb x y
  | JArr la, JArr lb =>
      (fix go (la lb : list json) : bool :=
         match la, lb with
         | [], [] => true
         | x :: la', y :: lb' => json_eqb x y && go la' lb'
         | _, _ => false
         end) la lb
  | JObj la, JObj lb =>
      (fix go (la lb : list (string * json)) : bool :=
         match la, lb with
         | [], [] => true
         | (k, x) :: la', (k', y) :: lb' => String.eqb k k' && json_eqb x y && go la' lb'
         | _, _ => false
         end) la lb
  | _, _ => false
  end.

Lemma json_eqb_refl : forall j, json_eqb j j = true.
Proof.
  induction j using json_ind'; simpl;
    try reflexivity; try apply Z.eqb_refl; try apply String.eqb_refl.
  - destruct b; reflexivity.
  - induction H; [reflexivity|]. rewrite H. exact IHForall.
  - induction H; [reflexivity|]. destruct x as [k v]. simpl in H.
    rewrite String.eqb_refl, H. exact IHForall.
Qed.

Lemma json_eqb_eq : forall a b, json_eqb a b = true -> a = b.
Proof.
  induction a using json_ind'; intros [ | y | y | y | y | y | y | l0 | fields0]; simpl;
    try discriminate; intros E; try reflexivity.
  - apply Bool.eqb_prop in E. congruence.
  - apply Z.eqb_eq in E. congruence.
  - apply Z.eqb_eq in E. congruence.
  - apply Z.eqb_eq in E. congruence.
  - apply String.eqb_eq in E. congruence.
  - apply Z.eqb_eq in E. congruence.
  - f_equal. revert l0 E. induction H; intros [|y l0] E; try discriminate; [reflexivity|].
    apply andb_true_iff in E. destruct E as [E1 E2].
    f_equal; [apply H; exact E1 | apply IHForall; exact E2].
  - f_equal. revert fields0 E.
    induction H; intros [|[k' y] l0] E; try (destruct x; discriminate); try discriminate;
      [reflexivity|].
    destruct x as [k v]. simpl in H.
    apply andb_true_iff in E. destruct E as [E E3].
    apply andb_true_iff in E. destruct E as [E1 E2].
    apply String.eqb_eq in E1. subst k'.
    f_equal; [f_equal; apply H; exact E2 | apply IHForall; exact E3].
Qed.
