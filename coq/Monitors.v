(** Boolean monitors: executable judgements of the properties on an analysis result.
    They are extracted with the model and run on the IMPLEMENTATION's output; each comes with a
    lemma relating it to the Prop-level statement of the property (in [Proofs/MonitorsSound.v]). *)
From SA Require Import Model.
From SA.Proofs Require Import Reach InvReg.
Local Open Scope list_scope.

(** ** C09 *)
Fixpoint increasing_from (prev : N) (l : list N) : bool :=
  match l with
  | [] => true
  | r :: l' => (prev <? r) && increasing_from r l'
  end.

Definition chk_C09_root (b : block) : bool :=
  increasing_from 0 (defs (b_ctx b)) && forallb (fun r => r <=? b_reg b) (defs (b_ctx b)).

Definition chk_C09 (o : output) : bool := forallb chk_C09_root (o_fns o).
