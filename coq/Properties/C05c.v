(** C05c — Control flow AND data: running a function's emitted stack on a register machine
    computes the same observable trace, WITH THE VALUES, as running the source statements, for
    every interpretation of the primitive operations.

    "For an accepted program, for every function, every interpretation of literals, operators,
    comparisons, truth, field reads, extension leaves, constants and calls (calls are opaque pure
    functions of their arguments), and all argument values: executing the instruction stack on a
    register machine (a register file; a store keyed by the INTERNAL names of values, written by
    FunctionArg / LetBinding / Binding and read by ExpressionValue / ExpressionStructValue;
    comparison and logic results held in registers as booleans; conditionals decided by the data;
    operands read with the rule of finding F7; a read of a register or name that was never written
    is an error, never a default value) performs the same sequence of let-bindings, assignments,
    calls and return, carrying the same values, as evaluating the source statements with lexical
    scoping (parameters outermost, a let shadows, a block's declarations end with the block, a
    name not in scope is a global constant), operator chains bracketed by priority, conditions
    without short-circuit, and structured control flow."

    Statements only.  Definitions: [Spec/ValueExec.v] ([vflat_exec], [vstruct_exec], [vagree],
    the free interpretation), [Mon/C05v.v] (the monitor).  Proofs: [Proofs/ValueSimBase.v] (big
    steps of the machine, the relational reading of source expressions, store vs environment),
    [Proofs/ValueSimExpr.v] (expressions and conditions: the emitted code computes the value of the
    source), [Proofs/ValueSimFrag.v] (compiled fragments with exits, with data; no analyzer
    involved), [Proofs/ValueSimStmt.v] (the analyzer followed forward), [Proofs/ValueSim.v]
    (parameters, one function, the driver), [Proofs/ValueSimSafe.v] (labels, end of the stack).

    STATUS.  The equivalence holds of the model for the source semantics WITH the recorded
    finding F5 ([quirk = true], exactly as in C05).  No side condition on the program is needed
    beyond acceptance: the rule of finding F7 is part of the machine, and the holes it relies on
    (the register after a Call / ExpressionStructValue is never written by any instruction) are
    proved, not assumed.
    What is NOT proved: that the register machine is never STUCK on a run that the source
    semantics cannot finish with any fuel (a diverging run).  It is proved never stuck whenever
    the source returns ([C05c_structured_return_is_matched]), the source is proved never stuck at
    all, and the machine is proved never to miss a label or run off its stack. *)
From SA Require Import Model.
From SA.Spec Require Import Stack Exec ValueExec.
From SA.Mon Require Import Control C05v.
From SA.Proofs Require Import ValueSimBase ValueSim ValueSimSafe.
Local Open Scope list_scope.

(** ** (A) The simulation with values, with the recorded finding F5 *)

(** In an accepted program, for every function (paired with its root block), every value type
    [V] and interpretation [I], all arguments [args] (as many as the function has parameters) and
    every pair of fuels [n1], [n2]: the trace of the register machine and the trace of the source
    semantics agree ([vagreeP]: the event lists - with the values they carry - are EQUAL when both
    runs end with [VReturned]; otherwise a fuel ran out and one is a prefix of the other), and the
    source semantics ends well ([vok]: it returned or ran out of fuel; it is never stuck and never
    falls off the end of the body). *)
Theorem C05c_value_simulation :
  forall (V : Type) (I : interp V) (p : program) (out : output),
    run p = ROk out -> o_errors out = [] ->
    Forall2 (fun (f : fn_decl) (root : block) =>
               forall (args : list V) (n1 n2 : nat),
                 length args = length (fn_params f) ->
                 vagreeP (vflat_exec V I (b_ctx root) args n1) (vstruct_exec V I true f args n2) /\
                 vok (snd (vstruct_exec V I true f args n2)) = true)
            (functions_of p) (o_fns out).
Proof. exact value_simulation_P. Qed.

Check C05c_value_simulation :
  forall (V : Type) (I : interp V) (p : program) (out : output),
    run p = ROk out -> o_errors out = [] ->
    Forall2 (fun (f : fn_decl) (root : block) =>
               forall (args : list V) (n1 n2 : nat),
                 length args = length (fn_params f) ->
                 vagreeP (vflat_exec V I (b_ctx root) args n1) (vstruct_exec V I true f args n2) /\
                 vok (snd (vstruct_exec V I true f args n2)) = true)
            (functions_of p) (o_fns out).

(** The same with the executable comparison [vagree] of [Spec/ValueExec.v], for an interpretation
    whose equality test is reflexive. *)
Theorem C05c_value_simulation_bool :
  forall (V : Type) (I : interp V) (p : program) (out : output),
    (forall v, i_eqb I v v = true) ->
    run p = ROk out -> o_errors out = [] ->
    Forall2 (fun (f : fn_decl) (root : block) =>
               forall (args : list V) (n1 n2 : nat),
                 length args = length (fn_params f) ->
                 vagree V I (vflat_exec V I (b_ctx root) args n1)
                        (vstruct_exec V I true f args n2) = true /\
                 vok (snd (vstruct_exec V I true f args n2)) = true)
            (functions_of p) (o_fns out).
Proof. exact value_simulation. Qed.

Check C05c_value_simulation_bool :
  forall (V : Type) (I : interp V) (p : program) (out : output),
    (forall v, i_eqb I v v = true) ->
    run p = ROk out -> o_errors out = [] ->
    Forall2 (fun (f : fn_decl) (root : block) =>
               forall (args : list V) (n1 n2 : nat),
                 length args = length (fn_params f) ->
                 vagree V I (vflat_exec V I (b_ctx root) args n1)
                        (vstruct_exec V I true f args n2) = true /\
                 vok (snd (vstruct_exec V I true f args n2)) = true)
            (functions_of p) (o_fns out).

(** Termination transfers: when the source semantics returns, the register machine returns for
    every sufficiently large fuel with the same events and the same values; on the way it reads
    no register and no name that was not written. *)
Theorem C05c_structured_return_is_matched :
  forall (V : Type) (I : interp V) (p : program) (out : output),
    run p = ROk out -> o_errors out = [] ->
    Forall2 (fun (f : fn_decl) (root : block) =>
               forall (args : list V) (n2 : nat) (e : list (vevent V)),
                 length args = length (fn_params f) ->
                 vstruct_exec V I true f args n2 = (e, VReturned) ->
                 exists n1, forall n, (n1 <= n)%nat ->
                                      vflat_exec V I (b_ctx root) args n = (e, VReturned))
            (functions_of p) (o_fns out).
Proof. exact value_simulation_returns. Qed.

Check C05c_structured_return_is_matched :
  forall (V : Type) (I : interp V) (p : program) (out : output),
    run p = ROk out -> o_errors out = [] ->
    Forall2 (fun (f : fn_decl) (root : block) =>
               forall (args : list V) (n2 : nat) (e : list (vevent V)),
                 length args = length (fn_params f) ->
                 vstruct_exec V I true f args n2 = (e, VReturned) ->
                 exists n1, forall n, (n1 <= n)%nat ->
                                      vflat_exec V I (b_ctx root) args n = (e, VReturned))
            (functions_of p) (o_fns out).

(** The free interpretation of the monitor [Mon/C05v.v] is an instance: for every salt, on the
    output of the model for an accepted program, the comparison of the two traces and the
    well-ending of the source run - two of the three conjuncts of [chk_C05v_salt] - hold for all
    fuels. *)
Theorem C05c_free_interpretation_agrees :
  forall (salt : N) (p : program) (out : output),
    run p = ROk out -> o_errors out = [] ->
    Forall2 (fun (f : fn_decl) (root : block) =>
               forall n1 n2 : nat,
                 let I := free_interp salt in
                 let args := free_args (length (fn_params f)) in
                 vagree term I (vflat_exec term I (b_ctx root) args n1)
                        (vstruct_exec term I true f args n2) = true /\
                 vok (snd (vstruct_exec term I true f args n2)) = true)
            (functions_of p) (o_fns out).
Proof. exact free_interpretation_agrees. Qed.

(** ** (B) Safety of the register machine, the static half *)

(** For every program (accepted or not) on which the analysis terminates: the register machine
    never looks up a label that is not set. *)
Theorem C05c_never_jumps_to_unset_label :
  forall (V : Type) (I : interp V) (p : program) (out : output),
    run p = ROk out ->
    forall root, In root (o_fns out) ->
    forall (args : list V) (n : nat) (l : string),
      snd (vflat_exec V I (b_ctx root) args n) <> VBadLabel l.
Proof. exact vflat_never_bad_label. Qed.

(** In an accepted program the register machine never runs off the end of the stack. *)
Theorem C05c_never_falls_off :
  forall (V : Type) (I : interp V) (p : program) (out : output),
    run p = ROk out -> o_errors out = [] ->
    forall root, In root (o_fns out) ->
    forall (args : list V) (n : nat),
      snd (vflat_exec V I (b_ctx root) args n) <> VFellOff.
Proof. exact vflat_never_falls_off. Qed.

Check C05c_never_jumps_to_unset_label :
  forall (V : Type) (I : interp V) (p : program) (out : output),
    run p = ROk out ->
    forall root, In root (o_fns out) ->
    forall (args : list V) (n : nat) (l : string),
      snd (vflat_exec V I (b_ctx root) args n) <> VBadLabel l.

Check C05c_never_falls_off :
  forall (V : Type) (I : interp V) (p : program) (out : output),
    run p = ROk out -> o_errors out = [] ->
    forall root, In root (o_fns out) ->
    forall (args : list V) (n : nat),
      snd (vflat_exec V I (b_ctx root) args n) <> VFellOff.

Print Assumptions C05c_value_simulation.
Print Assumptions C05c_value_simulation_bool.
Print Assumptions C05c_structured_return_is_matched.
Print Assumptions C05c_free_interpretation_agrees.
Print Assumptions C05c_never_jumps_to_unset_label.
Print Assumptions C05c_never_falls_off.

(** ** Examples, decided by [vm_compute] with the free interpretation (values are terms,
    comparisons and truth decided by a hash of the terms and a salt) *)
Definition c05c_i32 : ast_ty := TPrim PI32.
Definition c05c_id (s : string) : ident := Id s 1 0.
Definition c05c_S : ast_ty :=
  TStruct (c05c_id "S") [(c05c_id "a", c05c_i32); (c05c_id "b", c05c_i32); (c05c_id "c", c05c_i32)].
Definition c05c_n (z : Z) : expr_val := EVPrim (PV PI32 z).
Definition c05c_v (x : string) : expr_val := EVName (c05c_id x).
Definition c05c_c (f : string) (args : list expr) : expr_val := EVCall (c05c_id f) args.
Definition c05c_f (x a : string) : expr_val := EVField (c05c_id x) (c05c_id a).
Definition c05c_e (v : expr_val) : expr := Expr v [].
Definition c05c_callee (name : string) (ps : list string) : top :=
  TFn (Fn (c05c_id name) (map (fun x => (c05c_id x, c05c_i32)) ps) c05c_i32
          [SRet (c05c_e (c05c_n 1))]).

(** [struct S { a, b, c }  const K = 7  fn g1(p)  fn g2(p, q)
     fn main(a, b, s : S) {
       let mut acc = a;  let mut i = 0;
       loop {
         let a = a + g1(i) * s.b;                 shadowing let, call as operand, field read
         acc = acc + a;                           assignment to an outer mutable value
         g2(acc, g1(a));                          call as a statement, call as an argument
         if a < b && g1(i) == s.a || acc >= K { i = i + 1; continue }      three-term condition
         else if i - b { let a = a - 1; acc = a; break }
         else if acc > 3 { return acc + a }       nested return
         else { i = i + 2 }
         acc = acc * 2;
       }
       acc + a - i                                reads the parameter [a] again
     }] *)
Definition C05c_program : program :=
  [TStructDecl (c05c_id "S") [(c05c_id "a", c05c_i32); (c05c_id "b", c05c_i32); (c05c_id "c", c05c_i32)];
   TConst (c05c_id "K") c05c_i32 (CExpr (CVal (PV PI32 7)) []);
   c05c_callee "g1" ["p"]; c05c_callee "g2" ["p"; "q"];
   TFn (Fn (c05c_id "main") [(c05c_id "a", c05c_i32); (c05c_id "b", c05c_i32); (c05c_id "s", c05c_S)]
           c05c_i32
     [SLet (c05c_id "acc") true None (c05c_e (c05c_v "a"));
      SLet (c05c_id "i") true None (c05c_e (c05c_n 0));
      SLoop
        [SLet (c05c_id "a") false None
              (Expr (c05c_v "a") [(OPlus, c05c_c "g1" [c05c_e (c05c_v "i")]); (OMultiply, c05c_f "s" "b")]);
         SBind (c05c_id "acc") (Expr (c05c_v "acc") [(OPlus, c05c_v "a")]);
         SCall (c05c_id "g2") [c05c_e (c05c_v "acc"); c05c_e (c05c_c "g1" [c05c_e (c05c_v "a")])];
         SIf (IfS (CLogic (LC (c05c_e (c05c_v "a")) CLess (c05c_e (c05c_v "b"))
                     (Some (LAnd, LC (c05c_e (c05c_c "g1" [c05c_e (c05c_v "i")])) CEq (c05c_e (c05c_f "s" "a"))
                        (Some (LOr, LC (c05c_e (c05c_v "acc")) CGreatEq (c05c_e (c05c_v "K")) None))))))
                  (IBLoop [SBind (c05c_id "i") (Expr (c05c_v "i") [(OPlus, c05c_n 1)]); SContinue]) None
             (Some (IfS (CSingle (Expr (c05c_v "i") [(OMinus, c05c_v "b")]))
                  (IBLoop [SLet (c05c_id "a") false None (Expr (c05c_v "a") [(OMinus, c05c_n 1)]);
                           SBind (c05c_id "acc") (c05c_e (c05c_v "a")); SBreak]) None
             (Some (IfS (CLogic (LC (c05c_e (c05c_v "acc")) CGreat (c05c_e (c05c_n 3)) None))
                  (IBLoop [SRet (Expr (c05c_v "acc") [(OPlus, c05c_v "a")])])
                  (Some (IBLoop [SBind (c05c_id "i") (Expr (c05c_v "i") [(OPlus, c05c_n 2)])])) None)))));
         SBind (c05c_id "acc") (Expr (c05c_v "acc") [(OMultiply, c05c_n 2)])];
      SRet (Expr (c05c_v "acc") [(OPlus, c05c_v "a"); (OMinus, c05c_v "i")])])].

Definition c05c_salts : list N := [0; 1; 2; 3; 4; 5; 6; 7; 8; 9; 10; 11; 12; 13; 14; 15]%N.

(** the program is accepted, and for sixteen salts both semantics return, with the same data *)
Example C05c_example :
  match run C05c_program with
  | ROk out =>
      o_errors out = [] /\
      chk_C05v c05c_salts 500 C05c_program out = true /\
      chk_C05 true 4 300 C05c_program out = true
  | _ => False
  end.
Proof. vm_compute. repeat split; reflexivity. Qed.

(** the salts explore different paths: the numbers of events of the sixteen returning runs *)
Definition c05c_lengths (p : program) (fuel : nat) : list (option nat) :=
  match run p with
  | ROk o =>
      match rev (o_fns o), rev (functions_of p) with
      | root :: _, f :: _ =>
          map (fun salt =>
                 let I := free_interp salt in
                 let args := free_args (length (fn_params f)) in
                 match vflat_exec term I (b_ctx root) args fuel, vstruct_exec term I true f args fuel with
                 | (e1, VReturned), (e2, VReturned) =>
                     if Nat.eqb (length e1) (length e2) then Some (length e1) else None
                 | _, _ => None
                 end) c05c_salts
      | _, _ => []
      end
  | _ => []
  end.

Example C05c_example_paths :
  c05c_lengths C05c_program 500 =
  map Some [78; 11; 16; 11; 11; 11; 18; 11; 16; 32; 41; 9; 18; 18; 33; 9]%nat.
Proof. vm_compute. reflexivity. Qed.

(** ** Non-vacuity: a damaged stack (the two operands of the first [Minus] swapped) passes the
    data-abstract monitor of C05 and is caught by the monitor with values *)
Fixpoint c05c_map_first (g : instr -> option instr) (c : list instr) : list instr :=
  match c with
  | [] => []
  | i :: c' => match g i with Some i' => i' :: c' | None => i :: c05c_map_first g c' end
  end.
Definition c05c_set_ctx (c : list instr) (b : block) : block :=
  Block (b_values b) (b_inner b) (b_labels b) (b_reg b) (b_mret b) c (b_kids b).
Definition c05c_damage (d : list instr -> list instr) (o : output) : output :=
  Output (o_errors o) (o_globals o) (o_gstack o)
         (match rev (o_fns o) with
          | b :: r => rev r ++ [c05c_set_ctx (d (b_ctx b)) b]
          | [] => []
          end).
Definition c05c_swap_minus (i : instr) : option instr :=
  match i with IExprOp OMinus l r reg => Some (IExprOp OMinus r l reg) | _ => None end.
(** ... and a conditional whose two targets are exchanged *)
Definition c05c_swap_targets (i : instr) : option instr :=
  match i with IIfCondExpr e lt lf => Some (IIfCondExpr e lf lt) | _ => None end.

Example C05c_damaged_operands :
  match run C05c_program with
  | ROk out =>
      chk_C05v c05c_salts 500 C05c_program (c05c_damage (c05c_map_first c05c_swap_minus) out) = false /\
      chk_C05 true 4 300 C05c_program (c05c_damage (c05c_map_first c05c_swap_minus) out) = true
  | _ => False
  end.
Proof. vm_compute. split; reflexivity. Qed.

Example C05c_damaged_targets :
  match run C05c_program with
  | ROk out =>
      chk_C05v c05c_salts 500 C05c_program (c05c_damage (c05c_map_first c05c_swap_targets) out) = false
  | _ => False
  end.
Proof. vm_compute. reflexivity. Qed.

(** ** Finding F5 is visible with values as well: the program of [Properties/C05.v] *)
Definition C05c_F5_program : program :=
  [c05c_callee "g" [];
   TFn (Fn (c05c_id "main") [(c05c_id "a", c05c_i32)] c05c_i32
          [SIf (IfS (CSingle (c05c_e (c05c_v "a")))
                    (IBIf [SIf (IfS (CSingle (c05c_e (c05c_n 1))) (IBIf []) None None);
                           SCall (c05c_id "g") []])
                    None None);
           SRet (c05c_e (c05c_n 0))])].

Example C05c_F5 :
  match run C05c_F5_program with
  | ROk out =>
      o_errors out = [] /\
      chk_C05v c05c_salts 200 C05c_F5_program out = true /\
      chk_C05v_intended c05c_salts 200 C05c_F5_program out = false
  | _ => False
  end.
Proof. vm_compute. repeat split; reflexivity. Qed.
