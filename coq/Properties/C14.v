(** C14 — The first reported error is the first violated rule, with kind and name.
    Statement only; proofs are in [Proofs/Simulation.v] (and [SimExpr], [SimStmt], [SimDecl]). *)
From SA Require Import Model.
From SA.Spec Require Import FirstViolation.
From SA.Mon Require Import Verdict.
From SA.Proofs Require Import VerdictMon Simulation.
Local Open Scope list_scope.

(** For every program on which the analysis terminates normally: the first entry of the error
    list corresponds to the first violation of the enforced rule set met in analysis order
    (struct types; then constants and signatures in source order; then bodies in source order,
    statements and operands left to right) — same kind, same location, and the same identifier
    (or type name) whenever the rule names one; and there is no error iff there is no violation.
    [first_violation true] is the independent rule checker of [Spec/FirstViolation.v]; it never
    answers with its "stuck" wildcard here ([C14_checker_not_stuck]). *)
Theorem C14_first_error_is_first_violation :
  forall (p : program) (out : output),
    run p = ROk out ->
    first_error_matches (first_violation true p) (hd_error (o_errors out)).
Proof. exact first_error_is_first_violation. Qed.

Theorem C14_checker_not_stuck :
  forall (p : program) (out : output), run p = ROk out -> check_program true p <> Stuck.
Proof. exact check_program_not_stuck. Qed.

(** the monitor run on the implementation's outputs decides exactly this statement, and holds
    of every model output *)
Theorem C14_monitor_exact :
  forall (p : program) (o : output),
    chk_C14 p o = true <->
    first_error_matches (first_violation true p) (hd_error (o_errors o)).
Proof. exact chk_C14_spec. Qed.

Theorem C14_monitor_on_model :
  forall (p : program) (out : output), run p = ROk out -> chk_C14 p out = true.
Proof. exact chk_C14_on_model. Qed.

Check C14_first_error_is_first_violation :
  forall (p : program) (out : output),
    run p = ROk out ->
    first_error_matches (first_violation true p) (hd_error (o_errors out)).
Check C14_checker_not_stuck :
  forall (p : program) (out : output), run p = ROk out -> check_program true p <> Stuck.
Check C14_monitor_on_model :
  forall (p : program) (out : output), run p = ROk out -> chk_C14 p out = true.

(** Non-vacuity: an undeclared name as the right operand of an addition, in a [let] inside a
    loop-flavoured if-body inside a loop; specification and model agree on kind, name and
    location of the first error. *)
Example C14_nested_fault :
  let lit := Expr (EVPrim (PV PI32 1)) [] in
  let f := Fn (Id "f" 1 3) [(Id "a" 1 5, TPrim PI32)] (TPrim PI32)
              [SLoop [SIf (IfS (CSingle lit)
                               (IBLoop [SLet (Id "y" 3 9) false (Some (TPrim PBool))
                                             (Expr (EVName (Id "a" 3 20))
                                                   [(OPlus, EVName (Id "zz" 3 24))]);
                                        SBreak])
                               None None)];
               SRet lit] in
  first_violation true [TFn f] = Some (Viol EValueNotFound (Some "zz"%string) (3, 24)) /\
  match run [TFn f] with
  | ROk out => hd_error (o_errors out) = Some (Err EValueNotFound (Some "zz"%string) (3, 24))
  | _ => False
  end.
Proof. vm_compute. split; reflexivity. Qed.

Print Assumptions C14_first_error_is_first_violation.
Print Assumptions C14_checker_not_stuck.
Print Assumptions C14_monitor_exact.
Print Assumptions C14_monitor_on_model.
