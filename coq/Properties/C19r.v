(** C19, read as three statements about lists and positions.  Statements only: the readings are
    defined in [Spec/Readings19.v] (which does not mention the monitors), the proofs are in
    [Proofs/Readings19.v].

    (1) [order_reading f root]  : [ext_tags (b_ctx root) = map fst (leaves_fn f)];
    (2) [types_reading f root]  : [verbatim_types] -- an operand naming the register of the j-th
        extension instruction has the type of the j-th source leaf -- and [read_once] -- the
        register of every extension instruction is read exactly once;
    (3) [blocks_reading root]   : for every finished child [k] of every block [b] of the tree,
        [k] holds at most as many copies of every extension instruction as [b]. *)
From SA Require Import Model.
From SA.Spec Require Import Stack FirstViolation Readings19.
From SA.Mon Require Import C19.
From SA.Proofs Require Import InvTree Readings19.
From SA.Properties Require C19 C19b.
From SA.Spec Require DenoteTests.
Local Open Scope list_scope.

(** ** The monitors decide exactly the readings *)
Theorem C19_order_exact :
  forall (p : program) (o : output), chk_C19_order p o = true <-> C19_order_reading p o.
Proof. exact chk_C19_order_reading. Qed.

Theorem C19_types_exact :
  forall (p : program) (o : output), chk_C19_types p o = true <-> C19_types_reading p o.
Proof. exact chk_C19_types_reading. Qed.

Theorem C19_blocks_exact :
  forall (p : program) (o : output), chk_C19_blocks p o = true <-> C19_blocks_reading o.
Proof. exact chk_C19_blocks_reading. Qed.

Theorem C19_strict_exact :
  forall (p : program) (o : output), chk_C19_strict p o = true <-> C19_strict_reading p o.
Proof. exact chk_C19_strict_reading. Qed.

(** function by function / block by block *)
Theorem C19_order_exact_fn :
  forall (f : fn_decl) (root : block), chk_order_fn f root = true <-> order_reading f root.
Proof. exact chk_order_fn_reading. Qed.

Theorem C19_types_exact_fn :
  forall (f : fn_decl) (root : block), chk_types_fn f root = true <-> types_reading f root.
Proof. exact chk_types_fn_reading. Qed.

Theorem C19_blocks_exact_tree :
  forall b : block, chk_blocks_tree b = true <-> blocks_reading b.
Proof. exact chk_blocks_tree_reading. Qed.

(** the source side of the readings is the monitor's *)
Theorem C19_leaves_are_the_monitors : forall f, leaves_fn f = fn_exts f.
Proof. exact leaves_fn_eq. Qed.

Check C19_order_exact :
  forall (p : program) (o : output), chk_C19_order p o = true <-> C19_order_reading p o.
Check C19_types_exact :
  forall (p : program) (o : output), chk_C19_types p o = true <-> C19_types_reading p o.
Check C19_blocks_exact :
  forall (p : program) (o : output), chk_C19_blocks p o = true <-> C19_blocks_reading o.
Check C19_strict_exact :
  forall (p : program) (o : output), chk_C19_strict p o = true <-> C19_strict_reading p o.

(** ** "... and in every ancestor's stack": consequences of (3) along the paths of a tree *)
Theorem C19_blocks_every_ancestor :
  forall root d, blocks_reading root -> descendant root d -> ext_included (b_ctx d) (b_ctx root).
Proof. intros root d Hr Hd. exact (proj1 (blocks_reading_descendant root d Hd Hr)). Qed.

Theorem C19_blocks_instruction_in_every_ancestor :
  forall root d tag r,
    blocks_reading root -> descendant root d -> In (IExt tag r) (b_ctx d) -> In (IExt tag r) (b_ctx root).
Proof.
  intros root d tag r Hr Hd. apply ext_included_In. exact (C19_blocks_every_ancestor root d Hr Hd).
Qed.

(** ** The model's output satisfies the READINGS *)
Theorem C19_model_satisfies_readings :
  forall (p : program) (out : output),
    run p = ROk out -> o_errors out = [] ->
    Forall2 order_reading (functions_of p) (o_fns out) /\
    Forall2 types_reading (functions_of p) (o_fns out) /\
    Forall blocks_reading (o_fns out).
Proof.
  intros p out Hrun Hacc. destruct (C19.C19_parts p out Hrun Hacc) as (H1 & H2 & H3).
  split; [exact (proj1 (C19_order_exact p out) H1 Hacc)|].
  split; [exact (proj1 (C19_types_exact p out) H2 Hacc) | exact (proj1 (C19_blocks_exact p out) H3 Hacc)].
Qed.

(** ... on every program admitted by the intended rule set, whatever its error list says *)
Theorem C19_model_satisfies_strict_reading :
  forall (p : program) (out : output),
    run p = ROk out -> wf_b p = true -> C19_strict_reading p out.
Proof.
  intros p out Hrun Hwf. apply C19_strict_exact. exact (C19b.C19_well_formed_strict p out Hrun Hwf).
Qed.

Check C19_model_satisfies_readings :
  forall (p : program) (out : output),
    run p = ROk out -> o_errors out = [] ->
    Forall2 order_reading (functions_of p) (o_fns out) /\
    Forall2 types_reading (functions_of p) (o_fns out) /\
    Forall blocks_reading (o_fns out).

Print Assumptions C19_order_exact.
Print Assumptions C19_types_exact.
Print Assumptions C19_blocks_exact.
Print Assumptions C19_strict_exact.
Print Assumptions C19_model_satisfies_readings.
Print Assumptions C19_model_satisfies_strict_reading.

(** ** A concrete stack

    [fn f() -> i32 { let x = ext#10:i32 + 1; loop { g(ext#11:u8); break; } return x }]
    two leaves, the second one inside a loop body: its instruction is in the loop block's stack
    and in the root's. *)
Module Example.
  Definition i32 : sem_ty := SPrim PI32.
  Definition u8 : sem_ty := SPrim PU8.
  Definition lit (n : Z) : eres := ERes i32 (RPrim (PV PI32 n)).
  Definition x0 : value := Value "x.0" i32 false.
  Definition g : func_sem := Func "g" (SPrim PNone) [u8].
  Definition f : fn_decl :=
    Fn (Id "f" 1 0) [] (TPrim PI32)
       [ SLet (Id "x" 2 0) false None (Expr (EVExt (TPrim PI32) 10) [(OPlus, EVPrim (PV PI32 1))]);
         SLoop [ SCall (Id "g" 3 0) [Expr (EVExt (TPrim PU8) 11) []]; SBreak ];
         SRet (Expr (EVName (Id "x" 4 0)) []) ].
  Definition blk (c : list instr) (ks : list block) : block := Block [] [] [] 0 false c ks.

  Definition body (t : sem_ty) : list instr :=
    [ ISetLabel "loop_begin"; IExt 11 3; ICall g [ERes t (RReg 3)] 4;
      IJumpTo "loop_end"; IJumpTo "loop_begin" ].
  Definition stack (t : sem_ty) : list instr :=
    [ IExt 10 1; IExprOp OPlus (ERes i32 (RReg 1)) (lit 1) 2; ILet x0 (ERes i32 (RReg 2)) ] ++
    body t ++ [ ISetLabel "loop_end"; IExprValue x0 5; IFnRet (ERes i32 (RReg 5)) ].
  Definition root : block := blk (stack u8) [blk (body u8) []].

  Example leaves : leaves_fn f = [(10, TPrim PI32); (11, TPrim PU8)].
  Proof. reflexivity. Qed.

  Example order : order_reading f root.
  Proof. reflexivity. Qed.

  Example types : types_reading f root.
  Proof. apply C19_types_exact_fn. vm_compute. reflexivity. Qed.

  (** (2b) directly, without the monitor *)
  Example once : read_once (b_ctx root).
  Proof.
    intros tag r H. cbn in H.
    repeat (destruct H as [H|H]; [try discriminate H; inversion H; subst; reflexivity|]).
    contradiction.
  Qed.

  (** (3) directly, without the monitor: the loop block's only child list is empty *)
  Example blocks : blocks_reading root.
  Proof.
    constructor. intros k [<-|[]]. split.
    - intros tag r. unfold copies. cbn [b_ctx root blk stack body app filter is_ext].
      destruct (N.eqb tag 10 && N.eqb r 1)%bool, (N.eqb tag 11 && N.eqb r 3)%bool; cbn; repeat constructor.
    - constructor. intros k' [].
  Qed.

  (** Damaged stacks.  (1) The leaves are evaluated in the other order. *)
  Definition swapped : block :=
    blk (map (fun i => match i with
                       | IExt 10 r => IExt 11 r
                       | IExt 11 r => IExt 10 r
                       | _ => i
                       end) (stack u8)) [].
  Example swapped_refused : ~ order_reading f swapped.
  Proof. intro H. vm_compute in H. discriminate H. Qed.

  (** (1') The second leaf is evaluated twice. *)
  Example twice_refused : ~ order_reading f (blk (stack u8 ++ [IExt 11 6]) []).
  Proof. intro H. vm_compute in H. discriminate H. Qed.

  (** (2a) The result of the second leaf is passed on with another type than the leaf's. *)
  Example retyped_refused : ~ types_reading f (blk (stack i32) []).
  Proof. intro H. apply C19_types_exact_fn in H. vm_compute in H. discriminate H. Qed.

  (** (2b) The result of the first leaf is read a second time / never. *)
  Example read_twice_refused :
    ~ types_reading f (blk (stack u8 ++ [IBind x0 (ERes i32 (RReg 1))]) []).
  Proof. intro H. apply C19_types_exact_fn in H. vm_compute in H. discriminate H. Qed.
  Example never_read_refused :
    ~ types_reading f (blk (map (fun i => match i with
                                          | IExprOp o _ r reg => IExprOp o (lit 0) r reg
                                          | _ => i
                                          end) (stack u8)) []).
  Proof. intro H. apply C19_types_exact_fn in H. vm_compute in H. discriminate H. Qed.

  (** (3) The loop block holds an extension instruction its parent lacks. *)
  Example orphan_refused : ~ blocks_reading (blk (stack u8) [blk (body u8 ++ [IExt 12 7]) []]).
  Proof. intro H. apply C19_blocks_exact_tree in H. vm_compute in H. discriminate H. Qed.
End Example.

(** On an output of the model ([p07] of [Spec/DenoteTests.v]: five leaves in three blocks). *)
Example C19_readings_p07 :
  forall out, run DenoteTests.p07 = ROk out ->
    Forall2 order_reading (functions_of DenoteTests.p07) (o_fns out) /\
    Forall2 types_reading (functions_of DenoteTests.p07) (o_fns out) /\
    Forall blocks_reading (o_fns out).
Proof.
  intros out H. apply C19_model_satisfies_readings; [exact H|].
  revert H. vm_compute. intro H. inversion H. reflexivity.
Qed.
