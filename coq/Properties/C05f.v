(** C05f — The register machine is NEVER STUCK, and the strict value-level monitor.

    "For an accepted program, whatever the interpretation of the primitive operations, the
    argument values (as many as the function has parameters) and the fuel, the register machine
    on the emitted stack of a function never ends with a read of a register or of an internal name
    that was not written, a register of the wrong kind, a field index that the struct type of the
    value record does not have, or a missing argument - also on runs that the source semantics
    cannot finish with any fuel (diverging runs)."

    This closes the gap recorded in [Properties/C05c.v].  With the two static lemmas of C05c the
    machine always ends with [VReturned] or [VOutOfFuel], and the generic monitor may require it:
    [Mon/C05s.chk_C05_gen_strict] (instance with fingerprints: [chk_C05hs]).

    Statements only.  Proofs: [Proofs/ValueSimProgress.v] (the decomposition into placed fragments
    of C05c once more, indexed by the fuel of the MACHINE with the source environment existential;
    the loop is an induction on that fuel), [Proofs/ValueSimStrict.v]. *)
From SA Require Import Model.
From SA.Spec Require Import Stack Exec ValueExec.
From SA.Mon Require Import Control C05v C05w C05h C05s.
From SA.Proofs Require Import ValueSimProgress ValueSimStrict.
From SA.Properties Require Import C05c C05e.
Local Open Scope list_scope.

Theorem C05f_machine_never_stuck :
  forall (V : Type) (I : interp V) (p : program) (out : output),
    run p = ROk out -> o_errors out = [] ->
    Forall2 (fun (f : fn_decl) (root : block) =>
               forall (args : list V) (n : nat) (why : stuck),
                 length args = length (fn_params f) ->
                 snd (vflat_exec V I (b_ctx root) args n) <> VStuck why)
            (functions_of p) (o_fns out).
Proof. exact vflat_never_stuck. Qed.

Check C05f_machine_never_stuck :
  forall (V : Type) (I : interp V) (p : program) (out : output),
    run p = ROk out -> o_errors out = [] ->
    Forall2 (fun (f : fn_decl) (root : block) =>
               forall (args : list V) (n : nat) (why : stuck),
                 length args = length (fn_params f) ->
                 snd (vflat_exec V I (b_ctx root) args n) <> VStuck why)
            (functions_of p) (o_fns out).

(** hence (with C05c (B)): the machine returned or ran out of fuel, nothing else *)
Theorem C05f_machine_always_ends_well :
  forall (V : Type) (I : interp V) (p : program) (out : output),
    run p = ROk out -> o_errors out = [] ->
    Forall2 (fun (f : fn_decl) (root : block) =>
               forall (args : list V) (n : nat),
                 length args = length (fn_params f) ->
                 vok (snd (vflat_exec V I (b_ctx root) args n)) = true)
            (functions_of p) (o_fns out).
Proof. exact vflat_always_ok. Qed.

(** the strict generic monitor never fires on the model *)
Theorem C05f_strict_monitor_passes_on_model :
  forall (V : Type) (mk : N -> interp V) (args : nat -> list V),
    (forall salt v, i_eqb (mk salt) v v = true) -> (forall n, length (args n) = n) ->
    forall (salts : list N) (nflat nsrc : nat) (p : program) (out : output),
      run p = ROk out -> o_errors out = [] ->
      chk_C05_gen_strict V mk args salts nflat nsrc p out = true.
Proof. exact chk_C05_gen_strict_on_model. Qed.

Theorem C05f_strict_hash_monitor_passes_on_model :
  forall (salts : list N) (nflat nsrc : nat) (p : program) (out : output),
    run p = ROk out -> o_errors out = [] -> chk_C05hs salts nflat nsrc p out = true.
Proof. exact chk_C05hs_on_model. Qed.

Check C05f_strict_monitor_passes_on_model :
  forall (V : Type) (mk : N -> interp V) (args : nat -> list V),
    (forall salt v, i_eqb (mk salt) v v = true) -> (forall n, length (args n) = n) ->
    forall (salts : list N) (nflat nsrc : nat) (p : program) (out : output),
      run p = ROk out -> o_errors out = [] ->
      chk_C05_gen_strict V mk args salts nflat nsrc p out = true.

Check C05f_strict_hash_monitor_passes_on_model :
  forall (salts : list N) (nflat nsrc : nat) (p : program) (out : output),
    run p = ROk out -> o_errors out = [] -> chk_C05hs salts nflat nsrc p out = true.

Print Assumptions C05f_machine_never_stuck.
Print Assumptions C05f_machine_always_ends_well.
Print Assumptions C05f_strict_monitor_passes_on_model.
Print Assumptions C05f_strict_hash_monitor_passes_on_model.

(** ** Examples, by computation *)
Definition c05f_salts : list N := [1; 8; 15; 22]%N.

Example C05f_example :
  match run C05c_program with
  | ROk out => o_errors out = [] /\ chk_C05hs c05f_salts 1200 300 C05c_program out = true
  | _ => False
  end.
Proof. vm_compute. split; reflexivity. Qed.

Example C05f_damaged_operands :
  match run C05c_program with
  | ROk out =>
      chk_C05hs c05f_salts 1200 300 C05c_program (c05c_damage (c05c_map_first c05c_swap_minus) out) = false
  | _ => False
  end.
Proof. vm_compute. reflexivity. Qed.

(** What the strict monitor adds: a stack on which the machine is stuck while the source cannot
    finish.  In the loop without exit of [Properties/C05e.v] the first read of [a] (it is inside the loop)
    is made to read an internal name that nothing writes: the machine is stuck at once, the source
    (which does not return) only runs out of fuel, the traces are prefixes of one another - the
    monitor of C05e has nothing to object to, the strict monitor fires. *)
Definition c05f_misname (i : instr) : option instr :=
  match i with
  | IExprValue (Value "a.0" t m) r => Some (IExprValue (Value "nobody" t m) r)
  | _ => None
  end.
Example C05f_stuck_on_a_diverging_run :
  match run C05e_doubling_forever with
  | ROk out =>
      let out' := c05c_damage (c05c_map_first c05f_misname) out in
      chk_C05h c05f_salts 3000 300 C05e_doubling_forever out' = true /\
      chk_C05hs c05f_salts 3000 300 C05e_doubling_forever out' = false /\
      chk_C05hs c05f_salts 3000 300 C05e_doubling_forever out = true
  | _ => False
  end.
Proof. vm_compute. repeat split; reflexivity. Qed.
