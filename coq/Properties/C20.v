(** C20 — With the serialisation feature enabled, serialising any AST, any produced instruction
    stack and any error list and deserialising the result yields a value equal to the original,
    re-serialising gives the same tree, and analysing the deserialised AST produces the same
    result (error kinds, identifiers and locations, tables, stacks) as analysing the original.

    Statements only; definitions are in [Spec/Json.v], [Spec/Codec.v], proofs in
    [Proofs/CodecRT.v].  PARTIAL by construction: the statements are about JSON TREES
    ([serde_json::Value]); serde_json's text layer (number and float formatting, string escaping)
    is not modelled — floats and chars are opaque leaves ([JFloat32]/[JFloat64]/[JChar]).  The
    modelling decisions D1–D6 are listed at the top of [Spec/Codec.v]. *)
From SA Require Import Model.
From SA.Spec Require Import Json Codec.
From SA.Proofs Require Import CodecRT.
Local Open Scope list_scope.

(** Every AST survives the codec. *)
Theorem C20_program_roundtrip :
  forall p : program, dec_program (enc_program p) = Some p.
Proof. exact program_roundtrip. Qed.

(** Every function-level instruction stack survives the codec. *)
Theorem C20_stack_roundtrip :
  forall c : list instr, dec_stack (enc_stack c) = Some c.
Proof. exact stack_roundtrip. Qed.

(** Every error list survives the codec (the side condition singles out the lists whose texts the
    model specifies; on those the tree is the one serde builds). *)
Theorem C20_errors_roundtrip :
  forall es : list err,
    (forall e, In e es -> e_val e <> None) -> dec_errors (enc_errors es) = Some es.
Proof. exact errors_roundtrip. Qed.

(** Analysing the decoded AST is analysing the original: [run_result] contains the error list,
    the three tables, the global stack and every function's block tree with its stack. *)
Theorem C20_analysis_after_roundtrip :
  forall p : program, option_map run (dec_program (enc_program p)) = Some (run p).
Proof. exact analysis_after_roundtrip. Qed.

(** Re-serialising what was decoded gives the same tree. *)
Theorem C20_program_reserialise :
  forall p : program,
    option_map enc_program (dec_program (enc_program p)) = Some (enc_program p).
Proof. exact program_reserialise. Qed.

Theorem C20_stack_reserialise :
  forall c : list instr, option_map enc_stack (dec_stack (enc_stack c)) = Some (enc_stack c).
Proof. exact stack_reserialise. Qed.

Theorem C20_errors_reserialise :
  forall es : list err,
    option_map enc_errors (dec_errors (enc_errors es)) = Some (enc_errors es).
Proof. exact errors_reserialise. Qed.

(** The global stack, at the level the model keeps it: [Types] and [Constant] exactly,
    [FunctionDeclaration] WITHOUT the ["body"] member (the body mirror is not part of the model,
    DESIGN.md 4.6). *)
Theorem C20_global_stack_roundtrip_modulo_body :
  forall c : list ginstr, dec_gstack (enc_gstack c) = Some c.
Proof. exact gstack_roundtrip. Qed.

Check C20_program_roundtrip :
  forall p : program, dec_program (enc_program p) = Some p.
Check C20_stack_roundtrip :
  forall c : list instr, dec_stack (enc_stack c) = Some c.
Check C20_errors_roundtrip :
  forall es : list err,
    (forall e, In e es -> e_val e <> None) -> dec_errors (enc_errors es) = Some es.
Check C20_analysis_after_roundtrip :
  forall p : program, option_map run (dec_program (enc_program p)) = Some (run p).
Check C20_program_reserialise :
  forall p : program,
    option_map enc_program (dec_program (enc_program p)) = Some (enc_program p).
Check C20_stack_reserialise :
  forall c : list instr, option_map enc_stack (dec_stack (enc_stack c)) = Some (enc_stack c).
Check C20_errors_reserialise :
  forall es : list err,
    option_map enc_errors (dec_errors (enc_errors es)) = Some (enc_errors es).
Check C20_global_stack_roundtrip_modulo_body :
  forall c : list ginstr, dec_gstack (enc_gstack c) = Some c.

Print Assumptions C20_program_roundtrip.
Print Assumptions C20_stack_roundtrip.
Print Assumptions C20_errors_roundtrip.
Print Assumptions C20_analysis_after_roundtrip.
Print Assumptions C20_program_reserialise.
Print Assumptions C20_stack_reserialise.
Print Assumptions C20_errors_reserialise.
Print Assumptions C20_global_stack_roundtrip_modulo_body.

(** ** A concrete program: a struct, a constant, an if / else-if / else, a loop with break, a call
    and an extension leaf. *)
Definition ex_v : ident := Id "v" 6 8.
Definition ex_lit (n : Z) : expr := Expr (EVPrim (PV PU8 n)) [].

Definition ex_program : program :=
  [ TImport [Id "std" 1 4; Id "io" 1 9];
    TStructDecl (Id "P" 2 7) [(Id "x" 2 11, TPrim PU8); (Id "ok" 2 18, TPrim PBool)];
    TConst (Id "K" 3 6) (TPrim PU8)
           (CExpr (CVal (PV PU8 3)) [(OMultiply, CVal (PV PU8 2)); (OPlus, CConst (Id "K" 3 24))]);
    TFn (Fn (Id "g" 4 3) [(Id "a" 4 5, TPrim PU8)] (TPrim PU8)
            [SRet (Expr (EVName (Id "a" 4 22)) [(OPlus, EVName (Id "K" 4 26))])]);
    TFn (Fn (Id "f" 5 3) [(Id "p" 5 5, TStruct (Id "P" 5 8) [(Id "x" 2 11, TPrim PU8);
                                                            (Id "ok" 2 18, TPrim PBool)])]
            (TPrim PU8)
            [ SLet ex_v true (Some (TPrim PU8))
                   (Expr (EVCall (Id "g" 6 16) [ex_lit 1])
                         [(OPlus, EVExt (TPrim PU8) 7); (OMultiply, EVField (Id "p" 6 30) (Id "x" 6 32))]);
              SIf (IfS (CLogic (LC (Expr (EVName ex_v) []) CLess (ex_lit 9)
                                   (Some (LAnd, LC (Expr (EVSub (ex_lit 2)) []) CNotEq (ex_lit 3) None))))
                       (IBIf [SBind ex_v (ex_lit 4)])
                       None
                       (Some (IfS (CSingle (Expr (EVPrim (PV PBool 1)) []))
                                  (IBIf [SCall (Id "g" 9 8) [Expr (EVName ex_v) []]])
                                  (Some (IBIf [SLet (Id "w" 11 12) false None
                                                    (Expr (EVPrim (PV PF64 4607182418800017408)) []);
                                               SLet (Id "c" 12 12) false (Some (TPrim PChar))
                                                    (Expr (EVPrim (PV PChar 955)) [])]))
                                  None)));
              SLoop [ SIf (IfS (CSingle (Expr (EVPrim (PV PBool 0)) []))
                               (IBLoop [SBreak]) None None);
                      SContinue ];
              SExprStmt (Expr (EVName ex_v) []) ]) ].

Example C20_example_program_roundtrip :
  dec_program (enc_program ex_program) = Some ex_program.
Proof. vm_compute; reflexivity. Qed.

Example C20_example_analysis_after_roundtrip :
  option_map run (dec_program (enc_program ex_program)) = Some (run ex_program).
Proof. vm_compute; reflexivity. Qed.

(** The analysis of the example terminates with an output, and every error list and every
    stack it produces (root blocks of all functions) survives the codec. *)
Example C20_example_output_roundtrip :
  match run ex_program with
  | ROk o =>
      dec_errors (enc_errors (o_errors o)) = Some (o_errors o) /\
      dec_gstack (enc_gstack (o_gstack o)) = Some (o_gstack o) /\
      map (fun b => dec_stack (enc_stack (b_ctx b))) (o_fns o) =
      map (fun b => Some (b_ctx b)) (o_fns o) /\
      (length (o_fns o) = 2)%nat
  | _ => False
  end.
Proof. vm_compute. repeat split; reflexivity. Qed.

(** A rejected program: its error list as a tree, and back. *)
Definition ex_bad : program :=
  [TFn (Fn (Id "h" 1 3) [] (TPrim PU8) [SRet (Expr (EVName (Id "zz" 2 9)) [])])].

Example C20_example_errors_roundtrip :
  match run ex_bad with
  | ROk o =>
      enc_errors (o_errors o) =
      JArr [JObj [("kind", JObj [("type", JStr "ValueNotFound")]); ("value", JStr "zz");
                  ("location", JArr [JNum 2; JNum 9])];
            JObj [("kind", JObj [("type", JStr "ReturnNotFound")]); ("value", JStr "");
                  ("location", JArr [JNum 1; JNum 3])]] /\
      dec_errors (enc_errors (o_errors o)) = Some (o_errors o)
  | _ => False
  end.
Proof. vm_compute. split; reflexivity. Qed.

(** ** Shape pins: concrete trees to compare with [serde_json::to_value] *)
Example C20_shape_ident :
  enc_ident (Id "v" 6 8) =
  JObj [("offset", JNum 8); ("line", JNum 6); ("fragment", JStr "v"); ("extra", JNull)].
Proof. vm_compute; reflexivity. Qed.

Example C20_shape_let_binding :
  enc_stmt (SLet (Id "w" 1 0) false None (Expr (EVPrim (PV PBool 1)) [(OAnd, EVExt (TPrim PU8) 7)])) =
  JObj [("type", JStr "LetBinding");
        ("content",
          JObj [("type", JStr "LetBinding");
                ("name", JObj [("offset", JNum 0); ("line", JNum 1); ("fragment", JStr "w");
                               ("extra", JNull)]);
                ("mutable", JBool false);
                ("value_type", JNull);
                ("value",
                  JObj [("expression_value",
                          JObj [("type", JStr "PrimitiveValue");
                                ("content", JObj [("type", JStr "Bool"); ("content", JBool true)])]);
                        ("operation",
                          JArr [JObj [("type", JStr "And")];
                                JObj [("expression_value",
                                        JObj [("type", JStr "ExtendedExpression");
                                              ("content",
                                                JObj [("ty", JObj [("type", JStr "Primitive");
                                                                   ("content", JObj [("type", JStr "U8")])]);
                                                      ("tag", JNum 7)])]);
                                      ("operation", JNull)]])])])].
Proof. vm_compute; reflexivity. Qed.

Example C20_shape_struct_type :
  enc_sem_ty (sem_of_ty (TStruct (Id "P" 2 7) [(Id "x" 2 11, TPrim PU8); (Id "ok" 2 18, TPrim PBool)])) =
  JObj [("type", JStr "Struct");
        ("content",
          JObj [("name", JStr "P");
                ("attributes",
                  JObj [("x", JObj [("attr_name", JStr "x"); ("attr_index", JNum 0);
                                    ("attr_type", JObj [("type", JStr "Primitive");
                                                        ("content", JObj [("type", JStr "U8")])])]);
                        ("ok", JObj [("attr_name", JStr "ok"); ("attr_index", JNum 1);
                                     ("attr_type", JObj [("type", JStr "Primitive");
                                                         ("content", JObj [("type", JStr "Bool")])])])]);
                ("methods", JObj [])])].
Proof. vm_compute; reflexivity. Qed.

Example C20_shape_instr :
  enc_stack [IExprValue (Value "v.0" (SPrim PU8) true) 1; ISetLabel "if_begin"; IExt 7 2;
             ILet (Value "w.0" (SArray (SPrim PI32) 4) false) (ERes (SPrim PU8) (RReg 2))] =
  JArr [JObj [("type", JStr "ExpressionValue");
              ("content",
                JObj [("expression",
                        JObj [("inner_name", JStr "v.0");
                              ("inner_type", JObj [("type", JStr "Primitive");
                                                   ("content", JObj [("type", JStr "U8")])]);
                              ("mutable", JBool true); ("alloca", JBool false);
                              ("malloc", JBool false)]);
                      ("register_number", JNum 1)])];
        JObj [("type", JStr "SetLabel"); ("content", JObj [("label", JStr "if_begin")])];
        JObj [("type", JStr "ExtendedExpression");
              ("content", JObj [("type", JStr "Mark");
                                ("content", JObj [("tag", JNum 7); ("reg", JNum 2)])])];
        JObj [("type", JStr "LetBinding");
              ("content",
                JObj [("let_decl",
                        JObj [("inner_name", JStr "w.0");
                              ("inner_type",
                                JObj [("type", JStr "Array");
                                      ("content",
                                        JArr [JObj [("type", JStr "Primitive");
                                                    ("content", JObj [("type", JStr "I32")])];
                                              JNum 4])]);
                              ("mutable", JBool false); ("alloca", JBool false);
                              ("malloc", JBool false)]);
                      ("expr_result",
                        JObj [("expr_type", JObj [("type", JStr "Primitive");
                                                  ("content", JObj [("type", JStr "U8")])]);
                              ("expr_value", JObj [("type", JStr "Register");
                                                   ("content", JNum 2)])])])]].
Proof. vm_compute; reflexivity. Qed.

Example C20_shape_error :
  enc_errors [Err EValueNotFound (Some "x") (3, 14)] =
  JArr [JObj [("kind", JObj [("type", JStr "ValueNotFound")]); ("value", JStr "x");
              ("location", JArr [JNum 3; JNum 14])]].
Proof. vm_compute; reflexivity. Qed.

(** Strictness: a wrong tag, a wrong field name, a missing or an extra member are rejected. *)
Example C20_strict_wrong_tag :
  dec_stmt (JObj [("type", JStr "Brake")]) = None.
Proof. vm_compute; reflexivity. Qed.
Example C20_strict_wrong_field :
  dec_ident (JObj [("offset", JNum 8); ("line", JNum 6); ("fragmen", JStr "v"); ("extra", JNull)])
  = None.
Proof. vm_compute; reflexivity. Qed.
Example C20_strict_extra_member :
  dec_instr (JObj [("type", JStr "SetLabel");
                   ("content", JObj [("label", JStr "l"); ("more", JNull)])]) = None.
Proof. vm_compute; reflexivity. Qed.
Example C20_strict_alloca :
  dec_value (JObj [("inner_name", JStr "v.0");
                   ("inner_type", JObj [("type", JStr "Primitive"); ("content", JObj [("type", JStr "U8")])]);
                   ("mutable", JBool true); ("alloca", JBool true); ("malloc", JBool false)]) = None.
Proof. vm_compute; reflexivity. Qed.
