(** C06, read as a relation between denotation trees and source expressions.  Statements only:
    the relations are defined in [Spec/Readings06.v] (which does not mention tokens), the proofs
    are in [Proofs/Readings06.v].

    [Denotes sm D NM sc d e]      : the tree [d] read back from the stack is the expression [e]
                                    modulo bracketing (same leaves, same operators, same order;
                                    calls pointwise; brackets transparent);
    [DenotesCond sm D NM sc d c]  : the same for a logic condition;
    [SiteDenotes sm D NM u s]     : a use site of the stack against a use site of the source;
    [fn_reading sm f root]        : the stack declares as many values as the source and its use
                                    sites are, one by one, those of the source ([fn_ssites]);
    [sm = false]: the reading of [chk_C06]; [sm = true]: of [chk_C06_scoped]. *)
From SA Require Import Model.
From SA.Spec Require Import Stack Readings06.
From SA.Mon Require Import C06.
From SA.Proofs Require Import DenoteEnv Readings06.
From SA.Properties Require C06.
From SA.Spec Require DenoteTests.
Local Open Scope list_scope.

(** ** One use site: the token comparison of the monitor decides the relation *)
Theorem C06_tokens_exact :
  forall sm D NM sc (d : dt) (e : expr),
    toks_eqb sm (tk D NM d) (etoks D sc e) = true <-> Denotes sm D NM sc d e.
Proof. exact toks_eqb_Denotes. Qed.

Theorem C06_condition_tokens_exact :
  forall sm D NM sc (d : dt) (c : lcond),
    toks_eqb sm (tk D NM d) (lcond_toks D sc c []) = true <-> DenotesCond sm D NM sc d c.
Proof. exact toks_eqb_DenotesCond. Qed.

(** [tokenise D s]: the expected site the monitor computes for the source site [s] *)
Theorem C06_site_exact :
  forall sm D NM (u : usite) (s : ssite),
    site_eqb sm D NM u (tokenise D s) = true <-> SiteDenotes sm D NM u s.
Proof. exact site_eqb_reading. Qed.

(** the expected sites of the monitor are the tokens of the source sites of the reading *)
Theorem C06_source_sites :
  forall D (f : fn_decl), map (tokenise D) (fn_ssites f) = fn_sites D f.
Proof. exact fn_ssites_eq. Qed.

(** ** Functions and programs *)
Theorem C06_monitor_exact_fn :
  forall sm (f : fn_decl) (root : block), chk_C06_fn sm f root = true <-> fn_reading sm f root.
Proof. exact chk_C06_fn_reading. Qed.

Theorem C06_monitor_exact :
  forall (p : program) (o : output), chk_C06 p o = true <-> C06_reading false p o.
Proof. exact chk_C06_reading. Qed.

Theorem C06_scoped_monitor_exact :
  forall (p : program) (o : output), chk_C06_scoped p o = true <-> C06_reading true p o.
Proof. exact chk_C06_scoped_reading. Qed.

Check C06_tokens_exact :
  forall sm D NM sc (d : dt) (e : expr),
    toks_eqb sm (tk D NM d) (etoks D sc e) = true <-> Denotes sm D NM sc d e.
Check C06_monitor_exact :
  forall (p : program) (o : output), chk_C06 p o = true <-> C06_reading false p o.
Check C06_scoped_monitor_exact :
  forall (p : program) (o : output), chk_C06_scoped p o = true <-> C06_reading true p o.

(** ** The reading does not see bracketing *)
Theorem C06_brackets_transparent :
  forall sm D NM sc d e, Denotes sm D NM sc d (Expr (EVSub e) []) <-> Denotes sm D NM sc d e.
Proof. exact Denotes_brackets. Qed.

Theorem C06_brackets_transparent_in_chain :
  forall sm D NM sc d v rest o v' rest',
    Denotes sm D NM sc d (Expr v (rest ++ [(o, EVSub (Expr v' rest'))])) <->
    Denotes sm D NM sc d (Expr v (rest ++ (o, v') :: rest')).
Proof. exact Denotes_brackets_link. Qed.

Theorem C06_tree_nesting_invisible :
  forall sm D NM sc o1 o2 a b c e,
    Denotes sm D NM sc (DOp o1 (DOp o2 a b) c) e <-> Denotes sm D NM sc (DOp o2 a (DOp o1 b c)) e.
Proof. exact Denotes_reassociate. Qed.

Theorem C06_operation_rule :
  forall sm D NM sc o l r v1 rest1 v2 rest2,
    Denotes sm D NM sc l (Expr v1 rest1) -> Denotes sm D NM sc r (Expr v2 rest2) ->
    Denotes sm D NM sc (DOp o l r) (Expr v1 (rest1 ++ (o, v2) :: rest2)).
Proof. exact Denotes_operation. Qed.

(** ** The model's output satisfies the READING *)
Theorem C06_model_satisfies_reading :
  forall (p : program) (out : output),
    run p = ROk out -> o_errors out = [] ->
    Forall2 (fn_reading false) (functions_of p) (o_fns out).
Proof.
  intros p out Hrun Hacc.
  exact (proj1 (C06_monitor_exact p out) (C06.C06_denotes_source p out Hrun Hacc) Hacc).
Qed.

Theorem C06_model_satisfies_scoped_reading :
  forall (p : program) (out : output),
    run p = ROk out -> o_errors out = [] ->
    Forall2 (fn_reading true) (functions_of p) (o_fns out).
Proof.
  intros p out Hrun Hacc.
  exact (proj1 (C06_scoped_monitor_exact p out) (C06.C06_denotes_source_scoped p out Hrun Hacc) Hacc).
Qed.

Check C06_model_satisfies_reading :
  forall (p : program) (out : output),
    run p = ROk out -> o_errors out = [] ->
    Forall2 (fn_reading false) (functions_of p) (o_fns out).

Print Assumptions C06_tokens_exact.
Print Assumptions C06_condition_tokens_exact.
Print Assumptions C06_site_exact.
Print Assumptions C06_monitor_exact.
Print Assumptions C06_scoped_monitor_exact.
Print Assumptions C06_model_satisfies_reading.
Print Assumptions C06_model_satisfies_scoped_reading.

(** ** A concrete tree and a concrete expression

    the stack declares [a] (parameter, internal name "a.0") and [x] ("x.0"); the source reads
    [a + (g(1, ext#7) * K) - x] where the analyzer's tree nests  [(a + (g(..) * K)) - x]. *)
Module Example.
  Definition D : list (string * sem_ty) := [("a.0", SPrim PI32); ("x.0", SPrim PI32)].
  Definition NM : list string := ["a"; "x"].
  Definition sc : scope := [("x", 1); ("a", 0)].
  Definition id (s : string) : ident := Id s 1 0.
  Definition one : prim_val := PV PI32 1.

  Definition tree : dt :=
    DOp OMinus
        (DOp OPlus (DRead "a.0") (DOp OMultiply (DCall "g" [DLit one; DExt 7]) (DConst "K")))
        (DRead "x.0").

  Definition source : expr :=
    Expr (EVName (id "a"))
         [ (OPlus, EVSub (Expr (EVCall (id "g") [Expr (EVPrim one) []; Expr (EVExt (TPrim PI32) 7) []])
                               [(OMultiply, EVName (id "K"))]));
           (OMinus, EVName (id "x")) ].

  (** rule by rule, without the monitor *)
  Ltac leaf :=
    match goal with
    | |- DenLeaf _ _ _ _ (DLit _) _ => apply DL_literal
    | |- DenLeaf _ _ _ _ (DExt _) _ => apply DL_extension
    | |- DenLeaf _ _ _ _ (DRead _) _ =>
        eapply DL_read; [split; reflexivity | intros _; reflexivity]
    | |- DenLeaf _ _ _ _ (DConst _) (EVName ?x) =>
        apply (DL_constant _ _ _ _ x); intros _; reflexivity
    end.
  Ltac denotes :=
    apply Den_sequence; cbn [dflat eflat vflat flat_map app fst snd];
    repeat (first [ apply Forall2_nil
                  | apply Forall2_cons
                  | apply DI_operator
                  | apply DI_leaf; leaf ]).

  Example tree_denotes_source : Denotes true D NM sc tree source.
  Proof.
    denotes. apply DI_leaf. apply (DL_call _ _ _ _ (id "g")).
    constructor; [denotes | constructor; [denotes | constructor]].
  Qed.

  (** the monitor agrees, in both modes *)
  Example tokens_agree :
    toks_eqb true (tk D NM tree) (etoks D sc source) = true /\
    toks_eqb false (tk D NM tree) (etoks D sc source) = true.
  Proof. vm_compute. split; reflexivity. Qed.

  (** Damaged trees.  (1) The operands of the subtraction are exchanged. *)
  Definition swapped : dt :=
    match tree with DOp o l r => DOp o r l | t => t end.
  Example swapped_refused : ~ Denotes false D NM sc swapped source.
  Proof. intro H. apply C06_tokens_exact in H. vm_compute in H. discriminate H. Qed.

  (** (2) The call lost its second argument. *)
  Definition short_call : dt :=
    DOp OMinus (DOp OPlus (DRead "a.0") (DOp OMultiply (DCall "g" [DLit one]) (DConst "K")))
        (DRead "x.0").
  Example short_call_refused : ~ Denotes false D NM sc short_call source.
  Proof. intro H. apply C06_tokens_exact in H. vm_compute in H. discriminate H. Qed.

  (** (3) An operand names a register nothing defined. *)
  Definition unknown : dt :=
    DOp OMinus (DOp OPlus (DRead "a.0") (DOp OMultiply (DUnknown 9) (DConst "K"))) (DRead "x.0").
  Example unknown_refused : ~ Denotes false D NM sc unknown source.
  Proof. intro H. apply C06_tokens_exact in H. vm_compute in H. discriminate H. Qed.

  (** (4) Scoping: in a scope where an inner [let a] (declaration 2) shadows the parameter, the
      read of "a.0" is accepted by name and refused by the scoped reading. *)
  Definition sc' : scope := ("a", 2) :: sc.
  Example shadowed :
    Denotes false D NM sc' tree source /\ ~ Denotes true D NM sc' tree source.
  Proof.
    split.
    - apply C06_tokens_exact. vm_compute. reflexivity.
    - intro H. apply C06_tokens_exact in H. vm_compute in H. discriminate H.
  Qed.

  (** a logic condition: [a < 1 && x == a] *)
  Definition ctree : dt :=
    DLogic LAnd (DCmp CLess (DRead "a.0") (DLit one)) (DCmp CEq (DRead "x.0") (DRead "a.0")).
  Definition csource : lcond :=
    LC (Expr (EVName (id "a")) []) CLess (Expr (EVPrim one) [])
       (Some (LAnd, LC (Expr (EVName (id "x")) []) CEq (Expr (EVName (id "a")) []) None)).
  Example condition_denotes : DenotesCond true D NM sc ctree csource.
  Proof. apply DC_link; [denotes | denotes | apply DC_last; denotes]. Qed.
  Example condition_damaged :
    ~ DenotesCond true D NM sc (DCmp CLess (DRead "a.0") (DLit one)) csource.
  Proof. intro H. inversion H. Qed.
End Example.

(** On an output of the model ([p01] of [Spec/DenoteTests.v]: a chain over four priority levels
    with calls, field reads, explicit brackets, extension leaves and constants). *)
Example C06_reading_p01 :
  forall out, run DenoteTests.p01 = ROk out ->
    Forall2 (fn_reading true) (functions_of DenoteTests.p01) (o_fns out).
Proof.
  intros out H. apply C06_model_satisfies_scoped_reading; [exact H|].
  revert H. vm_compute. intro H. inversion H. reflexivity.
Qed.
