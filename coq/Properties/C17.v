(** C17 — Function bodies are analysed independently of each other.
    Statements only; proofs are in [Proofs/Driver.v]. *)
From SA Require Import Model.
From SA.Proofs Require Import Driver.
Local Open Scope list_scope.

(** The analysis of a function body only appends to the threaded error list and never reads it:
    on the error list [e0] it does what it does on the empty list, with [e0] in front. *)
Theorem C17_function_body_frame :
  forall (G : globals) (e0 : list err) (f : fn_decl),
    match function_body G [] f, function_body G e0 f with
    | Ok _ s, Ok _ s' => frames s' = frames s /\ errs s' = e0 ++ errs s
    | Panic k, Panic k' => k = k'
    | OutOfFuel, OutOfFuel => True
    | _, _ => False
    end.
Proof. exact function_body_frame. Qed.

(** The program's error list is the declaration-phase errors followed by each function's own body
    errors in source order; the root blocks are each function's own, in source order.
    [body_errors G f] and [body_root G f] are functions of the globals and of [f] alone. *)
Theorem C17_errors_decomposition :
  forall (p : program) (out : output),
    run p = ROk out ->
    o_errors out = gs_errs (declarations p) ++
                   concat (map (body_errors (gs_globals (declarations p))) (functions_of p)) /\
    o_fns out = map (body_root (gs_globals (declarations p))) (functions_of p).
Proof. exact run_errors_decomposition. Qed.

(** Two programs with the same global declarations and the same function at position [i]:
    the same root block (instruction stack and block tree) and the same body errors. *)
Theorem C17_function_independent :
  forall (p p' : program) (out out' : output) (i : nat) (f : fn_decl),
    gs_globals (declarations p) = gs_globals (declarations p') ->
    nth_error (functions_of p) i = Some f ->
    nth_error (functions_of p') i = Some f ->
    run p = ROk out -> run p' = ROk out' ->
    nth_error (o_fns out) i = Some (body_root (gs_globals (declarations p)) f) /\
    nth_error (o_fns out') i = nth_error (o_fns out) i /\
    body_errors (gs_globals (declarations p')) f = body_errors (gs_globals (declarations p)) f.
Proof. exact run_function_independent. Qed.

(** The declaration phase does not look at function bodies ... *)
Theorem C17_declarations_ignore_bodies :
  forall p p' : program, Forall2 same_header p p' -> declarations p = declarations p'.
Proof. exact declarations_ignore_bodies. Qed.

(** ... so replacing the bodies of all other functions by arbitrary bodies leaves a function's
    root block and body errors, the global tables, the global stack and the declaration-phase
    errors unchanged. *)
Theorem C17_other_bodies_irrelevant :
  forall (p p' : program) (out out' : output) (i : nat) (f : fn_decl),
    Forall2 same_header p p' ->
    nth_error (functions_of p) i = Some f ->
    nth_error (functions_of p') i = Some f ->
    run p = ROk out -> run p' = ROk out' ->
    let G := gs_globals (declarations p) in
    let D := gs_errs (declarations p) in
    o_globals out' = o_globals out /\ o_gstack out' = o_gstack out /\
    nth_error (o_fns out') i = nth_error (o_fns out) i /\
    nth_error (o_fns out) i = Some (body_root G f) /\
    o_errors out = D ++ concat (map (body_errors G) (functions_of p)) /\
    o_errors out' = D ++ concat (map (body_errors G) (functions_of p')).
Proof. exact run_other_bodies_irrelevant. Qed.

Check C17_function_body_frame :
  forall (G : globals) (e0 : list err) (f : fn_decl),
    match function_body G [] f, function_body G e0 f with
    | Ok _ s, Ok _ s' => frames s' = frames s /\ errs s' = e0 ++ errs s
    | Panic k, Panic k' => k = k'
    | OutOfFuel, OutOfFuel => True
    | _, _ => False
    end.

Check C17_errors_decomposition :
  forall (p : program) (out : output),
    run p = ROk out ->
    o_errors out = gs_errs (declarations p) ++
                   concat (map (body_errors (gs_globals (declarations p))) (functions_of p)) /\
    o_fns out = map (body_root (gs_globals (declarations p))) (functions_of p).

Check C17_function_independent :
  forall (p p' : program) (out out' : output) (i : nat) (f : fn_decl),
    gs_globals (declarations p) = gs_globals (declarations p') ->
    nth_error (functions_of p) i = Some f ->
    nth_error (functions_of p') i = Some f ->
    run p = ROk out -> run p' = ROk out' ->
    nth_error (o_fns out) i = Some (body_root (gs_globals (declarations p)) f) /\
    nth_error (o_fns out') i = nth_error (o_fns out) i /\
    body_errors (gs_globals (declarations p')) f = body_errors (gs_globals (declarations p)) f.

Check C17_other_bodies_irrelevant :
  forall (p p' : program) (out out' : output) (i : nat) (f : fn_decl),
    Forall2 same_header p p' ->
    nth_error (functions_of p) i = Some f ->
    nth_error (functions_of p') i = Some f ->
    run p = ROk out -> run p' = ROk out' ->
    let G := gs_globals (declarations p) in
    let D := gs_errs (declarations p) in
    o_globals out' = o_globals out /\ o_gstack out' = o_gstack out /\
    nth_error (o_fns out') i = nth_error (o_fns out) i /\
    nth_error (o_fns out) i = Some (body_root G f) /\
    o_errors out = D ++ concat (map (body_errors G) (functions_of p)) /\
    o_errors out' = D ++ concat (map (body_errors G) (functions_of p')).

(** ** Not vacuous: the bodies of [g] and of the second [f] are replaced; both programs are
    analysed, [f] keeps its root block, the other root blocks and the error lists differ. *)
Definition ex_u8 : ast_ty := TPrim PU8.
Definition ex_var (x : string) (l o : N) : expr := Expr (EVName (Id x l o)) [].

Definition C17_example_with (g_body f2_body : list stmt) : program :=
  [ TStructDecl (Id "S" 1 0) [(Id "a" 1 1, ex_u8)];
    TConst (Id "c1" 2 0) ex_u8 (CExpr (CVal (PV PU8 1)) []);
    TConst (Id "c2" 3 0) ex_u8 (CExpr (CConst (Id "c1" 3 1)) [(OPlus, CConst (Id "c1" 3 2))]);
    TFn (Fn (Id "f" 4 0) [(Id "x" 4 1, ex_u8)] ex_u8 [SRet (ex_var "x" 5 0)]);
    TFn (Fn (Id "g" 6 0) [(Id "s" 6 1, TStruct (Id "S" 6 2) [(Id "a" 6 3, ex_u8)])] ex_u8 g_body);
    TFn (Fn (Id "f" 9 0) [] ex_u8 f2_body);
    TStructDecl (Id "S" 12 0) [] ].

Definition C17_example_p : program :=
  C17_example_with
    [SLet (Id "y" 7 0) false None
          (Expr (EVName (Id "c2" 7 1)) [(OPlus, EVField (Id "s" 7 2) (Id "a" 7 3))]);
     SRet (ex_var "y" 8 0)]
    [SRet (ex_var "zz" 10 0)].
Definition C17_example_p' : program :=
  C17_example_with
    [SLoop [SBreak]; SRet (ex_var "nope" 8 0)]
    [SRet (ex_var "c1" 10 0)].

Example C17_example :
  exists f out out',
    Forall2 same_header C17_example_p C17_example_p' /\
    nth_error (functions_of C17_example_p) 0 = Some f /\
    nth_error (functions_of C17_example_p') 0 = Some f /\
    run C17_example_p = ROk out /\ run C17_example_p' = ROk out' /\
    nth_error (o_fns out') 0 = nth_error (o_fns out) 0 /\
    option_map (fun b => length (b_ctx b)) (nth_error (o_fns out) 1) <>
      option_map (fun b => length (b_ctx b)) (nth_error (o_fns out') 1) /\
    map e_val (o_errors out) <> map e_val (o_errors out').
Proof.
  eexists. eexists. eexists.
  split; [repeat first [apply Forall2_nil | apply Forall2_cons; [cbn; repeat split; reflexivity|]]|].
  split; [vm_compute; reflexivity|]. split; [vm_compute; reflexivity|].
  split; [vm_compute; reflexivity|]. split; [vm_compute; reflexivity|].
  split; [vm_compute; reflexivity|].
  split; vm_compute; intro H; discriminate H.
Qed.

Print Assumptions C17_function_body_frame.
Print Assumptions C17_errors_decomposition.
Print Assumptions C17_function_independent.
Print Assumptions C17_declarations_ignore_bodies.
Print Assumptions C17_other_bodies_irrelevant.
Print Assumptions C17_example.
