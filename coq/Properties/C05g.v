(** C05g — Control flow and data, the INTENDED source semantics outside the class of finding F5.

    [Properties/C05c.v] states the value-level simulation for the source semantics WITH the
    recorded finding F5 ([quirk = true]).  As [Properties/C05b.v] does for the data-abstract
    statement, this file closes the gap from the other side: on the decidable class
    [IntendedFlow.tail_ifs] ("in every if / else / else-if body, at any depth, an [if] statement
    may only be the LAST statement of that body")
    - the two source semantics with values are the same function
      ([C05g_quirk_is_intended_outside_K_F5]),
    - hence, in an accepted program all of whose functions are in the class, the register machine
      on the stack of every function agrees - WITH DATA - with the INTENDED evaluation of its
      source statements ([C05g_value_simulation_intended]).
    The hypothesis cannot be dropped ([C05g_F5_with_data]).

    Statements only.  Proofs: [Proofs/ValueSimIntended.v] (from [Proofs/ValueSim.v]). *)
From SA Require Import Model.
From SA.Spec Require Import Stack Exec ValueExec.
From SA.Mon Require Import Control C05h.
From SA.Proofs Require Import IntendedFlow ValueSim ValueSimIntended.
From SA.Properties Require Import C05c.
Local Open Scope list_scope.

Theorem C05g_quirk_is_intended_outside_K_F5 :
  forall (V : Type) (I : interp V) (f : fn_decl),
    tail_ifs (fn_body f) = true ->
    forall (args : list V) (n : nat),
      vstruct_exec V I true f args n = vstruct_exec V I false f args n.
Proof. exact vstruct_exec_quirk_irrelevant. Qed.

Theorem C05g_value_simulation_intended :
  forall (V : Type) (I : interp V) (p : program) (out : output),
    run p = ROk out -> o_errors out = [] ->
    Forall (fun f => tail_ifs (fn_body f) = true) (functions_of p) ->
    Forall2 (fun (f : fn_decl) (root : block) =>
               forall (args : list V) (n1 n2 : nat),
                 length args = length (fn_params f) ->
                 vagreeP (vflat_exec V I (b_ctx root) args n1) (vstruct_exec V I false f args n2) /\
                 vok (snd (vstruct_exec V I false f args n2)) = true)
            (functions_of p) (o_fns out).
Proof. exact value_simulation_intended. Qed.

Check C05g_quirk_is_intended_outside_K_F5 :
  forall (V : Type) (I : interp V) (f : fn_decl),
    tail_ifs (fn_body f) = true ->
    forall (args : list V) (n : nat),
      vstruct_exec V I true f args n = vstruct_exec V I false f args n.

Check C05g_value_simulation_intended :
  forall (V : Type) (I : interp V) (p : program) (out : output),
    run p = ROk out -> o_errors out = [] ->
    Forall (fun f => tail_ifs (fn_body f) = true) (functions_of p) ->
    Forall2 (fun (f : fn_decl) (root : block) =>
               forall (args : list V) (n1 n2 : nat),
                 length args = length (fn_params f) ->
                 vagreeP (vflat_exec V I (b_ctx root) args n1) (vstruct_exec V I false f args n2) /\
                 vok (snd (vstruct_exec V I false f args n2)) = true)
            (functions_of p) (o_fns out).

(** the same with the executable comparison, and termination transfer *)
Theorem C05g_value_simulation_intended_bool :
  forall (V : Type) (I : interp V) (p : program) (out : output),
    (forall v, i_eqb I v v = true) ->
    run p = ROk out -> o_errors out = [] ->
    Forall (fun f => tail_ifs (fn_body f) = true) (functions_of p) ->
    Forall2 (fun (f : fn_decl) (root : block) =>
               forall (args : list V) (n1 n2 : nat),
                 length args = length (fn_params f) ->
                 vagree V I (vflat_exec V I (b_ctx root) args n1)
                        (vstruct_exec V I false f args n2) = true /\
                 vok (snd (vstruct_exec V I false f args n2)) = true)
            (functions_of p) (o_fns out).
Proof. exact value_simulation_intended_bool. Qed.

Theorem C05g_intended_return_is_matched :
  forall (V : Type) (I : interp V) (p : program) (out : output),
    run p = ROk out -> o_errors out = [] ->
    Forall (fun f => tail_ifs (fn_body f) = true) (functions_of p) ->
    Forall2 (fun (f : fn_decl) (root : block) =>
               forall (args : list V) (n2 : nat) (e : list (vevent V)),
                 length args = length (fn_params f) ->
                 vstruct_exec V I false f args n2 = (e, VReturned) ->
                 exists n1, forall n, (n1 <= n)%nat ->
                                      vflat_exec V I (b_ctx root) args n = (e, VReturned))
            (functions_of p) (o_fns out).
Proof. exact value_simulation_intended_returns. Qed.

Print Assumptions C05g_quirk_is_intended_outside_K_F5.
Print Assumptions C05g_value_simulation_intended.
Print Assumptions C05g_value_simulation_intended_bool.
Print Assumptions C05g_intended_return_is_matched.

(** ** The feature program of C05c is outside K_F5: its [if] chain is a statement of a loop body,
    and no [if] is nested in an if / else / else-if body *)
Example C05g_feature_program_in_class :
  Forall (fun f => tail_ifs (fn_body f) = true) (functions_of C05c_program).
Proof. repeat constructor. Qed.

(** so both source semantics and the machine agree on it (fingerprints, four salts) *)
Definition c05g_agree (quirk : bool) (p : program) (salts : list N) (nflat nsrc : nat) : list bool :=
  match run p with
  | ROk o =>
      match rev (o_fns o), rev (functions_of p) with
      | root :: _, f :: _ =>
          map (fun salt =>
                 let I := hash_interp salt in
                 let a := hash_args (length (fn_params f)) in
                 vagree N I (vflat_exec N I (b_ctx root) a nflat) (vstruct_exec N I quirk f a nsrc))
              salts
      | _, _ => []
      end
  | _ => []
  end.

Example C05g_feature_program_intended :
  c05g_agree false C05c_program [1; 8; 15; 22]%N 1200 300 = [true; true; true; true].
Proof. vm_compute. reflexivity. Qed.

(** ** The hypothesis cannot be dropped: the F5 witness, WITH DATA.
    [fn main(a) { if a { if 1 { } g(); } return 0 }] is accepted and not in the class; for the
    salts that make [a] true the machine skips [g()] (as the source with the finding does) and the
    intended source calls it: the traces differ. *)
Example C05g_F5_not_in_class :
  forallb (fun f => tail_ifs (fn_body f)) (functions_of C05c_F5_program) = false.
Proof. vm_compute. reflexivity. Qed.

Example C05g_F5_with_data :
  match run C05c_F5_program with
  | ROk out => o_errors out = []
  | _ => False
  end /\
  c05g_agree true C05c_F5_program [0; 1; 2; 3; 4; 5; 6; 7]%N 200 200 =
    [true; true; true; true; true; true; true; true] /\
  existsb negb (c05g_agree false C05c_F5_program [0; 1; 2; 3; 4; 5; 6; 7]%N 200 200) = true.
Proof. vm_compute. repeat split; reflexivity. Qed.

(** the two traces for one such salt *)
Definition c05g_traces (quirk : bool) (p : program) (salt : N) (n : nat) :=
  match run p with
  | ROk o =>
      match rev (o_fns o), rev (functions_of p) with
      | root :: _, f :: _ =>
          let I := hash_interp salt in
          let a := hash_args (length (fn_params f)) in
          Some (map (fun e => match e with VCall g _ => g | VRet _ => "ret" | _ => "other" end)
                    (fst (vflat_exec N I (b_ctx root) a n)),
                map (fun e => match e with VCall g _ => g | VRet _ => "ret" | _ => "other" end)
                    (fst (vstruct_exec N I quirk f a n)))
      | _, _ => None
      end
  | _ => None
  end.

(** salt 1: the machine and the source with the finding return at once; the intended source
    calls [g] first *)
Example C05g_F5_witness :
  c05g_traces false C05c_F5_program 1 200 = Some (["ret"], ["g"; "ret"]) /\
  c05g_traces true C05c_F5_program 1 200 = Some (["ret"], ["ret"]).
Proof. vm_compute. split; reflexivity. Qed.
