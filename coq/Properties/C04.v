(** C04 — The emitted instruction stack is well typed.
    Statements only; proofs are in [Proofs/Typed.v] (with [Proofs/TypedMon.v],
    [Proofs/TypedDefs.v], [Proofs/TypedWf.v]). *)
From SA Require Import Model.
From SA.Spec Require Import FirstViolation.
From SA.Mon Require Import C04.
From SA.Proofs Require Import TypedMon Typed RulesBasic.
From SA.Spec Require ResolverTests.
Local Open Scope list_scope.

(** In the instruction stack of every function of an accepted and well-formed program, read
    left to right by the monitor of [Mon/C04.v]:
    - every operand carries the type recorded for its register by the instruction that wrote
      it (a literal: the type of the literal; the register after a [Call] or an
      [ExpressionStructValue] that nothing wrote: the type of that instruction -- finding F7;
      the first naming of an extension register fixes its type), and never names the register
      of a comparison or of a logic condition;
    - both operands of an [ExpressionOperation] and of a [ConditionExpression] have the same
      type (primitive for the latter), the inputs of a [LogicCondition] and the subject of an
      [IfConditionLogic] are comparison / logic results;
    - a [Call] carries the declaration found under its name in the globals of the same run,
      exactly as many arguments as it declares, of the declared types; an [ExpressionConst]
      carries the declared constant;
    - values that are read, assigned to or whose field is read are the records carried by
      their declaring instruction; assignments go to mutable values of the operand's type;
      a [LetBinding] has the type of its operand; a field read has the type of the attribute
      with that index;
    - the k-th [FunctionArg] is the k-th source parameter, and all of them are declared;
    - every return form carries an operand of the declared result type.
    "Accepted": the analysis terminates with an empty error list.  "Well-formed": the intended
    rule set of [Spec/FirstViolation.v] ([wf_b]); it is needed for one clause only, the exact
    number of arguments (the analyzer tolerates too few: finding F2, [C04_needs_wf] below). *)
Theorem C04_stack_well_typed :
  forall (p : program) (out : output),
    run p = ROk out -> o_errors out = [] -> wf_b p = true -> chk_C04 p out = true.
Proof. exact run_stack_well_typed. Qed.

(** Without [wf_b]: the same monitor with the arity clause of [Call] weakened to "the types of
    the arguments are a prefix of the declared parameter types" ([chk_C04_weak], defined in
    [Proofs/TypedMon.v] as the same fold with [chk_callx false]). *)
Theorem C04_stack_well_typed_modulo_F2 :
  forall (p : program) (out : output),
    run p = ROk out -> o_errors out = [] -> chk_C04_weak p out = true.
Proof. exact run_stack_well_typed_weak. Qed.

(** the monitor is the fold the proofs work with *)
Theorem C04_monitor_is_fold :
  forall G RT c m vs ps,
    scan_C04 G RT c m vs ps = fin (run_from true G RT c (m, vs, ps)).
Proof. exact scan_run. Qed.

Check C04_stack_well_typed :
  forall (p : program) (out : output),
    run p = ROk out -> o_errors out = [] -> wf_b p = true -> chk_C04 p out = true.
Check C04_stack_well_typed_modulo_F2 :
  forall (p : program) (out : output),
    run p = ROk out -> o_errors out = [] -> chk_C04_weak p out = true.

Print Assumptions C04_stack_well_typed.
Print Assumptions C04_stack_well_typed_modulo_F2.

(** ** Instances, decided by computation *)
Import ResolverTests.

(** what an instance asserts: the hypotheses of the theorem hold, the monitor answers [true]
    and it looked at some operands *)
Definition instance (p : program) : Prop :=
  exists out, run p = ROk out /\ o_errors out = [] /\ wf_b p = true /\
              chk_C04 p out = true /\ (0 < judged_C04 out)%nat.

Ltac decide_instance :=
  eexists; split; [vm_compute; reflexivity|];
  split; [vm_compute; reflexivity|]; split; [vm_compute; reflexivity|];
  split; [vm_compute; reflexivity | vm_compute; repeat constructor].

(** calls whose arguments are calls, a call statement, a call as an operand ([p08]) *)
Example C04_calls_of_calls : instance p08.
Proof. decide_instance. Qed.

(** field reads of struct parameters as operands, in a condition, as a result ([p07]) *)
Example C04_field_reads : instance p07.
Proof. decide_instance. Qed.

(** calls of calls whose arguments are field reads, next to field reads as operands *)
Definition p_calls_fields : program :=
  [ declS;
    fn "g" [("a", i32); ("b", i32)] i32 [ sret (bin (var "a") OPlus (var "b")) ];
    fn "f" [("s", tS); ("t", tS)] i32
       [ slet "u" (bin (call "g" [ one (call "g" [one (fld "s" "a"); one (fld "t" "a")]);
                                   bin (fld "s" "a") OMultiply (num 2) ])
                       OPlus (fld "t" "a"));
         sret (one (call "g" [one (var "u"); one (fld "s" "a")])) ] ].
Example C04_calls_and_fields : instance p_calls_fields.
Proof. decide_instance. Qed.

(** shadowed lets and assignments: to the outer value from inside a body, to the value
    re-declared in the body, from the sibling body and after the [if] ([p10]); a chain of lets
    of one name ([p03]) *)
Example C04_shadowing_and_assignments : instance p10.
Proof. decide_instance. Qed.
Example C04_shadowed_lets : instance p03.
Proof. decide_instance. Qed.

(** extension leaves: the first naming fixes the type ([p09]) *)
Example C04_extension_leaves : instance p09.
Proof. decide_instance. Qed.

(** the theorem applied to an instance *)
Example C04_theorem_applies :
  forall out, run p08 = ROk out -> chk_C04 p08 out = true.
Proof.
  intros out H. apply C04_stack_well_typed; [exact H | | vm_compute; reflexivity].
  revert H. vm_compute. intro H. inversion H. reflexivity.
Qed.

(** ** [wf_b] is needed: finding F2.  [g] takes one argument and is called with none; the
    analyzer accepts, the intended rule set does not, and the monitor answers [false] on the
    undamaged output -- while the monitor modulo F2 answers [true]. *)
Example C04_needs_wf :
  exists out, run p_f2 = ROk out /\ o_errors out = [] /\ wf_b p_f2 = false /\
              chk_C04 p_f2 out = false /\ chk_C04_weak p_f2 out = true.
Proof.
  eexists. split; [vm_compute; reflexivity|]. repeat split; vm_compute; reflexivity.
Qed.

(** the same on the witness program of [Proofs/RulesBasic.v] *)
Example C04_needs_wf_K_F2 :
  exists out, run K_F2_program = ROk out /\ o_errors out = [] /\ wf_b K_F2_program = false /\
              chk_C04 K_F2_program out = false /\ chk_C04_weak K_F2_program out = true.
Proof.
  eexists. split; [vm_compute; reflexivity|]. repeat split; vm_compute; reflexivity.
Qed.
