(** C02 — A well-formed program is accepted (no spurious errors).
    Statement only; proofs are in [Proofs/Simulation.v] and [Proofs/RulesBasic.v]. *)
From SA Require Import Model.
From SA.Spec Require Import FirstViolation.
From SA.Mon Require Import Verdict.
From SA.Proofs Require Import VerdictMon Simulation.
Local Open Scope list_scope.

(** For every program on which the analysis terminates normally: if the program obeys every
    rule of the INTENDED rule set R1..R22 (DESIGN.md §3.1; [wf_b] is the independent checker of
    [Spec/FirstViolation.v] with [enforced = false]), the error list is empty. *)
Theorem C02_well_formed_is_accepted :
  forall (p : program) (out : output),
    run p = ROk out -> wf_b p = true -> o_errors out = [].
Proof. exact well_formed_is_accepted. Qed.

Theorem C02_monitor_exact :
  forall (p : program) (o : output),
    chk_C02 p o = true <-> (wf_b p = true -> o_errors o = []).
Proof. exact chk_C02_spec. Qed.

Theorem C02_monitor_on_model :
  forall (p : program) (out : output), run p = ROk out -> chk_C02 p out = true.
Proof. exact chk_C02_on_model. Qed.

Check C02_well_formed_is_accepted :
  forall (p : program) (out : output),
    run p = ROk out -> wf_b p = true -> o_errors out = [].
Check C02_monitor_on_model :
  forall (p : program) (out : output), run p = ROk out -> chk_C02 p out = true.

(** Non-vacuity: a well-formed program with a function, a constant and a struct type used
    before their textual declaration, a struct field of a parameter as a call argument, legal
    shadowing (same block and nested block, with a change of type), an assignment to a value of
    an enclosing block, and break / continue in loop-flavoured if-bodies: well-formed, analysed
    without panic, no error. *)
Example C02_forward_references_and_shadowing :
  let lit := Expr (EVPrim (PV PI32 1)) [] in
  let pt := TStruct (Id "P" 1 8) [(Id "x" 1 12, TPrim PI32)] in
  let p : program :=
    [ TFn (Fn (Id "main" 1 3) [(Id "p" 1 8, pt)] (TPrim PI32)
         [SLet (Id "v" 2 5) true None
               (Expr (EVCall (Id "later" 2 9) [Expr (EVField (Id "p" 2 15) (Id "x" 2 17)) []])
                     [(OPlus, EVName (Id "K" 2 22))]);
          SLet (Id "v" 3 5) true (Some (TPrim PI32))
               (Expr (EVName (Id "v" 3 9)) [(OMultiply, EVPrim (PV PI32 2))]);
          SLoop [SIf (IfS (CLogic (LC (Expr (EVName (Id "v" 5 8)) []) CLess lit None))
                          (IBLoop [SLet (Id "v" 6 9) false None (Expr (EVPrim (PV PBool 1)) []);
                                   SBreak])
                          (Some (IBLoop [SBind (Id "v" 8 9)
                                               (Expr (EVName (Id "v" 8 13))
                                                     [(OPlus, EVName (Id "K" 8 17))]);
                                         SContinue]))
                          None)];
          SRet (Expr (EVName (Id "v" 10 5)) [])]);
      TConst (Id "K" 12 7) (TPrim PI32) (CExpr (CVal (PV PI32 7)) []);
      TFn (Fn (Id "later" 13 3) [(Id "n" 13 9, TPrim PI32)] (TPrim PI32)
              [SRet (Expr (EVName (Id "n" 14 5)) [])]);
      TStructDecl (Id "P" 16 8) [(Id "x" 16 12, TPrim PI32)] ] in
  wf_b p = true /\
  match run p with ROk out => o_errors out = [] | _ => False end.
Proof. vm_compute. split; reflexivity. Qed.

Print Assumptions C02_well_formed_is_accepted.
Print Assumptions C02_monitor_exact.
Print Assumptions C02_monitor_on_model.
