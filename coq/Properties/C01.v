(** C01 — An accepted program is well-formed (no ill-formed program passes).

    KNOWN FINDINGS F2 and F8: the statement as intended is FALSE of the analyzer (and of its
    faithful model): see [C01_refuted_F2], [C01_refuted_F8], [C01_intended_is_false].  What
    holds — and is proved here — is the statement for the rule set the analyzer actually
    enforces ([C01_accepted_obeys_enforced_rules]), which differs from the intended one in
    exactly the two documented places, so that an accepted program is well-formed or belongs to
    the decidable known class [in_K_F2_or_F8] ([C01_accepted_is_well_formed_or_known]).

    Statement only; proofs are in [Proofs/Simulation.v] and [Proofs/RulesBasic.v]. *)
From SA Require Import Model.
From SA.Spec Require Import FirstViolation.
From SA.Mon Require Import Verdict.
From SA.Proofs Require Import VerdictMon RulesBasic Simulation.
Local Open Scope list_scope.

(** For every program on which the analysis terminates normally with an empty error list: the
    program obeys every rule of the intended rule set R1..R22, or it passes the enforced rule
    set and breaks the intended one (the class of findings F2: too few call arguments, and F8:
    unchecked constants in a constant's value expression). *)
Theorem C01_accepted_is_well_formed_or_known :
  forall (p : program) (out : output),
    run p = ROk out -> o_errors out = [] -> wf_b p = true \/ in_K_F2_or_F8 p = true.
Proof. exact accepted_is_well_formed_or_known. Qed.

(** ... and in either case it obeys every rule the analyzer enforces. *)
Theorem C01_accepted_obeys_enforced_rules :
  forall (p : program) (out : output),
    run p = ROk out -> o_errors out = [] -> first_violation true p = None.
Proof. intros p out Hrun He. apply (accepted_iff_no_violation p out Hrun), He. Qed.

Theorem C01_quirk_monitor_exact :
  forall (p : program) (o : output),
    chk_C01_quirk p o = true <-> (o_errors o = [] -> accepted_spec_b p = true).
Proof. exact chk_C01_quirk_spec. Qed.

Theorem C01_quirk_monitor_on_model :
  forall (p : program) (out : output), run p = ROk out -> chk_C01_quirk p out = true.
Proof. exact chk_C01_quirk_on_model. Qed.

(** the intended monitor [chk_C01] can fail on a model output only inside the known class *)
Theorem C01_intended_monitor_fails_only_in_K :
  forall (p : program) (out : output),
    run p = ROk out -> chk_C01 p out = false -> in_K_F2_or_F8 p = true.
Proof. exact chk_C01_fails_only_in_K. Qed.

Check C01_accepted_is_well_formed_or_known :
  forall (p : program) (out : output),
    run p = ROk out -> o_errors out = [] -> wf_b p = true \/ in_K_F2_or_F8 p = true.
Check C01_accepted_obeys_enforced_rules :
  forall (p : program) (out : output),
    run p = ROk out -> o_errors out = [] -> first_violation true p = None.
Check C01_quirk_monitor_on_model :
  forall (p : program) (out : output), run p = ROk out -> chk_C01_quirk p out = true.

(** ** The intended statement is refuted by the faithful model *)
Definition C01_intended : Prop :=
  forall (p : program) (out : output), run p = ROk out -> o_errors out = [] -> wf_b p = true.

(** F2: [g] has one parameter and is called with no argument: accepted by the model, first
    intended violation R10 (arity) at the call. *)
Theorem C01_refuted_F2 :
  model_accepts K_F2_program /\
  first_violation true K_F2_program = None /\
  first_violation false K_F2_program = Some (Viol EFunctionParameterTypeWrong None (5, 8)) /\
  in_K_F2_or_F8 K_F2_program = true.
Proof. exact (conj K_F2_model_accepts K_F2_witness). Qed.

(** F8: [const A: i32 = B] and [const A: i32 = 1 + 2 + B] with no [B]: accepted by the model,
    first intended violation R5 at the mention of [B]. *)
Theorem C01_refuted_F8 :
  (model_accepts K_F8_head_program /\
   first_violation true K_F8_head_program = None /\
   first_violation false K_F8_head_program
     = Some (Viol EConstantNotFound (Some "B"%string) (1, 16)) /\
   in_K_F2_or_F8 K_F8_head_program = true) /\
  (model_accepts K_F8_after_literal_program /\
   first_violation true K_F8_after_literal_program = None /\
   first_violation false K_F8_after_literal_program
     = Some (Viol EConstantNotFound (Some "B"%string) (1, 24)) /\
   in_K_F2_or_F8 K_F8_after_literal_program = true).
Proof.
  exact (conj (conj K_F8_head_model_accepts K_F8_head_witness)
              (conj K_F8_after_literal_model_accepts K_F8_after_literal_witness)).
Qed.

Theorem C01_intended_is_false : ~ C01_intended.
Proof.
  intro H. destruct K_F2_model_accepts as (out & Hrun & He).
  specialize (H K_F2_program out Hrun He). vm_compute in H. discriminate H.
Qed.

Check C01_refuted_F2 :
  model_accepts K_F2_program /\
  first_violation true K_F2_program = None /\
  first_violation false K_F2_program = Some (Viol EFunctionParameterTypeWrong None (5, 8)) /\
  in_K_F2_or_F8 K_F2_program = true.
Check C01_intended_is_false : ~ C01_intended.

Print Assumptions C01_accepted_is_well_formed_or_known.
Print Assumptions C01_accepted_obeys_enforced_rules.
Print Assumptions C01_quirk_monitor_exact.
Print Assumptions C01_quirk_monitor_on_model.
Print Assumptions C01_intended_monitor_fails_only_in_K.
Print Assumptions C01_refuted_F2.
Print Assumptions C01_refuted_F8.
Print Assumptions C01_intended_is_false.
