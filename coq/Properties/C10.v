(** C10 — Labels: every label is set at most once per function; every label that is named is
    one the analysis of that function generated.
    Statements only; proofs are in [Proofs/]. *)
From SA Require Import Model.
From SA.Spec Require Import Stack.
From SA.Mon Require Import Control.
From SA.Proofs Require Import ExecBasic InvLabels.
Local Open Scope list_scope.

(** For every program (accepted or not) on which the analysis terminates, within one function's
    complete instruction stack no label is set twice. *)
Theorem C10_labels_set_at_most_once :
  forall (p : program) (out : output),
    run p = ROk out ->
    Forall (fun root : block => NoDup (set_labels (b_ctx root))) (o_fns out).
Proof. exact run_labels_unique. Qed.

(** Resolution, the part that needs no typing argument: every label named by a [JumpTo], an
    [IfConditionExpression] or an [IfConditionLogic] of a function's complete stack is in the
    root block's label registry, that is, [gen_label] produced it while this function was
    analysed.  (That every such label is also SET, for accepted programs, is checked by the
    monitor [chk_C10_resolve] below; it is not proven here.) *)
Theorem C10_targets_registered :
  forall (p : program) (out : output),
    run p = ROk out ->
    Forall (fun root : block =>
              forall i l, In i (b_ctx root) -> In l (target_labels i) ->
                          smem l (b_labels root) = true)
           (o_fns out).
Proof. exact run_targets_registered. Qed.

(** The monitors run on the implementation's output decide exactly the two halves of C10. *)
Theorem C10_monitor_unique_exact :
  forall o : output,
    chk_C10_unique o = true <->
    Forall (fun root : block => NoDup (set_labels (b_ctx root))) (o_fns o).
Proof. exact chk_C10_unique_spec. Qed.

Theorem C10_monitor_resolve_exact :
  forall o : output,
    chk_C10_resolve o = true <->
    Forall (fun root : block =>
              forall i l, In i (b_ctx root) -> In l (target_labels i) ->
                          In l (set_labels (b_ctx root)))
           (o_fns o).
Proof. exact chk_C10_resolve_spec. Qed.

(** Both halves together: every label that is named is set exactly once. *)
Theorem C10_unique_and_resolved_is_exactly_once :
  forall root : block,
    NoDup (set_labels (b_ctx root)) ->
    (forall i l, In i (b_ctx root) -> In l (target_labels i) -> In l (set_labels (b_ctx root))) ->
    forall i l, In i (b_ctx root) -> In l (target_labels i) ->
                count_occ string_dec (set_labels (b_ctx root)) l = 1%nat.
Proof. exact C10_exactly_once. Qed.

Check C10_labels_set_at_most_once :
  forall (p : program) (out : output),
    run p = ROk out ->
    Forall (fun root : block => NoDup (set_labels (b_ctx root))) (o_fns out).

Check C10_targets_registered :
  forall (p : program) (out : output),
    run p = ROk out ->
    Forall (fun root : block =>
              forall i l, In i (b_ctx root) -> In l (target_labels i) ->
                          smem l (b_labels root) = true)
           (o_fns out).

(** Non-vacuity: a loop that holds two sibling if / else-if / else chains (the same source text
    twice, so that every base name collides) and a nested loop.  The analysis succeeds without
    diagnostics; fourteen labels are set, all distinct; every label that is named is set. *)
Definition C10_example_fn : fn_decl :=
  let lit := Expr (EVPrim (PV PI32 1)) [] in
  let tru := Expr (EVPrim (PV PBool 1)) [] in
  let chain :=
    IfS (CSingle tru) (IBLoop [SBreak]) None
        (Some (IfS (CSingle tru) (IBLoop [SContinue]) (Some (IBLoop [SBreak])) None)) in
  Fn (Id "f" 1 0) [] (TPrim PI32)
     [SLoop [SIf chain; SIf chain; SLoop [SBreak]]; SRet lit].

Example C10_sibling_chains_and_nested_loop :
  match run [TFn C10_example_fn] with
  | ROk out =>
      o_errors out = [] /\
      map (fun b => set_labels (b_ctx b)) (o_fns out) =
        [["loop_begin"; "if_begin"; "if_else"; "if_begin.0"; "if_else.0"; "if_end";
          "if_begin.1"; "if_else.1"; "if_begin.2"; "if_else.2"; "if_end.0";
          "loop_begin.0"; "loop_end.0"; "loop_end"]]%string /\
      chk_C10_unique out = true /\ chk_C10_resolve out = true
  | _ => False
  end.
Proof. vm_compute. repeat split; reflexivity. Qed.

Print Assumptions C10_labels_set_at_most_once.
Print Assumptions C10_targets_registered.
Print Assumptions C10_monitor_unique_exact.
Print Assumptions C10_monitor_resolve_exact.
Print Assumptions C10_unique_and_resolved_is_exactly_once.
