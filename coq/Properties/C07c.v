(** C07 for every leaf kind and every statement position — "the emitted tree IS the bracketed source
    tree", closing the gap "modulo bracketing" that C06 leaves.
    Statements only; the proofs are in [Proofs/BracketShape.v] (on top of [Spec/Bracket.v],
    [Proofs/Fold.v], the logic of [Proofs/DenoteLogic.v] and the compositional scan of
    [Proofs/DenoteEnv.v]).

    Reading ([Mon/C07x.v]).  A [shape] is what is left of an expression when every leaf is
    forgotten and the nesting is kept: [ShLeaf], [ShCall args], [ShNode op l r], and for logic
    conditions [ShCmp] / [ShLogic].
    - Stack side: [Mon/C06.scan [] (b_ctx root)] -- the use sites of a root stack, register
      operands expanded into denotation trees through the instructions that define them, finding
      F7 included -- every tree mapped by [shape_of_dt] ([DOp] is a node, [DCall] a call with the
      shapes of its arguments, every other leaf a leaf).
    - Source side: [shape_of_expr e] is the shape of [e] bracketed by [Spec/Bracket.bracket]:
      explicit brackets are transparent, calls carry the shapes of their argument expressions,
      other leaves are leaves.  The sites are enumerated as in [Mon/C06.fn_sites] (same kinds, same
      order: [C07c_enumeration_is_the_one_of_C06]).
    [chk_C07_shape] demands, for every function of an accepted program and every use site -- the
    value bound by each let, stored by each assignment, passed as each call argument (statement
    calls and calls inside expressions), returned by each return, tested by each single-expression
    condition, and the comparisons of each logic condition with both their sides -- that the two
    shapes are equal.  [chk_C06] says that the two have the same leaves and operators in the same
    in-order sequence; together: the emitted tree is the bracketed source tree. *)
From SA Require Import Model.
From SA.Spec Require Import Stack Bracket DenoteTests.
From SA.Mon Require Import C06 C07x.
From SA.Proofs Require Import DefUse DenoteLogic DenoteEnv BracketShape.
Local Open Scope list_scope.

Theorem C07c_emitted_shape_is_the_bracketed_tree :
  forall (p : program) (out : output),
    run p = ROk out -> o_errors out = [] -> chk_C07_shape p out = true.
Proof. exact run_emitted_shape_is_bracket. Qed.

(** The expression level on its own: on a run accepted in the end, the operand that the analysis of
    [e] yields denotes, in the monitor's environment after the run, a tree of exactly the shape of
    [e] bracketed by [bracket]; the use sites pushed meanwhile are the calls inside [e] with the
    shapes of their argument expressions; that environment extends the one before by code that
    defines only new registers ... *)
Theorem C07c_expression_level :
  forall Cf G fuel e s r s',
    WF s -> expression G fuel e s = Ok r s' -> Fin Cf s' ->
    exists er c, r = Some er /\ Ctx s' = Ctx s ++ c /\ Env s' = env_from (Env s) c /\
      DefsIn (hr s) (hr s') c /\
      map hsite_of_usite (scan (Env s) c) = call_hsites e /\
      shape_of_dt (operand (Env s') er) = shape_of_expr e.
Proof. exact expression_emits_shape. Qed.

(** ... so that operands over old registers keep their trees (F7 operands included). *)
Theorem C07c_old_operands_keep_their_tree :
  forall lo hi c env e,
    DefsIn lo hi c -> Forall (fun n => n <= lo) (eres_reg e) ->
    operand (env_from env c) e = operand env e.
Proof. exact extension_keeps_old_operands. Qed.

(** The fuel of [shape_of_expr] suffices: its result is the shape of the bracketed chain in the
    fuel-free reading [ShT] (leaves are leaves, an explicit bracket has the shape of [bracket] of
    the chain inside, a call carries the shapes of [bracket] of its arguments, a node of the tree
    is a node of the shape). *)
Theorem C07c_shape_of_expr_is_total :
  forall e, ShT (bracket_of e) (shape_of_expr e).
Proof. exact shape_of_expr_is_bracket_shape. Qed.

(** The source-side enumeration is the one of [Mon/C06.v]: the same kinds of sites, with the same
    number of arguments at every call, in the same order -- the k-th site of this monitor is the
    k-th site of C06. *)
Theorem C07c_enumeration_is_the_one_of_C06 :
  forall D f, map hkind (fn_hsites f) = map ekind (fn_sites D f).
Proof. exact fn_hsites_aligned. Qed.

Check C07c_emitted_shape_is_the_bracketed_tree :
  forall (p : program) (out : output),
    run p = ROk out -> o_errors out = [] -> chk_C07_shape p out = true.

Print Assumptions C07c_emitted_shape_is_the_bracketed_tree.
Print Assumptions C07c_expression_level.
Print Assumptions C07c_old_operands_keep_their_tree.
Print Assumptions C07c_shape_of_expr_is_total.
Print Assumptions C07c_enumeration_is_the_one_of_C06.

(** ** A worked example with mixed leaves (building blocks of [Spec/DenoteTests.v]; the table as
    published: Multiply 9 > Divide 8 > Plus 5 > Minus 4).

      fn main(a : i32, b : i32, s : S) -> i32 {
        let mut y = a + g2(b + 1 * s.c, <7>) * s.b - (K + <1> * 3) / 2;
        y = y - 1 * (a + b) + <2>;
        g2(1 + y * s.a, g1(a - 2 * <3>) * b + 4);
        if a + <4> * g1(b) - 5 { y = y + 1; }
        if a + b * 2 < s.a * <5> + y && g1(a + 1 * 2) == (a + 1) * 2 || <6> >= K
          { return y + 2 * a * <8>; } else { y = y - <9> / 2; }
        return y * 2 + (a - b * 3) * s.c;
      }

    Literals, variable reads, constant reads, struct field reads, calls with expression arguments,
    explicit brackets and extension leaves [<n>], in let, assignment, call-argument (statement
    call and calls inside expressions), return (nested and final) and condition (single
    expression and logic) positions: 17 use sites, 46 operator nodes judged. *)
Definition c07c_prog : program := prog
  [letm "y" (Expr (v_ "a")
       [(OPlus, c_ "g2" [Expr (v_ "b") [(OPlus, n_ 1); (OMultiply, f_ "s" "c")]; e1 (x_ 7)]);
        (OMultiply, f_ "s" "b");
        (OMinus, s_ (Expr (v_ "K") [(OPlus, x_ 1); (OMultiply, n_ 3)]));
        (ODivide, n_ 2)]);
   set_ "y" (Expr (v_ "y") [(OMinus, n_ 1); (OMultiply, s_ (Expr (v_ "a") [(OPlus, v_ "b")]));
                            (OPlus, x_ 2)]);
   call_ "g2" [Expr (n_ 1) [(OPlus, v_ "y"); (OMultiply, f_ "s" "a")];
               Expr (c_ "g1" [Expr (v_ "a") [(OMinus, n_ 2); (OMultiply, x_ 3)]])
                    [(OMultiply, v_ "b"); (OPlus, n_ 4)]];
   if_ (CSingle (Expr (v_ "a") [(OPlus, x_ 4); (OMultiply, c_ "g1" [e1 (v_ "b")]); (OMinus, n_ 5)]))
       [set_ "y" (Expr (v_ "y") [(OPlus, n_ 1)])];
   SIf (IfS (CLogic (LC (Expr (v_ "a") [(OPlus, v_ "b"); (OMultiply, n_ 2)]) CLess
                        (Expr (f_ "s" "a") [(OMultiply, x_ 5); (OPlus, v_ "y")])
               (Some (LAnd, LC (e1 (c_ "g1" [Expr (v_ "a") [(OPlus, n_ 1); (OMultiply, n_ 2)]])) CEq
                               (Expr (s_ (Expr (v_ "a") [(OPlus, n_ 1)])) [(OMultiply, n_ 2)])
                  (Some (LOr, LC (e1 (x_ 6)) CGreatEq (e1 (v_ "K")) None))))))
            (IBIf [ret_ (Expr (v_ "y") [(OPlus, n_ 2); (OMultiply, v_ "a"); (OMultiply, x_ 8)])])
            (Some (IBIf [set_ "y" (Expr (v_ "y") [(OMinus, x_ 9); (ODivide, n_ 2)])])) None);
   ret_ (Expr (v_ "y") [(OMultiply, n_ 2);
                        (OPlus, s_ (Expr (v_ "a") [(OMinus, v_ "b"); (OMultiply, n_ 3)]));
                        (OMultiply, f_ "s" "c")])].

Example C07c_example :
  match run c07c_prog with
  | ROk out =>
      o_errors out = [] /\
      chk_C07_shape c07c_prog out = true /\ chk_C06 c07c_prog out = true /\
      chk_C06_scoped c07c_prog out = true /\
      diff_C07_shape c07c_prog out = [] /\
      judged_C06 c07c_prog out = 17 /\ judged_C07_shape c07c_prog = 46%nat
  | _ => False
  end.
Proof. vm_compute. repeat split; reflexivity. Qed.

(** ** The monitor is not vacuous.

    [rebracket] damages a stack at the first place where an operation is the RIGHT operand of the
    operation that follows it, [x op2 (l1 op1 r1)], re-associating the two to
    [(x op2 l1) op1 r1]: the registers, the leaves, the operators and their in-order sequence are
    unchanged, only the bracketing is wrong.  [chk_C06] (and its scoped setting) accepts the
    damaged output; [chk_C07_shape] rejects it and reports the site. *)
Definition c07c_is_reg (e : eres) (n : N) : bool :=
  match r_val e with RReg m => N.eqb m n | RPrim _ => false end.

Fixpoint c07c_rebracket (c : list instr) : list instr :=
  match c with
  | IExprOp o1 l1 r1 g1 :: ((IExprOp o2 l2 r2 g2 :: c'') as c') =>
      if c07c_is_reg r2 g1 && negb (c07c_is_reg l2 g1)
      then IExprOp o2 l2 l1 g1 :: IExprOp o1 (ERes (r_ty l2) (RReg g1)) r1 g2 :: c''
      else IExprOp o1 l1 r1 g1 :: c07c_rebracket c'
  | i :: c' => i :: c07c_rebracket c'
  | [] => []
  end.

(** the damage, applied to the root stack of the last function ([main]) *)
Definition c07c_damage (o : output) : output :=
  match rev (o_fns o) with
  | b :: rest =>
      Output (o_errors o) (o_globals o) (o_gstack o)
        (rev rest ++ [Block (b_values b) (b_inner b) (b_labels b) (b_reg b) (b_mret b)
                            (c07c_rebracket (b_ctx b)) (b_kids b)])
  | [] => o
  end.

(** A small case, shown in full:  let y = a + b * K;  is  a + (b * K);  the damaged stack computes
    (a + b) * K  from the same three reads. *)
Definition c07c_small : program := prog
  [let_ "y" (Expr (v_ "a") [(OPlus, v_ "b"); (OMultiply, v_ "K")]); ret_ (e1 (v_ "y"))].

Example C07c_not_vacuous_small :
  let lf := ShLeaf in
  match run c07c_small with
  | ROk out =>
      let bad := c07c_damage out in
      o_errors out = [] /\
      map fn_hsites (skipn 4 (functions_of c07c_small)) =
        [[HLet (ShNode OPlus lf (ShNode OMultiply lf lf)); HRet lf]] /\
      map (fun b => stack_hsites (b_ctx b)) (skipn 4 (o_fns out)) =
        [[HLet (ShNode OPlus lf (ShNode OMultiply lf lf)); HRet lf]] /\
      map (fun b => stack_hsites (b_ctx b)) (skipn 4 (o_fns bad)) =
        [[HLet (ShNode OMultiply (ShNode OPlus lf lf) lf); HRet lf]] /\
      chk_C06 c07c_small out = true /\ chk_C07_shape c07c_small out = true /\
      chk_C06 c07c_small bad = true /\ chk_C06_scoped c07c_small bad = true /\
      chk_C07_shape c07c_small bad = false /\
      diff_C07_shape c07c_small bad = [(4, 0)]
  | _ => False
  end.
Proof. vm_compute. repeat split; reflexivity. Qed.

(** The same damage on the large example hits the first argument of the call of [g2] inside the
    first let ([b + 1 * s.c] becomes [(b + 1) * s.c]): function 4 ([main]), site 0. *)
Example C07c_not_vacuous :
  match run c07c_prog with
  | ROk out =>
      let bad := c07c_damage out in
      o_errors bad = [] /\
      chk_C06 c07c_prog bad = true /\ chk_C06_scoped c07c_prog bad = true /\
      chk_C07_shape c07c_prog bad = false /\
      diff_C07_shape c07c_prog bad = [(4, 0)]
  | _ => False
  end.
Proof. vm_compute. repeat split; reflexivity. Qed.
