(** C06 — Every computed value is the value the source expression denotes.
    Statements only; the proof is in [Proofs/Denote.v] (expression level: [Proofs/DenoteExpr.v];
    the monitor made compositional: [Proofs/DenoteEnv.v], [Proofs/DenoteSrc.v]; the logic:
    [Proofs/DenoteLogic.v]). *)
From SA Require Import Model.
From SA.Spec Require Import Stack DenoteTests.
From SA.Mon Require Import C06.
From SA.Proofs Require Import DefUse DenoteLogic DenoteEnv DenoteSrc Denote.
Local Open Scope list_scope.

(** For every function of an accepted program ("accepted": the analysis terminates with an empty
    error list): expanding register operands through the instructions that define them (with the
    rule of finding F7 for the operand after a [Call] / [ExpressionStructValue]), the value bound
    by each let, stored by each assignment, passed as each call argument, returned by each return
    and tested by each condition is the source expression itself -- compared as token lists in
    which brackets are flattened (bracketing is C07), site by site in evaluation order, internal
    names translated to source names through the declaration order. *)
Theorem C06_denotes_source :
  forall (p : program) (out : output),
    run p = ROk out -> o_errors out = [] -> chk_C06 p out = true.
Proof. exact run_denotes_source. Qed.

(** The stronger reading (overlaps C03): every read also comes from the declaration that lexical
    scoping selects, and a name with no declaration in scope is read as a constant. *)
Theorem C06_denotes_source_scoped :
  forall (p : program) (out : output),
    run p = ROk out -> o_errors out = [] -> chk_C06_scoped p out = true.
Proof. exact run_denotes_source_scoped. Qed.

(** The expression level on its own. *)
Theorem C06_expression_level :
  forall Cf G NM fuel e s r s' sc,
    NoDup (map fst (stack_decls Cf)) -> GOk G -> WF s ->
    expression G fuel e s = Ok r s' -> Fin Cf s' ->
    ScopeOk (stack_decls Cf) NM sc (vals s) ->
    exists er c, r = Some er /\ Ctx s' = Ctx s ++ c /\ vals s' = vals s /\
      Forall2 (site_ok (stack_decls Cf) NM) (scan (Env s) c) (call_sites (stack_decls Cf) sc e) /\
      tk (stack_decls Cf) NM (operand (Env s') er) = etoks (stack_decls Cf) sc e /\
      nobad (etoks (stack_decls Cf) sc e).
Proof. exact expression_denotes. Qed.

Check C06_denotes_source :
  forall (p : program) (out : output),
    run p = ROk out -> o_errors out = [] -> chk_C06 p out = true.
Check C06_denotes_source_scoped :
  forall (p : program) (out : output),
    run p = ROk out -> o_errors out = [] -> chk_C06_scoped p out = true.

Print Assumptions C06_denotes_source.
Print Assumptions C06_denotes_source_scoped.
Print Assumptions C06_expression_level.

(** Worked examples (programs of [Spec/DenoteTests.v]).
    [p01]: a chain over four priority levels with calls, field reads, explicit brackets,
    extension leaves and constants: eight use sites (two lets' worth of calls, the let, the
    return). *)
Example C06_p01 :
  match run p01 with
  | ROk out =>
      o_errors out = [] /\ chk_C06 p01 out = true /\ chk_C06_scoped p01 out = true /\
      judged_C06 p01 out = 8
  | _ => False
  end.
Proof. vm_compute. repeat split; reflexivity. Qed.

(** [p04]: lets shadowing a parameter in nested blocks, reads after the block: the scoped
    comparison holds as well, and the names list has one entry per declaration. *)
Example C06_p04 :
  match run p04 with
  | ROk out =>
      o_errors out = [] /\ chk_C06 p04 out = true /\ chk_C06_scoped p04 out = true /\
      diff_C06 true p04 out = []
  | _ => False
  end.
Proof. vm_compute. repeat split; reflexivity. Qed.
