(** C11 — The choice of the return form (the part that holds for every program).
    Statements only; proofs are in [Proofs/InvRet.v]. *)
From SA Require Import Model.
From SA.Proofs Require Import Trace InvRet.
Local Open Scope list_scope.

(** For every program (accepted or not) on which the analysis terminates, in every function's
    complete instruction stack: a return with label ([IFnRetLabel]) is preceded by some
    jump-to-return ([IJumpFnRet]), and a plain return ([IFnRet]) is preceded by none. *)
Theorem C11_return_form :
  forall (p : program) (out : output),
    run p = ROk out ->
    Forall (fun root : block =>
              (forall pre er post, b_ctx root = pre ++ IFnRetLabel er :: post ->
                                   exists pre1 er' pre2, pre = pre1 ++ IJumpFnRet er' :: pre2) /\
              (forall pre er post, b_ctx root = pre ++ IFnRet er :: post ->
                                   forall er', ~ In (IJumpFnRet er') pre))
           (o_fns out).
Proof. exact run_return_form_readable. Qed.

(** The computable form of the same statement ([form_ok false c = true] is equivalent to the two
    clauses above: [form_ok_readable], [readable_form_ok]), together with the meaning of the
    root's "manual return" flag: it is set exactly when the stack holds a jump-to-return. *)
Theorem C11_return_form_and_flag :
  forall (p : program) (out : output),
    run p = ROk out ->
    Forall (fun root : block =>
              form_ok false (b_ctx root) = true /\ b_mret root = has_jump (b_ctx root))
           (o_fns out).
Proof. exact run_return_form. Qed.

Theorem C11_form_ok_exact :
  forall c : list instr, form_ok false c = true <-> return_form c.
Proof. intro c. split; [apply form_ok_readable | apply readable_form_ok]. Qed.

(** Jump-to-return instructions come from nested bodies only: a function whose own statement
    list holds no [if] and no [loop] has no jump-to-return and no return with label in its
    stack, so each of its returns is a plain return. *)
Theorem C11_flat_functions_plain_returns :
  forall (p : program) (out : output),
    run p = ROk out ->
    Forall2 (fun (f : fn_decl) (root : block) =>
               forallb flat_stmt (fn_body f) = true ->
               forall i, In i (b_ctx root) ->
                         is_jump_fn_ret i = false /\ (forall er, i <> IFnRetLabel er))
            (functions_of p) (o_fns out).
Proof. exact run_flat_functions_plain_returns. Qed.

Check C11_return_form :
  forall (p : program) (out : output),
    run p = ROk out ->
    Forall (fun root : block =>
              (forall pre er post, b_ctx root = pre ++ IFnRetLabel er :: post ->
                                   exists pre1 er' pre2, pre = pre1 ++ IJumpFnRet er' :: pre2) /\
              (forall pre er post, b_ctx root = pre ++ IFnRet er :: post ->
                                   forall er', ~ In (IJumpFnRet er') pre))
           (o_fns out).
Check C11_return_form_and_flag :
  forall (p : program) (out : output),
    run p = ROk out ->
    Forall (fun root : block =>
              form_ok false (b_ctx root) = true /\ b_mret root = has_jump (b_ctx root))
           (o_fns out).
Check C11_flat_functions_plain_returns :
  forall (p : program) (out : output),
    run p = ROk out ->
    Forall2 (fun (f : fn_decl) (root : block) =>
               forallb flat_stmt (fn_body f) = true ->
               forall i, In i (b_ctx root) ->
                         is_jump_fn_ret i = false /\ (forall er, i <> IFnRetLabel er))
            (functions_of p) (o_fns out).

(** Non-vacuity.  Three functions in one program:
    - [f]: [if c { loop { return 1 } } else if c { let y = 1 } else { return 1 } return 1] has two
      jump-to-return instructions (positions 5 and 13 of its stack) and its final return, at
      position 15, is a return with label;
    - [g]: [let y = 1; return 1] has a plain return and no jump-to-return;
    - [h]: [return 1; if c { return 1 } return 1] is rejected (code after return, return called
      twice) but analysed to the end: its first return, before any jump-to-return, is plain, and
      its last one, after the jump-to-return of the nested return, carries the label. *)
Definition ret_tag (i : instr) : option string :=
  match i with
  | IJumpFnRet _ => Some "jump"
  | IFnRet _ => Some "ret"
  | IFnRetLabel _ => Some "ret_label"
  | _ => None
  end.

Fixpoint ret_positions (n : nat) (c : list instr) : list (nat * string) :=
  match c with
  | [] => []
  | i :: c' => match ret_tag i with
               | Some t => (n, t) :: ret_positions (S n) c'
               | None => ret_positions (S n) c'
               end
  end.

Example C11_example :
  let one := Expr (EVPrim (PV PI32 1)) [] in
  let c := CSingle (Expr (EVPrim (PV PBool 1)) []) in
  let f := Fn (Id "f" 1 0) [(Id "x" 1 0, TPrim PI32)] (TPrim PI32)
              [SIf (IfS c (IBIf [SLoop [SRet one]]) None
                        (Some (IfS c (IBIf [SLet (Id "y" 1 0) false None one])
                                   (Some (IBIf [SRet one])) None)));
               SRet one] in
  let g := Fn (Id "g" 2 0) [] (TPrim PI32) [SLet (Id "y" 2 0) false None one; SRet one] in
  let h := Fn (Id "h" 3 0) [] (TPrim PI32)
              [SRet one; SIf (IfS c (IBIf [SRet one]) None None); SRet one] in
  match run [TFn f; TFn g; TFn h] with
  | ROk out =>
      map (fun b => ret_positions 0 (b_ctx b)) (o_fns out)
      = [[(5, "jump"); (13, "jump"); (15, "ret_label")];
         [(1, "ret")];
         [(0, "ret"); (3, "jump"); (5, "ret_label")]]%nat /\
      map b_mret (o_fns out) = [true; false; true] /\
      map e_kind (o_errors out)
      = [EForbiddenCodeAfterReturnDeprecated; EForbiddenCodeAfterReturnDeprecated;
         EReturnAlreadyCalled]
  | _ => False
  end.
Proof. vm_compute. repeat split; reflexivity. Qed.

Print Assumptions C11_return_form.
Print Assumptions C11_return_form_and_flag.
Print Assumptions C11_form_ok_exact.
Print Assumptions C11_flat_functions_plain_returns.
