(** C18 — The value-table clause: each block's value table holds exactly the names declared
    directly in that block (parameters in the root), bound to their latest declaration.
    Statements only; the proofs are in [Proofs/ValueTables.v].  The clauses on instruction stacks
    and on the shape of the tree are in [Properties/C18.v]. *)
From SA Require Import Model.
From SA.Spec Require Import Stack Tables.
From SA.Mon Require Import C12 C18 C18b.
From SA.Proofs Require Import ValueTables.
Local Open Scope list_scope.

(** For every accepted program (the analysis terminates and reports no error) the monitor
    [chk_C18_values] ([Mon/C18b.v]) holds of the model's output.  For every function and, in its
    block tree, for every block [b] paired with the source statement list [ss] that opened it
    (the function body for the root; the children of [b] are paired, in order, with the bodies
    [kid_bodies ss] that [ss] opens directly):
    - the declaring instructions ([ILet], [IFnArg]) of [b]'s own stack that do not belong to one
      of its children ([direct_decls b]) are as many as the names declared directly in [ss]
      (preceded, for the root, by the parameter names);
    - the table built by inserting these names, in order, bound to the value records of those
      instructions (a later [let] of a name replaces the earlier binding) is [b]'s value table:
      same size, and every binding found with an equal value record. *)
Theorem C18_value_tables :
  forall (p : program) (out : output),
    run p = ROk out -> o_errors out = [] -> chk_C18_values p out = true.
Proof. exact run_value_tables. Qed.

Check C18_value_tables :
  forall (p : program) (out : output),
    run p = ROk out -> o_errors out = [] -> chk_C18_values p out = true.

(** The same in Prop ([VT], hereditary over the tree), with Leibniz equality of the tables, and
    its reading as lookups: a name is bound in the table of a block exactly when it is declared
    directly in that block, and then to the value record of its LAST direct declaration. *)
Theorem C18_value_tables_prop :
  forall (p : program) (out : output),
    run p = ROk out -> o_errors out = [] ->
    Forall2 (fun (f : fn_decl) (root : block) =>
               VT (map (fun q => iname (fst q)) (fn_params f)) (fn_body f) root)
            (functions_of p) (o_fns out).
Proof. exact run_value_tables_VT. Qed.

Theorem C18_value_tables_reading :
  forall (own : list string) (ss : list stmt) (b : block),
    VT own ss b ->
    build_table (own ++ direct_lets ss) (direct_decls b) [] = Some (b_values b) /\
    length (own ++ direct_lets ss) = length (direct_decls b) /\
    (forall x, alookup x (b_values b) =
               alookup x (rev (table_of (own ++ direct_lets ss) (direct_decls b)))) /\
    Forall2 (VT []) (kid_bodies ss) (b_kids b).
Proof.
  intros own ss b H. split; [inversion H; assumption | exact (VT_reading own ss b H)].
Qed.

Check C18_value_tables_prop :
  forall (p : program) (out : output),
    run p = ROk out -> o_errors out = [] ->
    Forall2 (fun (f : fn_decl) (root : block) =>
               VT (map (fun q => iname (fst q)) (fn_params f)) (fn_body f) root)
            (functions_of p) (o_fns out).

(** Non-vacuity.

      fn f(x: i32) -> i32 {
        let mut a = 1;              // declared in the root
        if c {
          let mut a = 2;            // re-declared in the then-block
          loop { a = 3; break }     // assigned in a nested loop
          let b = 4;
          let b = 5;                // declared twice in one block
        }
        return a
      }

    The program is accepted.  The tables of the three blocks (root, then-block, loop block),
    as (source name, internal name): the root holds the parameter and its own [a]; the
    then-block holds its own [a] and the second [b]; the loop block holds nothing - the
    assignment names the then-block's [a.1] and declares nothing.  The root's stack holds all
    five declarations, two of them directly. *)
Definition C18b_fn : fn_decl :=
  let lit (n : Z) := Expr (EVPrim (PV PI32 n)) [] in
  let c := CSingle (Expr (EVPrim (PV PBool 1)) []) in
  let a := Id "a" 1 0 in
  let b := Id "b" 1 0 in
  Fn (Id "f" 1 0) [(Id "x" 1 0, TPrim PI32)] (TPrim PI32)
     [SLet a true None (lit 1%Z);
      SIf (IfS c (IBIf [SLet a true None (lit 2%Z);
                        SLoop [SBind a (lit 3%Z); SBreak];
                        SLet b false None (lit 4%Z);
                        SLet b false None (lit 5%Z)]) None None);
      SRet (Expr (EVName a) [])].

Fixpoint C18b_tables (b : block) : list (list (string * string)) :=
  match b with
  | Block vals _ _ _ _ _ kids =>
      map (fun kv => (fst kv, v_inner (snd kv))) vals ::
      (fix go (ks : list block) : list (list (string * string)) :=
         match ks with [] => [] | k :: ks' => C18b_tables k ++ go ks' end) kids
  end.

Definition C18b_binds (c : list instr) : list string :=
  flat_map (fun i => match i with IBind v _ => [v_inner v] | _ => [] end) c.

Example C18b_example :
  match run [TFn C18b_fn] with
  | ROk out =>
      o_errors out = [] /\
      map C18b_tables (o_fns out)
      = [[[("x", "x"); ("a", "a.0")]; [("a", "a.1"); ("b", "b.1")]; []]] /\
      map (fun r => (decl_names (b_ctx r), map v_inner (direct_decls r), C18b_binds (b_ctx r)))
          (o_fns out)
      = [(["x"; "a.0"; "a.1"; "b.0"; "b.1"], ["x"; "a.0"], ["a.1"])] /\
      chk_C18_values [TFn C18b_fn] out = true
  | _ => False
  end.
Proof. vm_compute. repeat split; reflexivity. Qed.

Print Assumptions C18_value_tables.
Print Assumptions C18_value_tables_prop.
Print Assumptions C18_value_tables_reading.
