(** C09 — Result registers are fresh and strictly increasing within a function.
    Statement only; proofs are in [Proofs/]. *)
From Coq Require Import Sorted.
From SA Require Import Model.
From SA.Mon Require Import C09.
From SA.Proofs Require Import Reach InvReg MonC09.
Local Open Scope list_scope.

(** For every program (accepted or not) on which the analysis terminates, in every function's
    complete instruction stack the result registers strictly increase in emission order (hence no
    register is written twice), are positive, and never exceed the block's final counter.
    Numbering restarts for every function: [function_body] starts each body from the empty root
    block, whose counter is 0 (see [Model.function_body]). *)
Theorem C09_registers_fresh_increasing :
  forall (p : program) (out : output),
    run p = ROk out ->
    Forall (fun root : block =>
              StronglySorted N.lt (defs (b_ctx root)) /\
              Forall (fun r => 0 < r <= b_reg root) (defs (b_ctx root)))
           (o_fns out).
Proof. exact run_registers_increasing. Qed.

(** The monitor run on the implementation's output decides exactly this statement. *)
Theorem C09_monitor_exact :
  forall out : output, chk_C09 out = true <-> Forall C09_root (o_fns out).
Proof. exact chk_C09_spec. Qed.

Check C09_registers_fresh_increasing :
  forall (p : program) (out : output),
    run p = ROk out ->
    Forall (fun root : block =>
              StronglySorted N.lt (defs (b_ctx root)) /\
              Forall (fun r => 0 < r <= b_reg root) (defs (b_ctx root)))
           (o_fns out).

Print Assumptions C09_registers_fresh_increasing.
Print Assumptions C09_monitor_exact.
