(** C12 — Internal value names are unique per function and stable at every use.
    Statement only; proofs are in [Proofs/]. *)
From SA Require Import Model.
From SA.Mon Require Import C12.
From SA.Proofs Require Import Trace InvNames MonC12.
Local Open Scope list_scope.

(** For every program (accepted or not) on which the analysis terminates, in every function's
    complete instruction stack: the internal names introduced by the [FunctionArg] and
    [LetBinding] instructions are pairwise distinct, whatever the source names; and the value
    record carried by every read ([ExpressionValue], [ExpressionStructValue]) and every assignment
    ([Binding]) is identical to the record one of those declarations introduced. *)
Theorem C12_names_unique_and_stable :
  forall (p : program) (out : output),
    run p = ROk out ->
    Forall (fun root : block =>
              NoDup (decl_names (b_ctx root)) /\
              (forall v, In v (reads (b_ctx root)) -> In v (decl_values (b_ctx root))))
           (o_fns out).
Proof. exact run_names_unique_stable. Qed.

Theorem C12_monitor_exact :
  forall out : output, chk_C12 out = true <-> Forall C12_root (o_fns out).
Proof. exact chk_C12_spec. Qed.

Check C12_names_unique_and_stable :
  forall (p : program) (out : output),
    run p = ROk out ->
    Forall (fun root : block =>
              NoDup (decl_names (b_ctx root)) /\
              (forall v, In v (reads (b_ctx root)) -> In v (decl_values (b_ctx root))))
           (o_fns out).

(** Non-vacuity: three declarations that collide on purpose ([x], [x.0] as a user name, [x]
    again in a nested block) are analysed without panic and get three distinct internal names. *)
Example C12_colliding_names :
  let lit := Expr (EVPrim (PV PI32 1)) [] in
  let f := Fn (Id "f" 1 0) [(Id "x" 1 0, TPrim PI32)] (TPrim PI32)
              [SLet (Id "x.0" 1 0) false None lit;
               SLet (Id "x" 1 0) false None lit;
               SIf (IfS (CSingle lit) (IBIf [SLet (Id "x" 1 0) false None lit]) None None);
               SRet lit] in
  match run [TFn f] with
  | ROk out => map (fun b => decl_names (b_ctx b)) (o_fns out) = [["x"; "x.1"; "x.0"; "x.2"]]%string
  | _ => False
  end.
Proof. vm_compute. reflexivity. Qed.

Print Assumptions C12_names_unique_and_stable.
Print Assumptions C12_monitor_exact.
