(** C18 — Each block's own instruction stack is an order-preserving subsequence of its parent's,
    the root's stack is the complete function stack, and the block tree mirrors the nesting of
    the source.  Statements only; proofs are in [Proofs/InvTree.v]. *)
From SA Require Import Model.
From SA.Mon Require Import C18.
From SA.Proofs Require Import Trace InvTree.
Local Open Scope list_scope.

(** For every program (accepted or not) on which the analysis terminates: in the tree of every
    function (the root block is the function's complete stack; [b_kids] are the finished nested
    blocks), every child's stack is a subsequence of its parent's, recursively. *)
Theorem C18_tree_subsequence :
  forall (p : program) (out : output), run p = ROk out -> Forall tree_sub (o_fns out).
Proof. exact run_tree_subsequence. Qed.

(** The same without the recursive definition: for every block [b] anywhere below a root and
    every child [k] of [b], the stack of [k] is a subsequence of the stack of [b]. *)
Theorem C18_parent_child :
  forall (p : program) (out : output),
    run p = ROk out ->
    forall root b k, In root (o_fns out) -> descendant root b -> In k (b_kids b) ->
                     subseq (b_ctx k) (b_ctx b).
Proof. exact run_tree_parent_child. Qed.

(** Hence every block's stack is a subsequence of the function's complete stack. *)
Theorem C18_below_root :
  forall (p : program) (out : output),
    run p = ROk out ->
    forall root d, In root (o_fns out) -> descendant root d -> subseq (b_ctx d) (b_ctx root).
Proof. exact run_tree_descendants. Qed.

(** The tree mirrors the source: one root per function declaration, in order, whose children are
    the blocks its statements open ([shapes_stmt]: a loop opens one block; an [if] opens its
    then-block and then its else-block or, without else, the blocks of its else-if as siblings).
    No hypothesis on the diagnostics: it holds for rejected programs too. *)
Theorem C18_tree_shape :
  forall (p : program) (out : output),
    run p = ROk out ->
    map shape_of_block (o_fns out)
    = map (fun f => Sh (shape_of_stmts (fn_body f))) (functions_of p).
Proof. exact run_tree_shape. Qed.

(** The monitors decide exactly these statements, and accept every output of the model. *)
Theorem C18_monitor_sub_exact :
  forall o : output, chk_C18_sub o = true <-> Forall tree_sub (o_fns o).
Proof. exact chk_C18_sub_spec. Qed.

Theorem C18_monitor_shape_exact :
  forall (p : program) (o : output),
    chk_C18_shape p o = true <->
    map shape_of_block (o_fns o) = map (fun f => Sh (shape_of_stmts (fn_body f))) (functions_of p).
Proof. exact chk_C18_shape_spec. Qed.

Theorem C18_monitor_accepts_model :
  forall (p : program) (out : output), run p = ROk out -> chk_C18 p out = true.
Proof. exact run_chk_C18. Qed.

Check C18_tree_subsequence :
  forall (p : program) (out : output), run p = ROk out -> Forall tree_sub (o_fns out).
Check C18_parent_child :
  forall (p : program) (out : output),
    run p = ROk out ->
    forall root b k, In root (o_fns out) -> descendant root b -> In k (b_kids b) ->
                     subseq (b_ctx k) (b_ctx b).
Check C18_below_root :
  forall (p : program) (out : output),
    run p = ROk out ->
    forall root d, In root (o_fns out) -> descendant root d -> subseq (b_ctx d) (b_ctx root).
Check C18_tree_shape :
  forall (p : program) (out : output),
    run p = ROk out ->
    map shape_of_block (o_fns out)
    = map (fun f => Sh (shape_of_stmts (fn_body f))) (functions_of p).
Check C18_monitor_sub_exact :
  forall o : output, chk_C18_sub o = true <-> Forall tree_sub (o_fns o).
Check C18_monitor_shape_exact :
  forall (p : program) (o : output),
    chk_C18_shape p o = true <->
    map shape_of_block (o_fns o) = map (fun f => Sh (shape_of_stmts (fn_body f))) (functions_of p).

(** Non-vacuity.  [if c { loop { return 1 } } else if c { let y = 1 } else { return 1 } return 1]:
    the analysis terminates without diagnostics; the root has three children (the then-block,
    which holds the loop block, and the two blocks of the else-if as its siblings); the stacks
    shrink from 16 instructions in the root to 8 / 5 / 1 in its children and 3 in the loop block
    (the then-block also received the chain's end label, pushed through it after it was finished);
    and the monitors accept. *)
Definition C18_example_fn : fn_decl :=
  let one := Expr (EVPrim (PV PI32 1)) [] in
  let c := CSingle (Expr (EVPrim (PV PBool 1)) []) in
  Fn (Id "f" 1 0) [(Id "x" 1 0, TPrim PI32)] (TPrim PI32)
     [SIf (IfS c (IBIf [SLoop [SRet one]]) None
               (Some (IfS c (IBIf [SLet (Id "y" 1 0) false None one])
                          (Some (IBIf [SRet one])) None)));
      SRet one].

Fixpoint stack_sizes (b : block) : list nat :=
  match b with Block _ _ _ _ _ c ks => length c :: flat_map stack_sizes ks end.

Example C18_example :
  match run [TFn C18_example_fn] with
  | ROk out =>
      o_errors out = [] /\
      map shape_of_block (o_fns out) = [Sh [Sh [Sh []]; Sh []; Sh []]] /\
      map stack_sizes (o_fns out) = [[16; 8; 3; 5; 1]]%nat /\
      chk_C18 [TFn C18_example_fn] out = true
  | _ => False
  end.
Proof. vm_compute. repeat split; reflexivity. Qed.

(** The monitor is not trivially true: a child holding an instruction its parent lacks, or the
    parent's instructions in another order, is refused. *)
Example C18_monitor_refuses :
  let a := ISetLabel "a" in
  let b := ISetLabel "b" in
  let blk c ks := Block [] [] [] 0 false c ks in
  let out ks := Output [] (Globals [] [] []) [] ks in
  chk_C18_sub (out [blk [a; b] [blk [a] []; blk [b] []; blk [a; b] [blk [] []]]]) = true /\
  chk_C18_sub (out [blk [a; b] [blk [b; a] []]]) = false /\
  chk_C18_sub (out [blk [a] [blk [a] [blk [b] []]]]) = false.
Proof. vm_compute. repeat split; reflexivity. Qed.

Print Assumptions C18_tree_subsequence.
Print Assumptions C18_parent_child.
Print Assumptions C18_below_root.
Print Assumptions C18_tree_shape.
Print Assumptions C18_monitor_sub_exact.
Print Assumptions C18_monitor_shape_exact.
Print Assumptions C18_monitor_accepts_model.
