(** C05b — Control flow, the INTENDED statement outside the class of finding F5.

    [Properties/C05.v] states C05 for the structured semantics WITH the recorded finding F5
    ([quirk = true]) and refutes the intended statement ([quirk = false]) by a program in which
    an [if] nested in an if-body is followed by a statement.  This file closes the gap from the
    other side: [tail_ifs] is the decidable syntactic class "in every if / else / else-if body
    (at any depth, also inside loops) an [if] statement may only be the LAST statement of that
    body" - function bodies and loop bodies may contain [if] statements anywhere -, and for every
    function body in this class
    - the two structured semantics are the same function (C05_quirk_is_intended_outside_K_F5),
    - hence, in an accepted program all of whose functions are in the class, the jump program of
      every function agrees with the INTENDED structured execution of its source statements,
      which never falls off the end of the body (C05_intended_outside_K_F5), and the intended
      monitor never fires (C05_model_passes_intended_monitor_outside_K_F5).
    So the deviation F5 lives exactly in the complement of [tail_ifs].

    Statements only.  Proofs: [Proofs/IntendedFlow.v]. *)
From SA Require Import Model.
From SA.Spec Require Import Stack Exec.
From SA.Mon Require Import Control.
From SA.Proofs Require Import IntendedFlow.
From SA.Properties Require Import C05.
Local Open Scope list_scope.

(** ** Outside K_F5 the quirk is invisible *)
Theorem C05_quirk_is_intended_outside_K_F5 :
  forall (body : list stmt),
    tail_ifs body = true ->
    forall (w : list bool) (n : nat), struct_exec true body w n = struct_exec false body w n.
Proof. exact struct_exec_quirk_irrelevant. Qed.

Check C05_quirk_is_intended_outside_K_F5 :
  forall (body : list stmt),
    tail_ifs body = true ->
    forall (w : list bool) (n : nat), struct_exec true body w n = struct_exec false body w n.

(** ** The intended C05 outside K_F5 *)
Theorem C05_intended_outside_K_F5 :
  forall (p : program) (out : output),
    run p = ROk out -> o_errors out = [] ->
    Forall (fun f => tail_ifs (fn_body f) = true) (functions_of p) ->
    Forall2 (fun (f : fn_decl) (root : block) =>
               forall (w : list bool) (n1 n2 : nat),
                 agree (flat_exec (b_ctx root) w n1) (struct_exec false (fn_body f) w n2) = true)
            (functions_of p) (o_fns out).
Proof. exact flow_simulation_intended. Qed.

Check C05_intended_outside_K_F5 :
  forall (p : program) (out : output),
    run p = ROk out -> o_errors out = [] ->
    Forall (fun f => tail_ifs (fn_body f) = true) (functions_of p) ->
    Forall2 (fun (f : fn_decl) (root : block) =>
               forall (w : list bool) (n1 n2 : nat),
                 agree (flat_exec (b_ctx root) w n1) (struct_exec false (fn_body f) w n2) = true)
            (functions_of p) (o_fns out).

(** ... and the intended structured execution never falls off the end of the body. *)
Theorem C05_intended_outside_K_F5_ok :
  forall (p : program) (out : output),
    run p = ROk out -> o_errors out = [] ->
    Forall (fun f => tail_ifs (fn_body f) = true) (functions_of p) ->
    Forall2 (fun (f : fn_decl) (root : block) =>
               forall (w : list bool) (n1 n2 : nat),
                 agree (flat_exec (b_ctx root) w n1) (struct_exec false (fn_body f) w n2) = true /\
                 flat_ok (snd (struct_exec false (fn_body f) w n2)) = true)
            (functions_of p) (o_fns out).
Proof. exact flow_simulation_intended_ok. Qed.

(** Termination transfers, intended semantics. *)
Theorem C05_intended_return_is_matched_outside_K_F5 :
  forall (p : program) (out : output),
    run p = ROk out -> o_errors out = [] ->
    Forall (fun f => tail_ifs (fn_body f) = true) (functions_of p) ->
    Forall2 (fun (f : fn_decl) (root : block) =>
               forall w n2 ev,
                 struct_exec false (fn_body f) w n2 = (ev, Returned) ->
                 exists n1, forall n, (n1 <= n)%nat ->
                                      flat_exec (b_ctx root) w n = (ev, Returned))
            (functions_of p) (o_fns out).
Proof. exact flow_simulation_intended_returns. Qed.

(** The intended monitor never fires. *)
Theorem C05_model_passes_intended_monitor_outside_K_F5 :
  forall (p : program) (out : output),
    run p = ROk out -> o_errors out = [] ->
    Forall (fun f => tail_ifs (fn_body f) = true) (functions_of p) ->
    forall k fuel, chk_C05 false k fuel p out = true.
Proof. exact chk_C05_intended_holds. Qed.

Check C05_model_passes_intended_monitor_outside_K_F5 :
  forall (p : program) (out : output),
    run p = ROk out -> o_errors out = [] ->
    Forall (fun f => tail_ifs (fn_body f) = true) (functions_of p) ->
    forall k fuel, chk_C05 false k fuel p out = true.

(** The two monitors coincide outside K_F5, on any output. *)
Theorem C05_monitors_coincide_outside_K_F5 :
  forall (p : program),
    Forall (fun f => tail_ifs (fn_body f) = true) (functions_of p) ->
    forall k fuel (o : output), chk_C05 true k fuel p o = chk_C05 false k fuel p o.
Proof. exact chk_C05_quirk_irrelevant. Qed.

(** ** The class separates the witnesses *)

(** The F5 witness of [Properties/C05.v] is in K_F5: its [main] has an [if] followed by a call
    inside an if-body. *)
Example C05_F5_program_in_K_F5 :
  map (fun f => tail_ifs (fn_body f)) (functions_of C05_F5_program) = [true; false].
Proof. vm_compute. reflexivity. Qed.

(** The loop / break / continue program of [Properties/C05.v] is outside K_F5. *)
Example C05_loop_program_outside_K_F5 :
  forallb (fun f => tail_ifs (fn_body f)) (functions_of C05_loop_program) = true.
Proof. vm_compute. reflexivity. Qed.

(** An [if] as the LAST statement of an if-body (and of an else-body, and of an else-if body,
    three levels deep, inside a loop too) is outside K_F5; the intended monitor passes. *)
Definition C05b_tail_program : program :=
  [C05_callee "g"; C05_callee "h";
   TFn (Fn (C05_id "main") [] C05_i32
          [SIf (IfS C05_true
                    (IBIf [C05_call "g";
                           SIf (IfS C05_true
                                    (IBIf [C05_call "h";
                                           SIf (IfS C05_true (IBIf [C05_call "g"]) None None)])
                                    (Some (IBIf [SIf (IfS C05_true (IBIf []) None None)]))
                                    None)])
                    None
                    (Some (IfS C05_true
                               (IBIf [C05_call "h"; SIf (IfS C05_true (IBIf []) None None)])
                               None None)));
           C05_call "h";
           SLoop [SIf (IfS C05_true
                           (IBLoop [C05_call "g";
                                    SIf (IfS C05_true (IBLoop [SBreak]) None None)])
                           None None);
                  SIf (IfS C05_true (IBLoop [SContinue]) None None);
                  C05_call "h";
                  SBreak];
           SRet (C05_lit 0)])].

Example C05b_tail_program_outside_K_F5 :
  forallb (fun f => tail_ifs (fn_body f)) (functions_of C05b_tail_program) = true.
Proof. vm_compute. reflexivity. Qed.

Example C05b_tail_program_intended :
  match run C05b_tail_program with
  | ROk out =>
      o_errors out = [] /\
      chk_C05 false 6 300 C05b_tail_program out = true /\
      chk_C05 true 6 300 C05b_tail_program out = true
  | _ => False
  end.
Proof. vm_compute. repeat split; reflexivity. Qed.

Print Assumptions C05_quirk_is_intended_outside_K_F5.
Print Assumptions C05_intended_outside_K_F5.
Print Assumptions C05_intended_outside_K_F5_ok.
Print Assumptions C05_intended_return_is_matched_outside_K_F5.
Print Assumptions C05_model_passes_intended_monitor_outside_K_F5.
Print Assumptions C05_monitors_coincide_outside_K_F5.
