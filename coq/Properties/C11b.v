(** C11 — One function-return instruction, of the right form (the part that needs acceptance).
    Statement only; the proof is in [Proofs/RetOnce.v].  The part that holds for every program
    (the form of each return instruction) is in [Properties/C11.v]. *)
From SA Require Import Model.
From SA.Spec Require Import Stack.
From SA.Mon Require Import Control.
From SA.Proofs Require Import ExecBasic RetOnce.
Local Open Scope list_scope.

(** For every accepted program (the analysis terminates and reports no error) the monitor
    [chk_C11] holds of the model's output: for every function [f] and its root block, the
    instruction stack is [pre ++ [last]] where
    - [last] is a function-return instruction ([IFnRet] / [IFnRetLabel]) and no instruction of
      [pre] is one;
    - [last] is the with-label form exactly when [pre] holds a jump-to-return ([IJumpFnRet]);
    - the jump-to-return instructions of the stack are as many as the [return] statements nested
      in the if / loop bodies of [fn_body f] ([nested_rets]): they are emitted only for returns
      inside nested bodies, once for each. *)
Theorem C11_single_return_of_the_right_form :
  forall (p : program) (out : output),
    run p = ROk out -> o_errors out = [] -> chk_C11 p out = true.
Proof. exact run_single_return. Qed.

Check C11_single_return_of_the_right_form :
  forall (p : program) (out : output),
    run p = ROk out -> o_errors out = [] -> chk_C11 p out = true.

(** The same statement in its Prop reading ([chk_C11_spec] : the monitor decides [C11_fn]). *)
Theorem C11_single_return_of_the_right_form_spec :
  forall (p : program) (out : output),
    run p = ROk out -> o_errors out = [] ->
    Forall2 (fun (f : fn_decl) (root : block) =>
               exists pre last,
                 b_ctx root = pre ++ [last] /\
                 FnRet last /\
                 (forall i, In i pre -> ~ FnRet i) /\
                 (FnRetLabel last <-> exists i, In i pre /\ JumpFnRet i) /\
                 count_instr is_jump_fn_ret (b_ctx root) = nested_rets (fn_body f))
            (functions_of p) (o_fns out).
Proof. exact run_single_return_spec. Qed.

Check C11_single_return_of_the_right_form_spec :
  forall (p : program) (out : output),
    run p = ROk out -> o_errors out = [] ->
    Forall2 (fun (f : fn_decl) (root : block) =>
               exists pre last,
                 b_ctx root = pre ++ [last] /\
                 FnRet last /\
                 (forall i, In i pre -> ~ FnRet i) /\
                 (FnRetLabel last <-> exists i, In i pre /\ JumpFnRet i) /\
                 count_instr is_jump_fn_ret (b_ctx root) = nested_rets (fn_body f))
            (functions_of p) (o_fns out).

(** Non-vacuity.  An accepted function whose returns are nested at depth 2 in an else-if chain
    inside a loop:

      loop {
        if c { if c { return 1 } }
        else if c { break }
        else if c { loop { return 1 } }
        else { continue }
      }
      return 1

    Two nested returns, two jump-to-return instructions; the one function-return instruction is
    the last of the 28 instructions and carries the label. *)
Definition C11b_tag (i : instr) : list string :=
  match i with
  | IJumpFnRet _ => ["jump"]
  | IFnRet _ => ["ret"]
  | IFnRetLabel _ => ["ret_label"]
  | _ => []
  end.

Definition C11b_fn : fn_decl :=
  let one := Expr (EVPrim (PV PI32 1)) [] in
  let c := CSingle (Expr (EVPrim (PV PBool 1)) []) in
  Fn (Id "f" 1 0) [(Id "x" 1 0, TPrim PI32)] (TPrim PI32)
     [SLoop [SIf (IfS c (IBLoop [SIf (IfS c (IBLoop [SRet one]) None None)]) None
                      (Some (IfS c (IBLoop [SBreak]) None
                                 (Some (IfS c (IBLoop [SLoop [SRet one]])
                                            (Some (IBLoop [SContinue])) None)))))];
      SRet one].

Example C11b_example :
  match run [TFn C11b_fn] with
  | ROk out =>
      o_errors out = [] /\
      nested_rets (fn_body C11b_fn) = 2%nat /\
      map (fun b => (length (b_ctx b), flat_map C11b_tag (b_ctx b))) (o_fns out)
      = [(28%nat, ["jump"; "jump"; "ret_label"])] /\
      chk_C11 [TFn C11b_fn] out = true
  | _ => False
  end.
Proof. vm_compute. repeat split; reflexivity. Qed.

Print Assumptions C11_single_return_of_the_right_form.
Print Assumptions C11_single_return_of_the_right_form_spec.
