(** C16 — Reordering the top-level statements does not change the analysis.
    Statements only; proofs are in [Proofs/Driver.v]. *)
From Coq Require Import Permutation.
From SA Require Import Model.
From SA.Proofs Require Import Driver.
Local Open Scope list_scope.

(** [p'] is a reordering of [p] that keeps the relative order of the constant declarations;
    the struct names and the function names of [p] are duplicate-free (duplicate constant names
    are allowed: the constants keep their order).  If the analysis of [p] terminates, so does the
    analysis of [p'], and:
    - the global tables are the same maps (pointwise equal lookups, [geq]) and the same
      multisets of bindings; the constants table is the same list;
    - the error lists are permutations of each other (kind, named identifier, location), hence
      the verdict is the same;
    - every function has the same root block (instruction stack and block tree) and the same
      body errors in both analyses, and the outputs list exactly these root blocks. *)
Theorem C16_reorder :
  forall (p p' : program) (out : output),
    NoDup (struct_names p) -> NoDup (fn_names p) ->
    Permutation p p' -> filter is_const p = filter is_const p' ->
    run p = ROk out ->
    exists out', run p' = ROk out' /\
      geq (o_globals out) (o_globals out') /\
      Permutation (g_types (o_globals out)) (g_types (o_globals out')) /\
      g_consts (o_globals out) = g_consts (o_globals out') /\
      Permutation (g_funcs (o_globals out)) (g_funcs (o_globals out')) /\
      Permutation (o_errors out) (o_errors out') /\
      (o_errors out = [] <-> o_errors out' = []) /\
      o_fns out = map (body_root (o_globals out)) (functions_of p) /\
      o_fns out' = map (body_root (o_globals out')) (functions_of p') /\
      (forall f, body_root (o_globals out) f = body_root (o_globals out') f) /\
      (forall f, body_errors (o_globals out) f = body_errors (o_globals out') f) /\
      Permutation (combine (functions_of p) (o_fns out))
                  (combine (functions_of p') (o_fns out')).
Proof. exact run_reorder. Qed.

(** The same with the hypotheses as in the text of C16: no duplicate declaration names at all. *)
Theorem C16_reorder_no_duplicate_names :
  forall (p p' : program) (out : output),
    NoDup (struct_names p) -> NoDup (const_names p) -> NoDup (fn_names p) ->
    Permutation p p' -> filter is_const p = filter is_const p' ->
    run p = ROk out ->
    exists out', run p' = ROk out' /\
      geq (o_globals out) (o_globals out') /\
      Permutation (g_types (o_globals out)) (g_types (o_globals out')) /\
      g_consts (o_globals out) = g_consts (o_globals out') /\
      Permutation (g_funcs (o_globals out)) (g_funcs (o_globals out')) /\
      Permutation (o_errors out) (o_errors out') /\
      (o_errors out = [] <-> o_errors out' = []) /\
      o_fns out = map (body_root (o_globals out)) (functions_of p) /\
      o_fns out' = map (body_root (o_globals out')) (functions_of p') /\
      (forall f, body_root (o_globals out) f = body_root (o_globals out') f) /\
      (forall f, body_errors (o_globals out) f = body_errors (o_globals out') f) /\
      Permutation (combine (functions_of p) (o_fns out))
                  (combine (functions_of p') (o_fns out')).
Proof. exact run_reorder_no_duplicate_names. Qed.

(** A function keeps its root block wherever it moves. *)
Theorem C16_reorder_roots :
  forall (p p' : program) (out out' : output) (i : nat) (f : fn_decl),
    NoDup (struct_names p) -> NoDup (fn_names p) ->
    Permutation p p' -> filter is_const p = filter is_const p' ->
    run p = ROk out -> run p' = ROk out' ->
    nth_error (functions_of p) i = Some f ->
    exists j, nth_error (functions_of p') j = Some f /\
              nth_error (o_fns out') j = nth_error (o_fns out) i.
Proof. exact run_reorder_roots. Qed.

(** The body phase uses the global tables only through lookups. *)
Theorem C16_body_respects_lookup_equivalence :
  forall G G' : globals,
    geq G G' -> forall (e : list err) (f : fn_decl), function_body G e f = function_body G' e f.
Proof. exact function_body_geq. Qed.

Check C16_reorder :
  forall (p p' : program) (out : output),
    NoDup (struct_names p) -> NoDup (fn_names p) ->
    Permutation p p' -> filter is_const p = filter is_const p' ->
    run p = ROk out ->
    exists out', run p' = ROk out' /\
      geq (o_globals out) (o_globals out') /\
      Permutation (g_types (o_globals out)) (g_types (o_globals out')) /\
      g_consts (o_globals out) = g_consts (o_globals out') /\
      Permutation (g_funcs (o_globals out)) (g_funcs (o_globals out')) /\
      Permutation (o_errors out) (o_errors out') /\
      (o_errors out = [] <-> o_errors out' = []) /\
      o_fns out = map (body_root (o_globals out)) (functions_of p) /\
      o_fns out' = map (body_root (o_globals out')) (functions_of p') /\
      (forall f, body_root (o_globals out) f = body_root (o_globals out') f) /\
      (forall f, body_errors (o_globals out) f = body_errors (o_globals out') f) /\
      Permutation (combine (functions_of p) (o_fns out))
                  (combine (functions_of p') (o_fns out')).

Check C16_reorder_roots :
  forall (p p' : program) (out out' : output) (i : nat) (f : fn_decl),
    NoDup (struct_names p) -> NoDup (fn_names p) ->
    Permutation p p' -> filter is_const p = filter is_const p' ->
    run p = ROk out -> run p' = ROk out' ->
    nth_error (functions_of p) i = Some f ->
    exists j, nth_error (functions_of p') j = Some f /\
              nth_error (o_fns out') j = nth_error (o_fns out) i.

Check C16_body_respects_lookup_equivalence :
  forall G G' : globals,
    geq G G' -> forall (e : list err) (f : fn_decl), function_body G e f = function_body G' e f.

(** ** Not vacuous: the struct moves behind the constant that uses it and between the functions,
    [g] moves before the second constant; the hypotheses hold, both programs are analysed, the
    outputs differ as lists and agree as the theorem says. *)
Definition ex_u8 : ast_ty := TPrim PU8.
Definition ex_S : ast_ty := TStruct (Id "S" 0 0) [(Id "a" 0 1, ex_u8)].
Definition ex_var (x : string) (l o : N) : expr := Expr (EVName (Id x l o)) [].

Definition ex_struct : top := TStructDecl (Id "S" 1 0) [(Id "a" 1 1, ex_u8)].
Definition ex_c1 : top := TConst (Id "c1" 2 0) ex_u8 (CExpr (CVal (PV PU8 1)) []).
Definition ex_c2 : top :=
  TConst (Id "c2" 3 0) ex_u8 (CExpr (CConst (Id "c1" 3 1)) [(OPlus, CConst (Id "c1" 3 2))]).
Definition ex_c1_again : top := TConst (Id "c1" 4 0) ex_u8 (CExpr (CVal (PV PU8 2)) []).
Definition ex_f : top :=
  TFn (Fn (Id "f" 5 0) [(Id "x" 5 1, ex_u8)] ex_u8 [SRet (ex_var "zz" 6 0)]).
Definition ex_g : top :=
  TFn (Fn (Id "g" 7 0) [(Id "s" 7 1, ex_S)] ex_u8
          [SLet (Id "y" 8 0) false None
                (Expr (EVName (Id "c2" 8 1)) [(OPlus, EVField (Id "s" 8 2) (Id "a" 8 3))]);
           SRet (ex_var "y" 9 0)]).
Definition ex_h : top :=
  TFn (Fn (Id "h" 10 0) [(Id "q" 10 1, TStruct (Id "Nope" 10 2) [])] ex_u8 [SRet (ex_var "q" 11 0)]).

Definition C16_example_p : program := [ex_struct; ex_f; ex_c1; ex_c2; ex_c1_again; ex_g; ex_h].
Definition C16_example_p' : program := [ex_h; ex_c1; ex_g; ex_f; ex_c2; ex_struct; ex_c1_again].

Example C16_example :
  NoDup (struct_names C16_example_p) /\ NoDup (fn_names C16_example_p) /\
  Permutation C16_example_p C16_example_p' /\
  filter is_const C16_example_p = filter is_const C16_example_p' /\
  exists out out',
    run C16_example_p = ROk out /\ run C16_example_p' = ROk out' /\
    map fst (g_funcs (o_globals out)) = ["f"; "g"] /\
    map fst (g_funcs (o_globals out')) = ["g"; "f"] /\
    map e_kind (o_errors out) =
      [EConstantAlreadyExist; ETypeNotFound; EValueNotFound; EReturnNotFound;
       ETypeNotFound; EWrongReturnType] /\
    map e_kind (o_errors out') =
      [ETypeNotFound; EConstantAlreadyExist; ETypeNotFound; EWrongReturnType;
       EValueNotFound; EReturnNotFound] /\
    nth_error (o_fns out) 1 = nth_error (o_fns out') 1 /\
    nth_error (o_fns out) 0 = nth_error (o_fns out') 2 /\
    nth_error (o_fns out) 2 = nth_error (o_fns out') 0.
Proof.
  split; [vm_compute; repeat constructor; intros []|].
  split; [vm_compute; repeat constructor; cbn; intuition discriminate|].
  split.
  { unfold C16_example_p, C16_example_p'.
    (* move each element of the right-hand list to its place *)
    apply (Permutation_cons_app [ex_h; ex_c1; ex_g; ex_f; ex_c2] [ex_c1_again]). cbn [app].
    apply (Permutation_cons_app [ex_h; ex_c1; ex_g] [ex_c2; ex_c1_again]). cbn [app].
    apply (Permutation_cons_app [ex_h] [ex_g; ex_c2; ex_c1_again]). cbn [app].
    apply (Permutation_cons_app [ex_h; ex_g] [ex_c1_again]). cbn [app].
    apply (Permutation_cons_app [ex_h; ex_g] []). cbn [app].
    apply perm_swap. }
  split; [reflexivity|].
  eexists. eexists.
  split; [vm_compute; reflexivity|]. split; [vm_compute; reflexivity|].
  vm_compute. repeat split.
Qed.

Print Assumptions C16_reorder.
Print Assumptions C16_reorder_no_duplicate_names.
Print Assumptions C16_reorder_roots.
Print Assumptions C16_body_respects_lookup_equivalence.
Print Assumptions C16_example.
