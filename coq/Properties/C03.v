(** C03 — Names resolve by lexical scoping and operands keep source order.
    Statements only; proofs are in [Proofs/Resolution.v] (with [ResolutionBase.v],
    [ResolutionLogic.v], [ResolutionExpr.v], [ResolutionStmt.v]) and [Proofs/ResolutionReading.v]. *)
From SA Require Import Model.
From SA.Mon Require Import C03.
From SA.Proofs Require Import ResolutionBase ResolutionLogic ResolutionReading Resolution.
From SA.Spec Require ResolverTests.
Local Open Scope list_scope.

(** On every accepted program ("accepted": the analysis terminates with an empty error list) the
    monitor of [Mon/C03.v] accepts the model's output: for every function, in order, the root
    instruction stack -- every internal value name replaced by the index of the instruction
    ([FunctionArg], then [LetBinding]) that declares it -- is event for event what an independent
    lexical resolver (declarations numbered in source order, a plain stack of scopes) emits for
    the source of the function: every read, field read and assignment refers to the declaration
    that lexical scoping selects (innermost block first, the most recent declaration in it; the
    initialiser of a [let] is resolved before the [let] takes effect; the bodies of an
    if / else-if / else chain are siblings), names that resolve to no value are constants, and
    reads, calls, declarations, assignments and returns appear in source evaluation order
    (operands left to right whatever the operator priorities, arguments before their call). *)
Theorem C03_resolution_and_order :
  forall p out, run p = ROk out -> o_errors out = [] -> chk_C03 p out = true.
Proof. exact run_resolution_events. Qed.

(** What the monitor decides for one function, as a proposition.  [stack_reads D lets c es]
    ([Proofs/ResolutionReading.v], printed below): the stack [c], read after the internal names
    [D] have been declared in this order, yields the events [es]; a declaring instruction must
    declare a name that is not in [D] and appends it ([LetBinding]: the event [EDecl (length D)],
    its own index; a [FunctionArg] may not follow a [LetBinding]); a read, a field read, an
    assignment of a value [v] is [EUse d], [EUseField d a], [EAssign d] with
    [nth_error D d = Some (v_inner v)], i.e. [d] is the index of the instruction that declared
    [v]'s internal name; constants, calls, extension leaves and returns are events by
    themselves; operators, labels, jumps and conditions are none.
    The monitor accepts [f] against [root] iff the resolver succeeds on [f] with some events,
    the root stack reads as the same events from nothing declared, and the stack has as many
    [FunctionArg] instructions as [f] has parameters. *)
Theorem C03_monitor_reading :
  forall (f : fn_decl) (root : block),
    chk_C03_fn f root = true <->
    exists es, src_events f = Some es /\
               stack_reads [] false (b_ctx root) es /\
               nargs (b_ctx root) = length (fn_params f).
Proof. exact chk_C03_fn_reading. Qed.

(** The expression level on its own.  [Inv na s S n Ev] ([Proofs/ResolutionLogic.v]): the stack
    side reads the root stack of [s] as the events [Ev] having seen [n] declarations ([na]
    parameters), and under its translation of internal names to declaration numbers the value
    tables of the live blocks of [s] are the scopes [S] of the resolver.  When the analysis of
    an expression adds no error, the resolver succeeds on it in [S], the root stack has grown by
    instructions that read as exactly its events, and the relation holds again. *)
Theorem C03_expression_level :
  forall GL na fuel e s r s',
    GWF GL -> frames s <> [] -> expression GL fuel e s = Ok r s' ->
    (length (errs s') <= length (errs s))%nat ->
    forall S n Ev, Inv na s S n Ev ->
      exists es, ev_expr S e = Some es /\ Inv na s' S n (Ev ++ es) /\ r <> None.
Proof. exact expression_resolution_events. Qed.

Check C03_resolution_and_order :
  forall p out, run p = ROk out -> o_errors out = [] -> chk_C03 p out = true.
Check C03_monitor_reading :
  forall (f : fn_decl) (root : block),
    chk_C03_fn f root = true <->
    exists es, src_events f = Some es /\
               stack_reads [] false (b_ctx root) es /\
               nargs (b_ctx root) = length (fn_params f).
Check C03_expression_level :
  forall GL na fuel e s r s',
    GWF GL -> frames s <> [] -> expression GL fuel e s = Ok r s' ->
    (length (errs s') <= length (errs s))%nat ->
    forall S n Ev, Inv na s S n Ev ->
      exists es, ev_expr S e = Some es /\ Inv na s' S n (Ev ++ es) /\ r <> None.

Print stack_reads.

(** ** Non-vacuity: programs of [Spec/ResolverTests.v] *)

(** what the stack side reads from the k-th function of the model's output *)
Definition stack_side (p : program) (k : nat) : option (nat * list ev) :=
  match run p with
  | ROk out => match nth_error (o_fns out) k with
               | Some root => stack_events (b_ctx root)
               | None => None
               end
  | _ => None
  end.

Definition source_side (p : program) (k : nat) : option (list ev) :=
  match nth_error (functions_of p) k with Some f => src_events f | None => None end.

(** Shadowing: [fn f(a, b) { let a = a + b; let b = a; return a + b }].  The initialiser of the
    shadowing [let a] reads the parameters (declarations 0 and 1); after it [a] is declaration 2;
    the return reads the two lets (2 and 3).  The program is accepted, the monitor compares 5
    references, and both sides yield the same events. *)
Example C03_shadowing :
  let p := ResolverTests.p01 in
  match run p with
  | ROk out =>
      o_errors out = [] /\ chk_C03 p out = true /\ judged_C03 p = 5%nat /\
      source_side p 0 = Some [EUse 0; EUse 1; EDecl 2; EUse 2; EDecl 3; EUse 2; EUse 3; ERet]%nat /\
      stack_side p 0 = Some (2, [EUse 0; EUse 1; EDecl 2; EUse 2; EDecl 3; EUse 2; EUse 3; ERet])%nat
  | _ => False
  end.
Proof. vm_compute. repeat split; reflexivity. Qed.

(** Sibling blocks: [fn f(c) { let x = 1; if c { let x = x + 10; let y = x } else if c
    { let x = x + 20; let y = x } else { let x = x + 30; let y = x }; return x }].  In each of
    the three sibling bodies the initialiser of the inner [let x] reads the outer [x]
    (declaration 1), [let y] reads the inner one (2, 4, 6), and after the chain [x] is the outer
    declaration again: no body sees the declarations of a sibling. *)
Example C03_sibling_blocks :
  let p := ResolverTests.p02 in
  match run p with
  | ROk out =>
      o_errors out = [] /\ chk_C03 p out = true /\ judged_C03 p = 9%nat /\
      source_side p 0 = Some [EDecl 1;
                              EUse 0; EUse 1; EDecl 2; EUse 2; EDecl 3;
                              EUse 0; EUse 1; EDecl 4; EUse 4; EDecl 5;
                              EUse 1; EDecl 6; EUse 6; EDecl 7;
                              EUse 1; ERet]%nat /\
      stack_side p 0 = Some (1, [EDecl 1;
                                 EUse 0; EUse 1; EDecl 2; EUse 2; EDecl 3;
                                 EUse 0; EUse 1; EDecl 4; EUse 4; EDecl 5;
                                 EUse 1; EDecl 6; EUse 6; EDecl 7;
                                 EUse 1; ERet])%nat
  | _ => False
  end.
Proof. vm_compute. repeat split; reflexivity. Qed.

(** The monitor is not trivially true: redirecting the read of the shadowing [let]'s value in
    the return of [p01] to the parameter it shadows (the internal name "a" instead of "a.0")
    is rejected. *)
Example C03_monitor_rejects :
  let p := ResolverTests.p01 in
  let redirect (i : instr) : instr :=
    match i with
    | IExprValue v r => if String.eqb (v_inner v) "a.0" then IExprValue (Value "a" (v_ty v) (v_mut v)) r
                        else i
    | _ => i
    end in
  match run p with
  | ROk out =>
      let damaged :=
        Output (o_errors out) (o_globals out) (o_gstack out)
               (map (fun b => Block (b_values b) (b_inner b) (b_labels b) (b_reg b) (b_mret b)
                                    (map redirect (b_ctx b)) (b_kids b)) (o_fns out)) in
      chk_C03 p out = true /\ chk_C03 p damaged = false
  | _ => False
  end.
Proof. vm_compute. split; reflexivity. Qed.

Print Assumptions C03_resolution_and_order.
Print Assumptions C03_monitor_reading.
Print Assumptions C03_expression_level.
