(** C05e — The value-level monitor with a CONSTANT-SIZE interpretation never fires on the model.

    [Mon/C05h.chk_C05h salts nflat nsrc p o] is the theorem-backed monitor of C05d with
    fingerprints in place of terms ([hash_interp salt : interp N]: every value is a number below
    a prime of about 2^30, every operation a few multiply-adds reduced at once, comparisons and
    truth decided by the salt), so that its cost does not depend on the data - a loop that
    doubles a value at every iteration costs the same at every iteration.  It is an instance of
    the generic monitor [chk_C05_gen], which is proved never to fire on the output of the model
    for an accepted program for EVERY family of interpretations with a reflexive equality test.

    Statements only; the proofs are in [Proofs/ValueSimHash.v], from the theorems of C05c. *)
From SA Require Import Model.
From SA.Spec Require Import Stack Exec ValueExec.
From SA.Mon Require Import Control C05v C05w C05h.
From SA.Proofs Require Import ValueSimHash.
From SA.Properties Require Import C05c.
Local Open Scope list_scope.

(** the generic monitor: every value type, every family of interpretations whose equality test is
    reflexive, every family of argument lists of the right lengths *)
Theorem C05e_generic_monitor_passes_on_model :
  forall (V : Type) (mk : N -> interp V) (args : nat -> list V),
    (forall salt v, i_eqb (mk salt) v v = true) -> (forall n, length (args n) = n) ->
    forall (salts : list N) (nflat nsrc : nat) (p : program) (out : output),
      run p = ROk out -> o_errors out = [] -> chk_C05_gen V mk args salts nflat nsrc p out = true.
Proof. exact chk_C05_gen_on_model. Qed.

(** the constant-size monitor *)
Theorem C05e_hash_monitor_passes_on_model :
  forall (salts : list N) (nflat nsrc : nat) (p : program) (out : output),
    run p = ROk out -> o_errors out = [] -> chk_C05h salts nflat nsrc p out = true.
Proof. exact chk_C05h_on_model. Qed.

Check C05e_generic_monitor_passes_on_model :
  forall (V : Type) (mk : N -> interp V) (args : nat -> list V),
    (forall salt v, i_eqb (mk salt) v v = true) -> (forall n, length (args n) = n) ->
    forall (salts : list N) (nflat nsrc : nat) (p : program) (out : output),
      run p = ROk out -> o_errors out = [] -> chk_C05_gen V mk args salts nflat nsrc p out = true.

Check C05e_hash_monitor_passes_on_model :
  forall (salts : list N) (nflat nsrc : nat) (p : program) (out : output),
    run p = ROk out -> o_errors out = [] -> chk_C05h salts nflat nsrc p out = true.

Print Assumptions C05e_generic_monitor_passes_on_model.
Print Assumptions C05e_hash_monitor_passes_on_model.

(** ** Examples, by computation *)
Definition c05e_salts : list N := [1; 8; 15; 22]%N.

(** the feature program of C05c passes ... *)
Example C05e_example :
  match run C05c_program with
  | ROk out => o_errors out = [] /\ chk_C05h c05e_salts 1200 300 C05c_program out = true
  | _ => False
  end.
Proof. vm_compute. split; reflexivity. Qed.

(** ... and its two damaged outputs fail: fingerprints tell the operands of a [Minus] apart, and
    the salts take both branches of the conditional whose targets are exchanged *)
Example C05e_damaged_operands :
  match run C05c_program with
  | ROk out =>
      chk_C05h c05e_salts 1200 300 C05c_program
               (c05c_damage (c05c_map_first c05c_swap_minus) out) = false
  | _ => False
  end.
Proof. vm_compute. reflexivity. Qed.

Example C05e_damaged_targets :
  match run C05c_program with
  | ROk out =>
      chk_C05h c05e_salts 1200 300 C05c_program
               (c05c_damage (c05c_map_first c05c_swap_targets) out) = false
  | _ => False
  end.
Proof. vm_compute. reflexivity. Qed.

(** ** Performance: a loop that doubles its data.
    [fn g(x) { let mut a = x; loop { a = a + a; if a > 1 { break } } return a }]
    With the free interpretation the term bound to [a] doubles at every iteration; with
    fingerprints every iteration costs the same. *)
Definition C05e_doubling : program :=
  [TFn (Fn (c05c_id "g") [(c05c_id "x", c05c_i32)] c05c_i32
     [SLet (c05c_id "a") true None (c05c_e (c05c_v "x"));
      SLoop [SBind (c05c_id "a") (Expr (c05c_v "a") [(OPlus, c05c_v "a")]);
             SIf (IfS (CLogic (LC (c05c_e (c05c_v "a")) CGreat (c05c_e (c05c_n 1)) None))
                      (IBLoop [SBreak]) None None)];
      SRet (c05c_e (c05c_v "a"))])].

(** how many iterations the four salts make before the comparison lets them out (the number of
    assignments of the returning machine run; [None]: still looping after 3000 instructions) *)
Definition c05e_iterations (p : program) (nflat : nat) : list (option nat) :=
  match run p with
  | ROk o =>
      match o_fns o, functions_of p with
      | root :: _, f :: _ =>
          map (fun salt =>
                 match vflat_exec N (hash_interp salt) (b_ctx root) (hash_args (length (fn_params f))) nflat with
                 | (e, VReturned) =>
                     Some (length (filter (fun ev => match ev with VAssign _ => true | _ => false end) e))
                 | _ => None
                 end) [1; 8; 15; 22; 29; 36; 43; 50]%N
      | _, _ => []
      end
  | _ => []
  end.

Eval vm_compute in c05e_iterations C05e_doubling 3000.

Example C05e_doubling_is_cheap :
  match run C05e_doubling with
  | ROk out =>
      o_errors out = [] /\
      chk_C05h [1; 8; 15; 22; 29; 36; 43; 50]%N 3000 3000 C05e_doubling out = true
  | _ => False
  end.
Proof. Time vm_compute. split; reflexivity. Qed.

(** the same loop without an exit: the machine spends all its 3000 instructions and the source
    all its fuel in the loop (hundreds to thousands of doublings: out of reach of the free
    interpretation), both run out of fuel, the traces are compared as prefixes *)
Definition C05e_doubling_forever : program :=
  [TFn (Fn (c05c_id "g") [(c05c_id "x", c05c_i32)] c05c_i32
     [SLet (c05c_id "a") true None (c05c_e (c05c_v "x"));
      SLoop [SBind (c05c_id "a") (Expr (c05c_v "a") [(OPlus, c05c_v "a")]);
             SIf (IfS (CLogic (LC (c05c_e (c05c_v "a")) CGreat (c05c_e (c05c_n 1)) None))
                      (IBLoop [SBind (c05c_id "a") (Expr (c05c_v "a") [(OMultiply, c05c_v "a")])])
                      None None)];
      SRet (c05c_e (c05c_v "a"))])].

Definition c05e_statuses (p : program) (nflat nsrc : nat) : list (vstatus * nat * vstatus * nat) :=
  match run p with
  | ROk o =>
      match o_fns o, functions_of p with
      | root :: _, f :: _ =>
          map (fun salt =>
                 let a := hash_args (length (fn_params f)) in
                 let tf := vflat_exec N (hash_interp salt) (b_ctx root) a nflat in
                 let ts := vstruct_exec N (hash_interp salt) true f a nsrc in
                 (snd tf, length (fst tf), snd ts, length (fst ts))) [1; 8]%N
      | _, _ => []
      end
  | _ => []
  end.

Example C05e_forever_both_out_of_fuel :
  map (fun x => (fst (fst (fst x)), snd (fst x))) (c05e_statuses C05e_doubling_forever 3000 300) =
  [(VOutOfFuel, VOutOfFuel); (VOutOfFuel, VOutOfFuel)].
Proof. vm_compute. reflexivity. Qed.

(** four salts, 3000 machine instructions, source fuel 300 *)
Example C05e_doubling_forever_is_cheap :
  match run C05e_doubling_forever with
  | ROk out =>
      o_errors out = [] /\
      chk_C05h c05e_salts 3000 300 C05e_doubling_forever out = true
  | _ => False
  end.
Proof. Time vm_compute. split; reflexivity. Qed.

(** one salt, 3000 machine instructions, source fuel 3000 (about 3000 doublings) *)
Example C05e_doubling_forever_deep :
  match run C05e_doubling_forever with
  | ROk out => chk_C05h [1]%N 3000 3000 C05e_doubling_forever out = true
  | _ => False
  end.
Proof. Time vm_compute. reflexivity. Qed.
