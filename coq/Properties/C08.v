(** C08 — Registers are written before they are read.
    Statements only; proofs are in [Proofs/DefUse.v] and [Proofs/MonC08.v]. *)
From SA Require Import Model.
From SA.Spec Require Import Stack.
From SA.Mon Require Import C08.
From SA.Proofs Require Import DefUse MonC08.
Local Open Scope list_scope.

(** The intended statement ([chk_C08 false]: in the instruction stack of every function of an
    accepted program, each register named as an operand, as a logic-condition input or as the
    subject of a conditional instruction is the result register of an earlier instruction of the
    same stack) is FALSE of the faithful model: recorded finding F7, [C08_refuted_F7] below.

    What holds is the statement modulo F7 ([chk_C08 true]): a register that is read is the
    result register of an earlier instruction of the same stack, or the register after the
    result register of an earlier [Call] / [ExpressionStructValue].  "Accepted": the analysis
    terminates with an empty error list. *)
Theorem C08_reads_written_or_f7 :
  forall (p : program) (out : output),
    run p = ROk out -> o_errors out = [] -> chk_C08 true out = true.
Proof. exact run_reads_written_or_f7. Qed.

(** What the monitor decides, in words: for every position of the root stack and every register
    [n] read there, [n] is defined by an earlier instruction, or ([q = true] only) [n <> 0] and
    [n - 1] is defined by an earlier call or field read. *)
Theorem C08_monitor_exact :
  forall (q : bool) (b : block),
    chk_C08_root q b = true <->
    forall pre i post n, b_ctx b = pre ++ i :: post -> In n (use_regs i) ->
      (In n (defs pre) \/
       (q = true /\ n <> 0 /\
        exists j, In j pre /\ def_reg j = Some (n - 1) /\ is_call_or_field j = true)).
Proof. exact chk_C08_root_reading. Qed.

(** The expression level needs no acceptance hypothesis: whatever errors are reported, the
    instructions pushed while an expression is analysed read only registers that are written
    (or F7-shaped) at that point, and the result names such a register. *)
Theorem C08_expression_level :
  forall G fuel e s r s',
    frames s <> [] -> expression G fuel e s = Ok r s' ->
    (exists c, Ctx s' = Ctx s ++ c /\ scan true (Seen s) c = true) /\
    (forall er, r = Some er -> forallb (reg_ok true (Seen s')) (eres_reg er) = true).
Proof. exact expression_reads_written_or_f7. Qed.

Check C08_reads_written_or_f7 :
  forall (p : program) (out : output),
    run p = ROk out -> o_errors out = [] -> chk_C08 true out = true.
Check C08_monitor_exact :
  forall (q : bool) (b : block),
    chk_C08_root q b = true <->
    forall pre i post n, b_ctx b = pre ++ i :: post -> In n (use_regs i) ->
      (In n (defs pre) \/
       (q = true /\ n <> 0 /\
        exists j, In j pre /\ def_reg j = Some (n - 1) /\ is_call_or_field j = true)).
Check C08_expression_level :
  forall G fuel e s r s',
    frames s <> [] -> expression G fuel e s = Ok r s' ->
    (exists c, Ctx s' = Ctx s ++ c /\ scan true (Seen s) c = true) /\
    (forall er, r = Some er -> forallb (reg_ok true (Seen s')) (eres_reg er) = true).

(** Finding F7: [fn g() -> i32 { return 1 }  fn f() -> i32 { let x = g() + 1; return x }] is
    accepted; the call writes register 1 and the addition names register 2, which no
    instruction writes.  The intended statement fails, the statement modulo F7 holds, and
    exactly one read falls under the exception. *)
Example C08_refuted_F7 :
  let one := Expr (EVPrim (PV PI32 1)) [] in
  let g := Fn (Id "g" 1 0) [] (TPrim PI32) [SRet one] in
  let f := Fn (Id "f" 2 0) [] (TPrim PI32)
              [SLet (Id "x" 2 0) false None
                    (Expr (EVCall (Id "g" 2 0) []) [(OPlus, EVPrim (PV PI32 1))]);
               SRet (Expr (EVName (Id "x" 2 0)) [])] in
  match run [TFn g; TFn f] with
  | ROk out =>
      o_errors out = [] /\ chk_C08 false out = false /\ chk_C08 true out = true /\
      f7_count out = 1%nat /\
      map (fun b => (defs (b_ctx b), flat_map use_regs (b_ctx b))) (o_fns out)
      = [([], []); ([1; 3; 4], [2; 3; 4])]
  | _ => False
  end.
Proof. vm_compute. repeat split; reflexivity. Qed.

(** Without calls and field reads the intended statement holds:
    [fn h(a, b, c, d) -> i32 { loop { if a < b && c > d { break } else if a < b { continue }
    else { let y = a + b } } return a }] — an else-if chain in a loop with a logic condition —
    is accepted and passes the monitor without the exception (14 reads over 36 instructions). *)
Example C08_holds_without_calls :
  let i32 := TPrim PI32 in
  let nm x := Expr (EVName (Id x 1 0)) [] in
  let lc := CLogic (LC (nm "a") CLess (nm "b")
                       (Some (LAnd, LC (nm "c") CGreat (nm "d") None))) in
  let c2 := CLogic (LC (nm "a") CLess (nm "b") None) in
  let h := Fn (Id "h" 1 0)
              [(Id "a" 1 0, i32); (Id "b" 1 0, i32); (Id "c" 1 0, i32); (Id "d" 1 0, i32)] i32
              [SLoop [SIf (IfS lc (IBLoop [SBreak]) None
                            (Some (IfS c2 (IBLoop [SContinue])
                                       (Some (IBLoop [SLet (Id "y" 1 0) false None
                                                           (Expr (EVName (Id "a" 1 0))
                                                                 [(OPlus, EVName (Id "b" 1 0))])]))
                                       None)))];
               SRet (nm "a")] in
  match run [TFn h] with
  | ROk out =>
      o_errors out = [] /\ chk_C08 false out = true /\ f7_count out = 0%nat /\
      map (fun b => (length (b_ctx b), flat_map use_regs (b_ctx b))) (o_fns out)
      = [(36%nat, [1; 2; 4; 5; 3; 6; 7; 8; 9; 10; 11; 12; 13; 14])]
  | _ => False
  end.
Proof. vm_compute. repeat split; reflexivity. Qed.

(** Why "accepted" is needed above the expression level: [fn f() -> i32 { if z < 1 { } return 1 }]
    with [z] undeclared is rejected (value not found, empty condition); on that error path
    [condition_expression] returns the current counter, 1, which nothing wrote, and
    [IfConditionLogic] names it. *)
Example C08_needs_acceptance :
  let one := Expr (EVPrim (PV PI32 1)) [] in
  let f := Fn (Id "f" 1 0) [] (TPrim PI32)
              [SIf (IfS (CLogic (LC (Expr (EVName (Id "z" 1 0)) []) CLess one None))
                        (IBIf []) None None);
               SRet one] in
  match run [TFn f] with
  | ROk out =>
      map e_kind (o_errors out) = [EValueNotFound; EConditionIsEmpty] /\
      chk_C08 true out = false /\
      map (fun b => (defs (b_ctx b), flat_map use_regs (b_ctx b))) (o_fns out) = [([], [1])]
  | _ => False
  end.
Proof. vm_compute. repeat split; reflexivity. Qed.

Print Assumptions C08_reads_written_or_f7.
Print Assumptions C08_monitor_exact.
Print Assumptions C08_expression_level.
