(** C13 — Totality: "Analysing any program built from the public AST types returns normally — it
    never panics, aborts or loops forever — ...; the only documented exception is a
    loop-flavoured if-body used outside a loop."  Domain: identifiers whose numeric suffix after
    a single dot is below 2^32.

    Statements only; the proofs are in [Proofs/Probe.v] (probe loops), [Proofs/Frames.v] (frame
    discipline, statement placement), [Proofs/Fuel.v] (fuel) and [Proofs/Total.v] (suffixes, top).

    The model's abnormal results are the four panics of [panic_kind] and [OutOfFuel]:
    - [PNoFrame] and [OutOfFuel] never happen, on any program (layers 1 and 4);
    - [PIllKinded] cannot happen on what the four Rust statement enums can express (K), and
      [PLoopLabel] -- the documented exception -- needs a loop-flavoured if-body outside a
      loop (P1) (layer 2);
    - [PSuffixOverflow] (the debug-build overflow of [i + 1] in [set_attr_counter]) needs a
      suffix of at least 2^64 - 1; it cannot happen when the declared names have suffixes below
      2^32 and every function has fewer than 2^32 nodes (S) (layer 3 and [Proofs/Total.v]). *)
From SA Require Import Model.
From SA.Mon Require Import C13.
From SA.Proofs Require Import Probe Frames Fuel Total.
Local Open Scope list_scope.

(** ** Layer 3: the probe loops *)
(** on a name it has produced, [set_attr_counter] increments the number *)
Theorem C13_probe_step :
  forall (a : string) (k : N),
    nodot a -> k + 1 < two64 ->
    set_attr_counter (a ++ "." ++ dec k)%string = Some (a ++ "." ++ dec (k + 1))%string.
Proof. exact set_attr_counter_step. Qed.

(** with the fuel the model reads from the state, both probe loops find a free name (or
    overflow), from every base and in every state *)
Theorem C13_inner_probe_terminates :
  forall (n : string) (s : bst), next_inner_name (inner_probe_fuel (frames s)) n s <> OutOfFuel.
Proof. exact next_inner_name_terminates. Qed.

Theorem C13_label_probe_terminates :
  forall (n : string) (s : bst), label_probe (label_probe_fuel (frames s)) n s <> OutOfFuel.
Proof. exact label_probe_terminates. Qed.

(** below a bound on the suffixes of the base and of the registered names there is no overflow,
    and the name found is at most at the bound *)
Theorem C13_inner_probe_no_overflow :
  forall (B : N) (fuel : nat) (n : string) (s : bst),
    B < two64 -> sfx n < B ->
    (forall x, inner_exists x (frames s) = true -> sfx x < B) ->
    match next_inner_name fuel n s with
    | Ok r s' => s' = s /\ sfx r <= B /\ inner_exists r (frames s) = false
    | Panic _ => False
    | OutOfFuel => True
    end.
Proof. exact next_inner_name_no_overflow. Qed.

(** ** Layer 1: frame discipline, all programs *)
Theorem C13_function_body_frames :
  forall (G : globals) (errs0 : list err) (f : fn_decl),
    match function_body G errs0 f with
    | Ok _ s => exists root, frames s = [root]
    | Panic k => k <> PNoFrame
    | OutOfFuel => True
    end.
Proof. exact function_body_frames. Qed.

Theorem C13_never_noframe : forall (p : program) (k : panic_kind), run p = RPanic k -> k <> PNoFrame.
Proof. exact run_never_noframe. Qed.

(** ** Layer 2: statement placement *)
Theorem C13_never_illkinded :
  forall (p : program) (k : panic_kind),
    (forall f, In f (functions_of p) -> kinded_fn f = true /\ loops_fn f = true) ->
    run p = RPanic k -> k <> PIllKinded.
Proof. exact run_never_illkinded. Qed.

Theorem C13_never_looplabel :
  forall (p : program) (k : panic_kind),
    (forall f, In f (functions_of p) -> kinded_fn f = true /\ loops_fn f = true) ->
    run p = RPanic k -> k <> PLoopLabel.
Proof. exact run_never_looplabel. Qed.

(** ** Layer 4: fuel, all programs *)
(** [expression] has enough fuel when it gets the size of the expression *)
Theorem C13_expression_fuel : forall (f : nat) (e : expr), (size_expr e <= f)%nat -> fuel_ok f e.
Proof. exact fuel_ok_size. Qed.

Theorem C13_never_out_of_fuel : forall p : program, run p <> ROutOfFuel.
Proof. exact run_never_out_of_fuel. Qed.

(** ** No suffix overflow under (S) *)
Theorem C13_never_overflow :
  forall (p : program) (k : panic_kind),
    (forall f, In f (functions_of p) -> names_fn f = true) ->
    run p = RPanic k -> k <> PSuffixOverflow.
Proof. exact run_never_overflow. Qed.

(** ** Totality on the domain *)
Theorem C13_total : forall p : program, in_domain_b p = true -> exists out, run p = ROk out.
Proof. exact run_total. Qed.

Check C13_probe_step :
  forall (a : string) (k : N),
    nodot a -> k + 1 < two64 ->
    set_attr_counter (a ++ "." ++ dec k)%string = Some (a ++ "." ++ dec (k + 1))%string.
Check C13_inner_probe_terminates :
  forall (n : string) (s : bst), next_inner_name (inner_probe_fuel (frames s)) n s <> OutOfFuel.
Check C13_label_probe_terminates :
  forall (n : string) (s : bst), label_probe (label_probe_fuel (frames s)) n s <> OutOfFuel.
Check C13_function_body_frames :
  forall (G : globals) (errs0 : list err) (f : fn_decl),
    match function_body G errs0 f with
    | Ok _ s => exists root, frames s = [root]
    | Panic k => k <> PNoFrame
    | OutOfFuel => True
    end.
Check C13_never_noframe : forall (p : program) (k : panic_kind), run p = RPanic k -> k <> PNoFrame.
Check C13_never_illkinded :
  forall (p : program) (k : panic_kind),
    (forall f, In f (functions_of p) -> kinded_fn f = true /\ loops_fn f = true) ->
    run p = RPanic k -> k <> PIllKinded.
Check C13_never_looplabel :
  forall (p : program) (k : panic_kind),
    (forall f, In f (functions_of p) -> kinded_fn f = true /\ loops_fn f = true) ->
    run p = RPanic k -> k <> PLoopLabel.
Check C13_never_out_of_fuel : forall p : program, run p <> ROutOfFuel.
Check C13_never_overflow :
  forall (p : program) (k : panic_kind),
    (forall f, In f (functions_of p) -> names_fn f = true) ->
    run p = RPanic k -> k <> PSuffixOverflow.
Check C13_total : forall p : program, in_domain_b p = true -> exists out, run p = ROk out.

(** ** Examples *)
Definition i32 := TPrim PI32.
Definition num (z : Z) : expr_val := EVPrim (PV PI32 z).
Definition one (v : expr_val) : expr := Expr v [].

Fixpoint nest (n : nat) (body : list stmt) : list stmt :=
  match n with O => body | S n' => [SLoop (nest n' body)] end.
Fixpoint chain (n : nat) : list (binop * expr_val) :=
  match n with
  | O => []
  | S n' => ((if Nat.even n then OPlus else OMultiply), num (Z.of_nat n)) :: chain n'
  end.

(** 30 nested loops around a declaration whose expression is a chain of 40 operators of two
    priorities: in the domain, analysed normally, no diagnostics *)
Definition C13_deep : program :=
  [TFn (Fn (Id "f" 1 3) [(Id "a" 1 5, i32)] i32
        (nest 30 [SLet (Id "x" 2 5) false None (Expr (EVName (Id "a" 2 9)) (chain 40)); SBreak]
         ++ [SRet (one (num 1))]))].
Example C13_deep_runs :
  in_domain_b C13_deep = true /\
  match run C13_deep with ROk out => o_errors out = [] | _ => False end.
Proof. vm_compute. split; reflexivity. Qed.

(** the documented exception: a loop-flavoured if-body at function level is outside the domain
    and makes the analysis panic *)
Definition C13_loop_body_outside_loop : program :=
  [TFn (Fn (Id "f" 1 3) [] i32
        [SIf (IfS (CSingle (one (EVPrim (PV PBool 1)))) (IBLoop [SBreak]) None None);
         SRet (one (num 1))])].
Example C13_documented_exception :
  in_domain_b C13_loop_body_outside_loop = false /\
  run C13_loop_body_outside_loop = RPanic PLoopLabel.
Proof. vm_compute. split; reflexivity. Qed.

(** finding F1, after its repair: [fn g() -> i32 {return 1}  fn f() -> i32 { g(1); return 1 }]
    (more arguments than parameters) is in the domain and is analysed normally, with one
    diagnostic *)
Definition C13_F1 : program :=
  [TFn (Fn (Id "g" 1 3) [] i32 [SRet (one (num 1))]);
   TFn (Fn (Id "f" 2 3) [] i32 [SCall (Id "g" 3 1) [one (num 1)]; SRet (one (num 1))])].
Example C13_F1_no_panic :
  in_domain_b C13_F1 = true /\
  match run C13_F1 with
  | ROk out => map e_kind (o_errors out) = [EFunctionParameterTypeWrong]
  | _ => False
  end.
Proof. vm_compute. split; reflexivity. Qed.

(** the bound on the suffixes is needed: a declared name with the suffix 2^64 - 1 is outside the
    domain and overflows *)
Definition C13_suffix_at_the_edge : program :=
  [TFn (Fn (Id "f" 1 3) [] i32
        [SLet (Id "x.18446744073709551615" 2 5) false None (one (num 1)); SRet (one (num 1))])].
Example C13_suffix_overflow :
  in_domain_b C13_suffix_at_the_edge = false /\
  run C13_suffix_at_the_edge = RPanic PSuffixOverflow.
Proof. vm_compute. split; reflexivity. Qed.

Print Assumptions C13_probe_step.
Print Assumptions C13_inner_probe_terminates.
Print Assumptions C13_label_probe_terminates.
Print Assumptions C13_inner_probe_no_overflow.
Print Assumptions C13_function_body_frames.
Print Assumptions C13_never_noframe.
Print Assumptions C13_never_illkinded.
Print Assumptions C13_never_looplabel.
Print Assumptions C13_expression_fuel.
Print Assumptions C13_never_out_of_fuel.
Print Assumptions C13_never_overflow.
Print Assumptions C13_total.
