(** C05 — Control flow: the jump program of a function does what its source statements do.

    "For an accepted program, executing a function's instruction stack as a jump program
    (conditional instructions choose between their two labels, jumps go to the instruction that
    sets the label, return instructions stop) performs, for every sequence of condition
    outcomes, the same sequence of let-bindings, assignments, calls and return as executing the
    source statements with structured semantics.  Execution never falls off the end of the stack
    and never jumps to a label that is not set."

    Statements only.  Proofs: [Proofs/FlowBasic.v] (safety), [Proofs/FlowSem.v] (big steps of the
    jump program), [Proofs/FlowExpr.v] (expressions: events in evaluation order),
    [Proofs/FlowFrag.v] (compiled fragments with exits, no analyzer involved),
    [Proofs/FlowSim.v] (the analyzer followed forward, the driver).

    STATUS.  Safety holds as intended.  The equivalence holds of the model for the structured
    semantics WITH the recorded finding F5 ([quirk = true]: an [if] nested in an if / else /
    else-if body reuses the end label of the outermost enclosing if chain, so the statements
    after it in its block are skipped).  For the intended semantics ([quirk = false]) it is
    refuted by [C05_refuted_F5] below. *)
From SA Require Import Model.
From SA.Spec Require Import Stack Exec.
From SA.Mon Require Import Control.
From SA.Proofs Require Import FlowBasic FlowSim.
Local Open Scope list_scope.

(** ** Safety *)

(** (A) For every program (accepted or not) on which the analysis terminates, whatever the
    outcomes of the conditions and the fuel, the jump program of a function never looks up a
    label that is not set. *)
Theorem C05_never_jumps_to_unset_label :
  forall (p : program) (out : output),
    run p = ROk out ->
    forall root, In root (o_fns out) ->
    forall (w : list bool) (n : nat) (l : string),
      snd (flat_exec (b_ctx root) w n) <> BadLabel l.
Proof. exact flat_never_bad_label. Qed.

Check C05_never_jumps_to_unset_label :
  forall (p : program) (out : output),
    run p = ROk out ->
    forall root, In root (o_fns out) ->
    forall (w : list bool) (n : nat) (l : string),
      snd (flat_exec (b_ctx root) w n) <> BadLabel l.

(** (B) In an accepted program the jump program of a function never runs off the end of its
    stack: the stack ends with the function-level return, every jump lands inside the stack, and
    every other instruction moves one step forward. *)
Theorem C05_never_falls_off :
  forall (p : program) (out : output),
    run p = ROk out -> o_errors out = [] ->
    forall root, In root (o_fns out) ->
    forall (w : list bool) (n : nat),
      snd (flat_exec (b_ctx root) w n) <> FellOff.
Proof. exact flat_never_falls_off. Qed.

Check C05_never_falls_off :
  forall (p : program) (out : output),
    run p = ROk out -> o_errors out = [] ->
    forall root, In root (o_fns out) ->
    forall (w : list bool) (n : nat),
      snd (flat_exec (b_ctx root) w n) <> FellOff.

Theorem C05_stack_ends_with_return :
  forall (p : program) (out : output),
    run p = ROk out -> o_errors out = [] ->
    forall root, In root (o_fns out) ->
    exists pre last, b_ctx root = pre ++ [last] /\ is_fn_ret last = true.
Proof. exact accepted_stack_ends_with_return. Qed.

(** ** (C) The simulation, with the recorded finding F5 *)

(** In an accepted program, for every function (paired with its root block), every string of
    condition outcomes [w] and every pair of fuels [n1], [n2]: the trace of the jump program and
    the trace of the structured execution agree ([agree]: the event lists are equal when both
    runs end with [Returned]; otherwise - a fuel or the outcomes ran out - one is a prefix of
    the other), and the structured execution never falls off the end of the body. *)
Theorem C05_simulation_with_F5 :
  forall (p : program) (out : output),
    run p = ROk out -> o_errors out = [] ->
    Forall2 (fun (f : fn_decl) (root : block) =>
               forall (w : list bool) (n1 n2 : nat),
                 agree (flat_exec (b_ctx root) w n1) (struct_exec true (fn_body f) w n2) = true /\
                 flat_ok (snd (struct_exec true (fn_body f) w n2)) = true)
            (functions_of p) (o_fns out).
Proof. exact flow_simulation. Qed.

Check C05_simulation_with_F5 :
  forall (p : program) (out : output),
    run p = ROk out -> o_errors out = [] ->
    Forall2 (fun (f : fn_decl) (root : block) =>
               forall (w : list bool) (n1 n2 : nat),
                 agree (flat_exec (b_ctx root) w n1) (struct_exec true (fn_body f) w n2) = true /\
                 flat_ok (snd (struct_exec true (fn_body f) w n2)) = true)
            (functions_of p) (o_fns out).

(** Both runs returned: the same events. *)
Theorem C05_same_events_when_both_return :
  forall (p : program) (out : output),
    run p = ROk out -> o_errors out = [] ->
    Forall2 (fun (f : fn_decl) (root : block) =>
               forall w n1 n2 ev1 ev2,
                 flat_exec (b_ctx root) w n1 = (ev1, Returned) ->
                 struct_exec true (fn_body f) w n2 = (ev2, Returned) ->
                 events_eqb ev1 ev2 = true)
            (functions_of p) (o_fns out).
Proof. exact flow_simulation_returned. Qed.

(** Termination transfers: when the structured execution returns, the jump program returns with
    the same events for every sufficiently large fuel. *)
Theorem C05_structured_return_is_matched :
  forall (p : program) (out : output),
    run p = ROk out -> o_errors out = [] ->
    Forall2 (fun (f : fn_decl) (root : block) =>
               forall w n2 ev,
                 struct_exec true (fn_body f) w n2 = (ev, Returned) ->
                 exists n1, forall n, (n1 <= n)%nat ->
                                      flat_exec (b_ctx root) w n = (ev, Returned))
            (functions_of p) (o_fns out).
Proof. exact flow_simulation_returns. Qed.

(** Hence the monitor (with [quirk = true]) never fires on the model's output for an accepted
    program, whatever the bound on the outcome strings and the fuel. *)
Theorem C05_model_passes_monitor_with_F5 :
  forall (p : program) (out : output),
    run p = ROk out -> o_errors out = [] ->
    forall k fuel, chk_C05 true k fuel p out = true.
Proof. exact chk_C05_quirk_holds. Qed.

Check C05_model_passes_monitor_with_F5 :
  forall (p : program) (out : output),
    run p = ROk out -> o_errors out = [] ->
    forall k fuel, chk_C05 true k fuel p out = true.

(** ** The intended statement is false of the faithful model (finding F5) *)

Definition C05_i32 : ast_ty := TPrim PI32.
Definition C05_lit (n : Z) : expr := Expr (EVPrim (PV PI32 n)) [].
Definition C05_true : cond := CSingle (Expr (EVPrim (PV PBool 1)) []).
Definition C05_id (s : string) : ident := Id s 1 0.
Definition C05_call (f : string) : stmt := SCall (C05_id f) [].
Definition C05_callee (name : string) : top :=
  TFn (Fn (C05_id name) [] C05_i32 [SRet (C05_lit 1)]).

(** [fn g() {return 1}
     fn main() { if a { if b { } g(); } return 0 }]:
    whatever [b] is, the jump program skips [g()]. *)
Definition C05_F5_program : program :=
  [C05_callee "g";
   TFn (Fn (C05_id "main") [] C05_i32
          [SIf (IfS C05_true
                    (IBIf [SIf (IfS C05_true (IBIf []) None None); C05_call "g"])
                    None None);
           SRet (C05_lit 0)])].

Example C05_refuted_F5 :
  match run C05_F5_program with
  | ROk out =>
      o_errors out = [] /\
      chk_C05 false 4 200 C05_F5_program out = false /\
      chk_C05 true 4 200 C05_F5_program out = true
  | _ => False
  end.
Proof. vm_compute. repeat split; reflexivity. Qed.

(** the witness: outcomes "both conditions true" *)
Example C05_F5_witness :
  match run C05_F5_program with
  | ROk out =>
      match rev (o_fns out), rev (functions_of C05_F5_program) with
      | root :: _, f :: _ =>
          flat_exec (b_ctx root) [true; true] 200 = ([EvRet], Returned) /\
          struct_exec false (fn_body f) [true; true] 200 = ([EvCall "g"; EvRet], Returned) /\
          struct_exec true (fn_body f) [true; true] 200 = ([EvRet], Returned)
      | _, _ => False
      end
  | _ => False
  end.
Proof. vm_compute. repeat split; reflexivity. Qed.

(** ** Non-vacuity: loop / break / continue / nested return, where no if is nested in an if
    body followed by a statement: the intended semantics holds too. *)
Definition C05_loop_program : program :=
  [C05_callee "g"; C05_callee "h";
   TFn (Fn (C05_id "main") [] C05_i32
          [SLoop [C05_call "g";
                  SIf (IfS C05_true (IBLoop [C05_call "h"; SContinue]) None None);
                  SIf (IfS C05_true (IBLoop [SBreak]) None
                           (Some (IfS C05_true (IBLoop [SRet (C05_lit 1)]) None None)));
                  C05_call "h"];
           C05_call "g";
           SRet (C05_lit 0)])].

Example C05_loop_break_continue_return :
  match run C05_loop_program with
  | ROk out =>
      o_errors out = [] /\
      chk_C05 false 4 200 C05_loop_program out = true /\
      chk_C05 true 4 200 C05_loop_program out = true
  | _ => False
  end.
Proof. vm_compute. repeat split; reflexivity. Qed.

Print Assumptions C05_never_jumps_to_unset_label.
Print Assumptions C05_never_falls_off.
Print Assumptions C05_stack_ends_with_return.
Print Assumptions C05_simulation_with_F5.
Print Assumptions C05_same_events_when_both_return.
Print Assumptions C05_structured_return_is_matched.
Print Assumptions C05_model_passes_monitor_with_F5.
