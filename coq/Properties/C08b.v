(** C08b — Registers are written before they are read: the INTENDED statement outside the class
    of finding F7.

    [Properties/C08.v] states C08 modulo the recorded finding F7 ([chk_C08 true]) and refutes
    the intended statement ([chk_C08 false]) by a program whose operator chain has a call as an
    operand.  This file closes the gap from the other side.  The F7 shape arises exactly at two
    leaves of an operator chain: a call used as a VALUE ([EVCall]: operand, initialiser, argument,
    return value, side of a condition) and a field read ([EVField]) - after the instruction
    they push, the analyzer increments the counter once more and the result names the register
    after the one written.  [no_f7_leaves] is the decidable syntactic class "no [EVCall] and no
    [EVField] occurs in any expression of any function body" (call STATEMENTS are allowed; their
    arguments are expressions and must themselves be free of the two leaves).  For an accepted
    program in this class the intended statement holds.  So the deviation F7 lives exactly in
    the complement of [no_f7_leaves].

    Statements only.  Proofs: [Proofs/DefUseIntended.v]. *)
From SA Require Import Model.
From SA.Spec Require Import Stack.
From SA.Mon Require Import C08.
From SA.Proofs Require Import DefUse DefUseIntended.
Local Open Scope list_scope.

(** In the instruction stack of every function of an accepted program without call-as-value and
    field-read leaves, each register named as an operand, as a logic-condition input or as the
    subject of a conditional instruction is the result register of an earlier instruction of the
    same stack.  "Accepted": the analysis terminates with an empty error list. *)
Theorem C08_intended_outside_K_F7 :
  forall (p : program) (out : output),
    run p = ROk out -> o_errors out = [] -> no_f7_leaves p = true -> chk_C08 false out = true.
Proof. exact run_reads_written. Qed.

Check C08_intended_outside_K_F7 :
  forall (p : program) (out : output),
    run p = ROk out -> o_errors out = [] -> no_f7_leaves p = true -> chk_C08 false out = true.

(** The expression level needs no acceptance hypothesis: whatever errors are reported, the
    instructions pushed while an expression without the two leaves is analysed read only
    registers that are written at that point, and the result names such a register. *)
Theorem C08_intended_expression_level :
  forall G fuel e s r s',
    no_f7_expr e = true ->
    frames s <> [] -> expression G fuel e s = Ok r s' ->
    (exists c, Ctx s' = Ctx s ++ c /\ scan false (Seen s) c = true) /\
    (forall er, r = Some er -> forallb (reg_ok false (Seen s')) (eres_reg er) = true).
Proof. exact expression_reads_written. Qed.

Check C08_intended_expression_level :
  forall G fuel e s r s',
    no_f7_expr e = true ->
    frames s <> [] -> expression G fuel e s = Ok r s' ->
    (exists c, Ctx s' = Ctx s ++ c /\ scan false (Seen s) c = true) /\
    (forall er, r = Some er -> forallb (reg_ok false (Seen s')) (eres_reg er) = true).

(** The class is closed under the re-bracketing of operator chains by priority. *)
Theorem C08_class_closed_under_priority_folding :
  forall e, no_f7_expr e = true -> no_f7_expr (fold_priority e) = true.
Proof. exact no_f7_fold_priority. Qed.

(** On any output, the intended monitor implies the monitor with the finding. *)
Theorem C08_intended_implies_with_F7 :
  forall (o : output), chk_C08 false o = true -> chk_C08 true o = true.
Proof. exact chk_C08_false_true. Qed.

(** ** The class separates the witnesses *)

(** The F7 witness of [Properties/C08.v] ([C08_refuted_F7]):
    [fn g() -> i32 { return 1 }  fn f() -> i32 { let x = g() + 1; return x }].
    It is in K_F7 (a call as an operand), it is accepted, and the intended monitor fires. *)
Definition C08_F7_program : program :=
  let one := Expr (EVPrim (PV PI32 1)) [] in
  let g := Fn (Id "g" 1 0) [] (TPrim PI32) [SRet one] in
  let f := Fn (Id "f" 2 0) [] (TPrim PI32)
              [SLet (Id "x" 2 0) false None
                    (Expr (EVCall (Id "g" 2 0) []) [(OPlus, EVPrim (PV PI32 1))]);
               SRet (Expr (EVName (Id "x" 2 0)) [])] in
  [TFn g; TFn f].

Example C08_F7_program_in_K_F7 :
  no_f7_leaves C08_F7_program = false /\
  map no_f7_fn (functions_of C08_F7_program) = [true; false] /\
  match run C08_F7_program with
  | ROk out => o_errors out = [] /\ chk_C08 false out = false /\ chk_C08 true out = true
  | _ => False
  end.
Proof. vm_compute. repeat split; reflexivity. Qed.

(** A field read is in K_F7 too. *)
Example C08_field_read_in_K_F7 :
  no_f7_expr (Expr (EVName (Id "a" 1 0)) [(OPlus, EVField (Id "s" 1 0) (Id "x" 1 0))]) = false /\
  no_f7_expr (Expr (EVSub (Expr (EVField (Id "s" 1 0) (Id "x" 1 0)) [])) []) = false.
Proof. vm_compute. split; reflexivity. Qed.

(** Outside K_F7: lets, operator chains of mixed priorities over variables, literals, brackets
    and extension leaves, an assignment, a logic condition with an else branch, and call
    STATEMENTS whose arguments are chains:
    [fn g(a: i32) -> i32 { return a }
     fn f(a: i32, b: i32) -> i32 {
       let x = a + b * 2 - <ext>;
       let mut y = (x + 1) * a - 3 * b;
       g(x + y * 2);
       if x < y && a + 1 > b * 2 { y = y + <ext> * x; g(y); } else { g(a - 1); }
       return x + y * 2 - a
     }]
    The program is accepted and passes the monitor without the exception; no read falls under
    it. *)
Definition C08b_program : program :=
  let i32 := TPrim PI32 in
  let id x := Id x 1 0 in
  let nm x := EVName (id x) in
  let lit n := EVPrim (PV PI32 n) in
  let ext := EVExt i32 7 in
  let g := Fn (id "g") [(id "a", i32)] i32 [SRet (Expr (nm "a") [])] in
  let cnd := CLogic (LC (Expr (nm "x") []) CLess (Expr (nm "y") [])
                        (Some (LAnd, LC (Expr (nm "a") [(OPlus, lit 1%Z)]) CGreat
                                        (Expr (nm "b") [(OMultiply, lit 2%Z)]) None))) in
  let f := Fn (id "f") [(id "a", i32); (id "b", i32)] i32
              [SLet (id "x") false None
                    (Expr (nm "a") [(OPlus, nm "b"); (OMultiply, lit 2%Z); (OMinus, ext)]);
               SLet (id "y") true (Some i32)
                    (Expr (EVSub (Expr (nm "x") [(OPlus, lit 1%Z)]))
                          [(OMultiply, nm "a"); (OMinus, lit 3%Z); (OMultiply, nm "b")]);
               SCall (id "g") [Expr (nm "x") [(OPlus, nm "y"); (OMultiply, lit 2%Z)]];
               SIf (IfS cnd
                        (IBIf [SBind (id "y")
                                     (Expr (nm "y") [(OPlus, ext); (OMultiply, nm "x")]);
                               SCall (id "g") [Expr (nm "y") []]])
                        (Some (IBIf [SCall (id "g") [Expr (nm "a") [(OMinus, lit 1%Z)]]]))
                        None);
               SRet (Expr (nm "x") [(OPlus, nm "y"); (OMultiply, lit 2%Z); (OMinus, nm "a")])] in
  [TFn g; TFn f].

Example C08b_program_outside_K_F7 :
  no_f7_leaves C08b_program = true /\
  match run C08b_program with
  | ROk out =>
      o_errors out = [] /\ chk_C08 false out = true /\ chk_C08 true out = true /\
      f7_count out = 0%nat /\
      existsb (fun b => existsb is_call_or_field (b_ctx b)) (o_fns out) = true
  | _ => False
  end.
Proof. vm_compute. repeat split; reflexivity. Qed.

Print Assumptions C08_intended_outside_K_F7.
Print Assumptions C08_intended_expression_level.
Print Assumptions C08_class_closed_under_priority_folding.
Print Assumptions C08_intended_implies_with_F7.
