(** C07 — A flat chain [v0 op1 v1 ... opn vn] is evaluated as the unique tree in which an
    operator of higher documented priority binds tighter and operators of equal priority
    associate to the left, for the priority table the library publishes; explicitly bracketed
    sub-expressions are evaluated as units.
    Statements only; proofs are in [Spec/Bracket.v] and [Proofs/Fold.v].

    Reading.  [tree] is a fully bracketed expression whose leaves are arbitrary operands
    ([expr_val], bracketed sub-expressions [EVSub e] included: they are leaves, i.e. units);
    [inorder t] is the flat chain (head operand, links) that [t] denotes; [well_bracketed t]
    says that at every node the left operand's root operator has priority >= and the right
    operand's root operator has priority > the node's; [embed t] is the operand the analyzer
    evaluates for [t]: every node [l op r] is the bracket [EVSub (Expr l [(op, r)])].
    [prio] is [Gen/Priority.v], regenerated from the Rust source; the proofs use it through
    [forall o, prio o <= max_prio] only ([Fold.prio_le_max], checked by computation). *)
From SA Require Import Model.
From SA.Spec Require Import Bracket.
From SA.Proofs Require Import Fold.
Local Open Scope list_scope.

(** For every chain of two or more links, of any length, the fold yields one operand and no
    link, and that operand is a well-bracketed tree of exactly this chain. *)
Theorem C07_fold_is_unique_well_bracketed_tree :
  forall (v : expr_val) (rest : links),
    (2 <= length rest)%nat ->
    exists t : tree,
      well_bracketed t /\ inorder t = (v, rest) /\
      fold_priority (Expr v rest) = Expr (embed t) [].
Proof. exact fold_priority_correct. Qed.

(** Shorter chains (no operator, or one) are left as they are. *)
Theorem C07_short_chain_unchanged :
  forall (v : expr_val) (rest : links),
    (length rest < 2)%nat -> fold_priority (Expr v rest) = Expr v rest.
Proof. exact fold_priority_short. Qed.

(** A chain has at most one well-bracketed tree. *)
Theorem C07_well_bracketed_tree_unique :
  forall t1 t2 : tree,
    well_bracketed t1 -> well_bracketed t2 -> inorder t1 = inorder t2 -> t1 = t2.
Proof. exact well_bracketed_unique. Qed.

(** The executable reference [bracket] computes a well-bracketed tree of the chain ... *)
Theorem C07_bracket_well_bracketed :
  forall (v : expr_val) (rest : links), well_bracketed (bracket v rest).
Proof. exact bracket_wb. Qed.

Theorem C07_bracket_inorder :
  forall (v : expr_val) (rest : links), inorder (bracket v rest) = (v, rest).
Proof. exact bracket_inorder. Qed.

(** ... hence the fold computes exactly [bracket] (the oracle of the comparison). *)
Theorem C07_fold_is_bracket :
  forall (v : expr_val) (rest : links),
    (2 <= length rest)%nat ->
    fold_priority (Expr v rest) = Expr (embed (bracket v rest)) [].
Proof. exact fold_priority_is_bracket. Qed.

Check C07_fold_is_unique_well_bracketed_tree :
  forall (v : expr_val) (rest : links),
    (2 <= length rest)%nat ->
    exists t : tree,
      well_bracketed t /\ inorder t = (v, rest) /\
      fold_priority (Expr v rest) = Expr (embed t) [].

Check C07_short_chain_unchanged :
  forall (v : expr_val) (rest : links),
    (length rest < 2)%nat -> fold_priority (Expr v rest) = Expr v rest.

Check C07_well_bracketed_tree_unique :
  forall t1 t2 : tree,
    well_bracketed t1 -> well_bracketed t2 -> inorder t1 = inorder t2 -> t1 = t2.

Check C07_bracket_well_bracketed :
  forall (v : expr_val) (rest : links), well_bracketed (bracket v rest).

Check C07_bracket_inorder :
  forall (v : expr_val) (rest : links), inorder (bracket v rest) = (v, rest).

Check C07_fold_is_bracket :
  forall (v : expr_val) (rest : links),
    (2 <= length rest)%nat ->
    fold_priority (Expr v rest) = Expr (embed (bracket v rest)) [].

Print Assumptions C07_fold_is_unique_well_bracketed_tree.
Print Assumptions C07_short_chain_unchanged.
Print Assumptions C07_well_bracketed_tree_unique.
Print Assumptions C07_bracket_well_bracketed.
Print Assumptions C07_bracket_inorder.
Print Assumptions C07_fold_is_bracket.

(** Non-vacuity, on the table as published (Multiply 9 > Plus 5 > Minus 4): five operators,
    three levels, one run of equal priority.

      1 + 2 * 3 * 4 - 5 + 6   is   (1 + ((2 * 3) * 4)) - (5 + 6)

    This example, unlike the theorems, depends on the concrete numbers of the table. *)
Definition c07_lit (k : Z) : expr_val := EVPrim (PV PI32 k).

Example C07_example :
  let l := fun k => Leaf (c07_lit k) in
  let expected :=
    Node (Node (l 1%Z) OPlus (Node (Node (l 2%Z) OMultiply (l 3%Z)) OMultiply (l 4%Z)))
         OMinus
         (Node (l 5%Z) OPlus (l 6%Z)) in
  let chain := [(OPlus, c07_lit 2); (OMultiply, c07_lit 3); (OMultiply, c07_lit 4);
                (OMinus, c07_lit 5); (OPlus, c07_lit 6)] in
  fold_priority (Expr (c07_lit 1) chain) = Expr (embed expected) [].
Proof. vm_compute; reflexivity. Qed.
