(** C10 — Labels, resolution: every label that is named is SET, exactly once.
    Statements only; proofs are in [Proofs/Resolve.v] (resolution), [Proofs/InvLabels.v]
    (uniqueness) and [Proofs/ExecBasic.v] (the combination). *)
From SA Require Import Model.
From SA.Spec Require Import Stack.
From SA.Mon Require Import Control.
From SA.Proofs Require Import ExecBasic InvLabels Resolve.
Local Open Scope list_scope.

(** For every program (accepted or not) on which the analysis terminates: every label named by
    a [JumpTo], an [IfConditionExpression] or an [IfConditionLogic] of a function's complete
    instruction stack is set by a [SetLabel] of that same stack.  No hypothesis on the
    diagnostics is needed: the analysis continues after an error and always completes the
    label layout. *)
Theorem C10_every_target_is_set :
  forall (p : program) (out : output),
    run p = ROk out ->
    Forall (fun root : block =>
              forall i l, In i (b_ctx root) -> In l (target_labels i) ->
                          In l (set_labels (b_ctx root)))
           (o_fns out).
Proof. exact run_targets_resolved. Qed.

Check C10_every_target_is_set :
  forall (p : program) (out : output),
    run p = ROk out ->
    Forall (fun root : block =>
              forall i l, In i (b_ctx root) -> In l (target_labels i) ->
                          In l (set_labels (b_ctx root)))
           (o_fns out).

(** With uniqueness ([run_labels_unique]): every label that is named is set EXACTLY once. *)
Theorem C10_every_target_is_set_exactly_once :
  forall (p : program) (out : output),
    run p = ROk out ->
    Forall (fun root : block =>
              forall i l, In i (b_ctx root) -> In l (target_labels i) ->
                          count_occ string_dec (set_labels (b_ctx root)) l = 1%nat)
           (o_fns out).
Proof.
  intros p out H.
  pose proof (run_labels_unique p out H) as HU.
  pose proof (run_targets_resolved p out H) as HR.
  rewrite Forall_forall in *. intros root Hroot.
  exact (C10_exactly_once root (HU root Hroot) (HR root Hroot)).
Qed.

Check C10_every_target_is_set_exactly_once :
  forall (p : program) (out : output),
    run p = ROk out ->
    Forall (fun root : block =>
              forall i l, In i (b_ctx root) -> In l (target_labels i) ->
                          count_occ string_dec (set_labels (b_ctx root)) l = 1%nat)
           (o_fns out).

(** Hence the resolution monitor never fires on the model's output. *)
Corollary C10_model_passes_resolve_monitor :
  forall (p : program) (out : output), run p = ROk out -> chk_C10_resolve out = true.
Proof. intros p out H. apply chk_C10_resolve_spec. exact (run_targets_resolved p out H). Qed.

(** Non-vacuity, the shape of finding F3: [loop { if c { break } return 1 }].  The body of the
    loop returns at loop level, so the loop sets its end label only because its block's stack
    holds the jump of the [break]: ["loop_end"] is named and is set. *)
Definition C10b_F3_fn : fn_decl :=
  let lit := Expr (EVPrim (PV PI32 1)) [] in
  let tru := Expr (EVPrim (PV PBool 1)) [] in
  Fn (Id "f" 1 0) [] (TPrim PI32)
     [SLoop [SIf (IfS (CSingle tru) (IBLoop [SBreak]) None None); SRet lit]; SRet lit].

Example C10b_F3_loop_end_is_target_and_set :
  match run [TFn C10b_F3_fn] with
  | ROk out =>
      o_errors out = [] /\
      map (fun b => flat_map target_labels (b_ctx b)) (o_fns out) =
        [["loop_begin"; "if_begin"; "if_end"; "loop_end"; "if_end"]]%string /\
      map (fun b => set_labels (b_ctx b)) (o_fns out) =
        [["loop_begin"; "if_begin"; "if_end"; "loop_end"]]%string /\
      chk_C10_unique out = true /\ chk_C10_resolve out = true
  | _ => False
  end.
Proof. vm_compute. repeat split; reflexivity. Qed.

(** Non-vacuity on a REJECTED program: an unknown name as condition (no conditional instruction
    is emitted), both an else part and an else-if, a failing return expression inside a loop,
    an else-if chain at function level.  Six diagnostics; the label layout is complete. *)
Definition C10b_rejected_fn : fn_decl :=
  let lit := Expr (EVPrim (PV PI32 1)) [] in
  let tru := Expr (EVPrim (PV PBool 1)) [] in
  let bad := Expr (EVName (Id "nope" 1 0)) [] in
  Fn (Id "g" 1 0) [] (TPrim PI32)
     [SLoop [SIf (IfS (CSingle bad) (IBLoop [SBreak]) (Some (IBLoop [SContinue]))
                      (Some (IfS (CSingle tru) (IBLoop [SBreak]) None None)));
             SRet bad];
      SIf (IfS (CSingle bad) (IBIf [SRet lit]) None
               (Some (IfS (CSingle bad) (IBIf []) None None)))].

Example C10b_rejected_program_resolves :
  match run [TFn C10b_rejected_fn] with
  | ROk out =>
      length (o_errors out) = 6%nat /\
      map (fun b => flat_map target_labels (b_ctx b)) (o_fns out) =
        [["loop_begin"; "loop_end"; "if_end"; "loop_begin"; "if_end"; "loop_begin";
          "if_end.0"]]%string /\
      map (fun b => set_labels (b_ctx b)) (o_fns out) =
        [["loop_begin"; "if_begin"; "if_else"; "if_end"; "loop_end"; "if_begin.0";
          "if_else.0"; "if_begin.1"; "if_end.0"]]%string /\
      chk_C10_unique out = true /\ chk_C10_resolve out = true
  | _ => False
  end.
Proof. vm_compute. repeat split; reflexivity. Qed.

Print Assumptions C10_every_target_is_set.
Print Assumptions C10_every_target_is_set_exactly_once.
Print Assumptions C10_model_passes_resolve_monitor.
