(** C19, second statement — on every program admitted by the intended rule set the judgement of
    C19 holds without the exemption for rejected analyses (such a program is accepted, C02).
    Statements only. *)
From SA Require Import Model.
From SA.Spec Require Import Stack FirstViolation.
From SA.Mon Require Import C19.
From SA.Proofs Require Import ExtLeaves Simulation.
Local Open Scope list_scope.

Lemma chk_C19_strict_of_accepted :
  forall (p : program) (o : output),
    o_errors o = [] -> chk_C19 p o = chk_C19_strict p o.
Proof.
  intros p o He. unfold chk_C19, chk_C19_strict, chk_C19_order, chk_C19_types, chk_C19_blocks,
    accepted_only. rewrite He. reflexivity.
Qed.

Theorem C19_well_formed_strict :
  forall (p : program) (out : output),
    run p = ROk out -> wf_b p = true -> chk_C19_strict p out = true.
Proof.
  intros p out Hr Hwf.
  pose proof (well_formed_is_accepted p out Hr Hwf) as He.
  rewrite <- (chk_C19_strict_of_accepted p out He).
  exact (run_ext_once_in_place p out Hr He).
Qed.

Check C19_well_formed_strict :
  forall (p : program) (out : output),
    run p = ROk out -> wf_b p = true -> chk_C19_strict p out = true.
Print Assumptions C19_well_formed_strict.
