(** C07 (and, through the analysis order, C14 / C01 / C02): the priority table regenerated from
    the source is the table the library publishes (DESIGN.md §3.3).  Statements only. *)
From Coq Require Import NArith List.
From SA.Gen Require Import Enums Priority.
From SA.Spec Require Import Published.
Local Open Scope N_scope.

Theorem C07p_regenerated_table_is_the_published_one :
  forall o : binop, prio o = published_prio o.
Proof. exact prio_is_published. Qed.

Theorem C07p_regenerated_maximum_is_the_published_one : max_prio = published_max.
Proof. exact max_prio_is_published. Qed.

Check C07p_regenerated_table_is_the_published_one : forall o : binop, prio o = published_prio o.
Print Assumptions C07p_regenerated_table_is_the_published_one.
Print Assumptions C07p_regenerated_maximum_is_the_published_one.

(** the published table, spelt out once more as a list *)
Example C07p_table :
  map (fun o => (binop_name o, published_prio o)) all_binop =
  map (fun o => (binop_name o, prio o)) all_binop.
Proof. vm_compute; reflexivity. Qed.
