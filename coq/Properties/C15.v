(** C15 — The declaration phase builds exactly the tables of the registered entities.
    Statements only; proofs are in [Proofs/Driver.v], the specification in [Spec/Tables.v], the
    monitor in [Mon/C15.v]. *)
From SA Require Import Model.
From SA.Spec Require Import Tables.
From SA.Mon Require Import C15.
From SA.Proofs Require Import Driver.
Local Open Scope list_scope.

(** For every program on which the analysis terminates (accepted or rejected, with duplicate names
    and failing declarations): the global tables are those of the specification — the struct
    types, constants and functions whose declarations passed their checks, under their own names
    with the declared type / signature, in the order of registration —, the global stack is the
    specification's (types first, then constants and functions in source order), and every
    function of the program, registered or not, has one root block. *)
Theorem C15_tables_stack_roots :
  forall (p : program) (out : output),
    run p = ROk out ->
    o_globals out = spec_globals p /\
    o_gstack out = spec_gstack p /\
    length (o_fns out) = length (functions_of p).
Proof. exact run_globals_match_spec. Qed.

(** The keys of each table are duplicate-free, the global stack has one instruction per table
    entry: as many instructions as bindings, no two instructions of the same kind and name, and
    every instruction's entity is bound under its name in its table. *)
Theorem C15_one_instruction_per_entity :
  forall (p : program) (out : output),
    run p = ROk out ->
    (o_globals out = spec_globals p /\
     o_gstack out = spec_gstack p /\
     length (o_fns out) = length (functions_of p)) /\
    (NoDup (map fst (g_types (o_globals out))) /\
     NoDup (map fst (g_consts (o_globals out))) /\
     NoDup (map fst (g_funcs (o_globals out)))) /\
    (length (o_gstack out) =
       (length (g_types (o_globals out)) + length (g_consts (o_globals out)) +
        length (g_funcs (o_globals out)))%nat /\
     NoDup (map ginstr_key (o_gstack out)) /\
     Forall (ginstr_in_tables (o_globals out)) (o_gstack out)).
Proof. exact run_C15. Qed.

(** The types table of the specification is the first struct declaration of each name, in source
    order. *)
Theorem C15_spec_types_first_declarations :
  forall p : program, spec_types p = first_occs (struct_decls p).
Proof. exact spec_types_first_declarations. Qed.

(** A declaration whose name is already in its table is reported and changes neither the tables
    nor the stack. *)
Theorem C15_duplicate_reported_and_ignored :
  forall st : gstate,
    (forall n a, amem (iname n) (g_types (gs_globals st)) = true ->
       pass_types st (TStructDecl n a) =
       g_add_error (Err ETypeAlreadyExist (Some (iname n)) (iloc n)) st) /\
    (forall n ty v, amem (iname n) (g_consts (gs_globals st)) = true ->
       pass_decls st (TConst n ty v) =
       g_add_error (Err EConstantAlreadyExist (Some (iname n)) (iloc n)) st) /\
    (forall f, amem (iname (fn_name f)) (g_funcs (gs_globals st)) = true ->
       pass_decls st (TFn f) =
       g_add_error (Err EFunctionAlreadyExist (Some (iname (fn_name f))) (iloc (fn_name f))) st).
Proof. exact duplicate_reported_and_ignored. Qed.

(** A binding once made is never replaced by anything declared later. *)
Theorem C15_first_declaration_wins :
  forall (p : program) (st : gstate),
    (forall k v, alookup k (g_types (gs_globals st)) = Some v ->
                 alookup k (g_types (gs_globals (fold_left pass_types p st))) = Some v) /\
    (forall k v, alookup k (g_consts (gs_globals st)) = Some v ->
                 alookup k (g_consts (gs_globals (fold_left pass_decls p st))) = Some v) /\
    (forall k v, alookup k (g_funcs (gs_globals st)) = Some v ->
                 alookup k (g_funcs (gs_globals (fold_left pass_decls p st))) = Some v).
Proof. exact first_declaration_wins. Qed.

(** The declaration-phase diagnostics are the specification's and open the error list. *)
Theorem C15_declaration_errors :
  forall (p : program) (out : output),
    run p = ROk out ->
    gs_errs (declarations p) = spec_decl_errs p /\
    exists body_errs, o_errors out = spec_decl_errs p ++ body_errs.
Proof. exact run_decl_errors. Qed.

(** The monitor run on the implementation's output: what an accepted output satisfies (the tables
    are the specification's as maps, the stack and the number of root blocks are the
    specification's), and that it accepts every output of the model. *)
Theorem C15_monitor_sound :
  forall (p : program) (out : output),
    chk_C15 p out = true ->
    (length (g_types (o_globals out)) = length (spec_types p) /\
     NoDup (map fst (g_types (o_globals out))) /\
     forall k, alookup k (g_types (o_globals out)) = alookup k (spec_types p)) /\
    (length (g_consts (o_globals out)) = length (spec_consts p) /\
     NoDup (map fst (g_consts (o_globals out))) /\
     forall k, alookup k (g_consts (o_globals out)) = alookup k (spec_consts p)) /\
    (length (g_funcs (o_globals out)) = length (spec_funcs p) /\
     NoDup (map fst (g_funcs (o_globals out))) /\
     forall k, alookup k (g_funcs (o_globals out)) = alookup k (spec_funcs p)) /\
    o_gstack out = spec_gstack p /\
    length (o_fns out) = length (spec_fns p).
Proof. exact chk_C15_sound. Qed.

Theorem C15_monitor_complete :
  forall (p : program) (out : output), run p = ROk out -> chk_C15 p out = true.
Proof. exact chk_C15_complete. Qed.

Check C15_tables_stack_roots :
  forall (p : program) (out : output),
    run p = ROk out ->
    o_globals out = spec_globals p /\
    o_gstack out = spec_gstack p /\
    length (o_fns out) = length (functions_of p).

Check C15_one_instruction_per_entity :
  forall (p : program) (out : output),
    run p = ROk out ->
    (o_globals out = spec_globals p /\
     o_gstack out = spec_gstack p /\
     length (o_fns out) = length (functions_of p)) /\
    (NoDup (map fst (g_types (o_globals out))) /\
     NoDup (map fst (g_consts (o_globals out))) /\
     NoDup (map fst (g_funcs (o_globals out)))) /\
    (length (o_gstack out) =
       (length (g_types (o_globals out)) + length (g_consts (o_globals out)) +
        length (g_funcs (o_globals out)))%nat /\
     NoDup (map ginstr_key (o_gstack out)) /\
     Forall (ginstr_in_tables (o_globals out)) (o_gstack out)).

Check C15_first_declaration_wins :
  forall (p : program) (st : gstate),
    (forall k v, alookup k (g_types (gs_globals st)) = Some v ->
                 alookup k (g_types (gs_globals (fold_left pass_types p st))) = Some v) /\
    (forall k v, alookup k (g_consts (gs_globals st)) = Some v ->
                 alookup k (g_consts (gs_globals (fold_left pass_decls p st))) = Some v) /\
    (forall k v, alookup k (g_funcs (gs_globals st)) = Some v ->
                 alookup k (g_funcs (gs_globals (fold_left pass_decls p st))) = Some v).

Check C15_declaration_errors :
  forall (p : program) (out : output),
    run p = ROk out ->
    gs_errs (declarations p) = spec_decl_errs p /\
    exists body_errs, o_errors out = spec_decl_errs p ++ body_errs.

Check C15_monitor_complete :
  forall (p : program) (out : output), run p = ROk out -> chk_C15 p out = true.

(** ** Not vacuous: a program with one struct declared twice, two registered constants and one
    whose type does not exist, two functions and a second declaration of the first. *)
Definition ex_u8 : ast_ty := TPrim PU8.
Definition ex_var (x : string) (l o : N) : expr := Expr (EVName (Id x l o)) [].

Definition C15_example_program : program :=
  [ TStructDecl (Id "S" 1 0) [(Id "a" 1 1, ex_u8)];
    TConst (Id "c1" 2 0) ex_u8 (CExpr (CVal (PV PU8 1)) []);
    TConst (Id "c2" 3 0) ex_u8 (CExpr (CConst (Id "c1" 3 1)) [(OPlus, CConst (Id "c1" 3 2))]);
    TFn (Fn (Id "f" 4 0) [(Id "x" 4 1, ex_u8)] ex_u8 [SRet (ex_var "x" 5 0)]);
    TFn (Fn (Id "g" 6 0) [(Id "s" 6 1, TStruct (Id "S" 6 2) [(Id "a" 6 3, ex_u8)])] ex_u8
            [SLet (Id "y" 7 0) false None
                  (Expr (EVName (Id "c2" 7 1)) [(OPlus, EVField (Id "s" 7 2) (Id "a" 7 3))]);
             SRet (ex_var "y" 8 0)]);
    TFn (Fn (Id "f" 9 0) [] ex_u8 [SRet (ex_var "zz" 10 0)]);
    TConst (Id "c3" 11 0) (TStruct (Id "Nope" 11 1) []) (CExpr (CVal (PV PU8 1)) []);
    TStructDecl (Id "S" 12 0) [] ].

Example C15_example :
  exists out,
    run C15_example_program = ROk out /\
    chk_C15 C15_example_program out = true /\
    map fst (g_types (o_globals out)) = ["S"] /\
    map fst (g_consts (o_globals out)) = ["c1"; "c2"] /\
    map fst (g_funcs (o_globals out)) = ["f"; "g"] /\
    map ginstr_key (o_gstack out) = [(0, "S"); (1, "c1"); (1, "c2"); (2, "f"); (2, "g")] /\
    length (o_fns out) = 3%nat /\
    map e_kind (spec_decl_errs C15_example_program) =
      [ETypeAlreadyExist; EFunctionAlreadyExist; ETypeNotFound].
Proof.
  eexists. split; [vm_compute; reflexivity|]. vm_compute. repeat split.
Qed.

Print Assumptions C15_tables_stack_roots.
Print Assumptions C15_one_instruction_per_entity.
Print Assumptions C15_spec_types_first_declarations.
Print Assumptions C15_duplicate_reported_and_ignored.
Print Assumptions C15_first_declaration_wins.
Print Assumptions C15_declaration_errors.
Print Assumptions C15_monitor_sound.
Print Assumptions C15_monitor_complete.
Print Assumptions C15_example.
