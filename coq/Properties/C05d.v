(** C05d — The theorem-backed value-level monitor never fires on the model.

    [Mon/C05w.chk_C05v_sound salts nflat nsrc p o] judges, for every function of an accepted
    program and every salt of the free interpretation, with the machine run on [nflat] units of
    fuel and the source on [nsrc]: (a) the two traces agree, with their data; (b) the source run
    ends well; (c) the machine neither looks up an unset label nor runs off its stack; (d) when
    the source returned, the machine returned or ran out of fuel.  It asks nothing of a stuck
    machine when the source ran out of fuel (that case is not proved: see [Properties/C05c.v]).

    Statement only; the proof is in [Proofs/ValueSimMon.v], from the theorems of C05c. *)
From SA Require Import Model.
From SA.Spec Require Import Stack Exec ValueExec.
From SA.Mon Require Import Control C05v C05w.
From SA.Proofs Require Import ValueSimMon.
From SA.Properties Require Import C05c.
Local Open Scope list_scope.

Theorem C05d_sound_monitor_passes_on_model :
  forall (salts : list N) (nflat nsrc : nat) (p : program) (out : output),
    run p = ROk out -> o_errors out = [] -> chk_C05v_sound salts nflat nsrc p out = true.
Proof. exact chk_C05v_sound_on_model. Qed.

Check C05d_sound_monitor_passes_on_model :
  forall (salts : list N) (nflat nsrc : nat) (p : program) (out : output),
    run p = ROk out -> o_errors out = [] -> chk_C05v_sound salts nflat nsrc p out = true.

Print Assumptions C05d_sound_monitor_passes_on_model.

(** ** Examples, by computation: the feature program of C05c passes ... *)
Example C05d_example :
  match run C05c_program with
  | ROk out => o_errors out = [] /\ chk_C05v_sound c05c_salts 2000 400 C05c_program out = true
  | _ => False
  end.
Proof. vm_compute. split; reflexivity. Qed.

(** ... and its two damaged outputs (the operands of a [Minus] swapped; the two targets of a
    conditional exchanged) fail: the monitor is not vacuous *)
Example C05d_damaged_operands :
  match run C05c_program with
  | ROk out =>
      chk_C05v_sound c05c_salts 2000 400 C05c_program
                     (c05c_damage (c05c_map_first c05c_swap_minus) out) = false
  | _ => False
  end.
Proof. vm_compute. reflexivity. Qed.

Example C05d_damaged_targets :
  match run C05c_program with
  | ROk out =>
      chk_C05v_sound c05c_salts 2000 400 C05c_program
                     (c05c_damage (c05c_map_first c05c_swap_targets) out) = false
  | _ => False
  end.
Proof. vm_compute. reflexivity. Qed.
