(** C04, read as a typing judgement.  Statements only: the judgement is defined in
    [Spec/Readings04.v] (which does not mention the monitor), the proofs are in
    [Proofs/Readings04.v].

    [Typed G RT E VS PS c] threads a register environment [E], the declared values [VS] and the
    source parameters still to be declared [PS] through the stack [c], one rule per instruction
    kind; [fn_typed G f root] starts it from the empty environments on the root stack of [f];
    [C04_reading p o] asks it of every function of an accepted program. *)
From SA Require Import Model.
From SA.Spec Require Import FirstViolation Readings04.
From SA.Mon Require Import C04.
From SA.Proofs Require Import Readings04.
From SA.Properties Require C04.
Local Open Scope list_scope.

(** The boolean monitor run on the implementation's output decides exactly the reading. *)
Theorem C04_monitor_exact :
  forall (p : program) (o : output), chk_C04 p o = true <-> C04_reading p o.
Proof. exact chk_C04_reading. Qed.

(** ... function by function *)
Theorem C04_monitor_exact_fn :
  forall (G : globals) (f : fn_decl) (root : block),
    chk_C04_fn G f root = true <-> fn_typed G f root.
Proof. exact chk_C04_fn_reading. Qed.

(** ... and stack by stack, from arbitrary states: what the monitor accepts from a table [m]
    (in which no unnamed extension register is flagged) is typed under some instance of [m];
    what is typed under an instance of [m] is accepted from [m]. *)
Theorem C04_scan_sound :
  forall G RT c m vs ps,
    wf_tab m -> scan_C04 G RT c m vs ps = true -> exists E, inst m E /\ Typed G RT E vs ps c.
Proof. exact scan_sound. Qed.

Theorem C04_scan_complete :
  forall G RT E vs ps c,
    Typed G RT E vs ps c -> forall m, inst m E -> scan_C04 G RT c m vs ps = true.
Proof. exact scan_complete. Qed.

Check C04_monitor_exact :
  forall (p : program) (o : output), chk_C04 p o = true <-> C04_reading p o.
Check C04_monitor_exact_fn :
  forall (G : globals) (f : fn_decl) (root : block),
    chk_C04_fn G f root = true <-> fn_typed G f root.

(** The model's output satisfies the READING: every function stack of an accepted, well-formed
    program is well typed.  ([wf_b]: the intended rule set; needed for the arity clause of
    [T_call] only -- finding F2, see [Properties/C04.v].) *)
Theorem C04_model_satisfies_reading :
  forall (p : program) (out : output),
    run p = ROk out -> o_errors out = [] -> wf_b p = true ->
    Forall2 (fn_typed (o_globals out)) (functions_of p) (o_fns out).
Proof.
  intros p out Hrun Hacc Hwf.
  exact (proj1 (C04_monitor_exact p out) (C04.C04_stack_well_typed p out Hrun Hacc Hwf) Hacc).
Qed.

Check C04_model_satisfies_reading :
  forall (p : program) (out : output),
    run p = ROk out -> o_errors out = [] -> wf_b p = true ->
    Forall2 (fn_typed (o_globals out)) (functions_of p) (o_fns out).

Print Assumptions C04_monitor_exact.
Print Assumptions C04_monitor_exact_fn.
Print Assumptions C04_model_satisfies_reading.

(** ** A concrete stack, derived rule by rule (no monitor involved)

    [fn f(a: i32) -> i32 { let mut x = a + 1; x = g(ext#7, 2); if x < 3 ...; return x }]
    with [g : (i32, i32) -> i32], as the analyzer would emit it -- including the operand of the
    assignment, which names register 5 although the call wrote register 4 (finding F7, rule
    [O_after_call_or_field]), and the extension register 3, whose type [i32] is fixed by the
    only operand that names it (rule [T_extension]). *)
Module Example.
  Definition i32 : sem_ty := SPrim PI32.
  Definition lit (n : Z) : eres := ERes i32 (RPrim (PV PI32 n)).
  Definition reg (n : N) : eres := ERes i32 (RReg n).
  Definition a0 : value := Value "a.0" i32 false.
  Definition x0 : value := Value "x.0" i32 true.
  Definition g : func_sem := Func "g" i32 [i32; i32].
  Definition G : globals := Globals [] [] [("g", g)].
  Definition f : fn_decl := Fn (Id "f" 1 0) [(Id "a" 1 5, TPrim PI32)] (TPrim PI32) [].
  Definition root (c : list instr) : block := Block [] [] [] 0 false c [].

  Definition stack : list instr :=
    [ IFnArg a0 "a" i32;
      IExprValue a0 1;
      IExprOp OPlus (reg 1) (lit 1) 2;
      ILet x0 (reg 2);
      IExt 7 3;
      ICall g [reg 3; lit 2] 4;
      IBind x0 (reg 5);
      IExprValue x0 6;
      ICondExpr (reg 6) (lit 3) CLess 7;
      IIfCondLogic "then" "end" 7;
      ISetLabel "then";
      ISetLabel "end";
      IExprValue x0 8;
      IFnRet (reg 8) ].

  Ltac operand :=
    first [ eapply O_literal; [reflexivity | reflexivity]
          | eapply O_register; [reflexivity | reflexivity]
          | eapply O_after_call_or_field; [reflexivity | reflexivity | discriminate | reflexivity] ].
  Ltac side :=
    match goal with
    | |- operand_ok _ _ => operand
    | |- Forall _ _ => repeat (constructor; [operand|]); constructor
    | |- Forall2 _ _ _ => repeat constructor
    | |- declared_as _ _ => reflexivity
    | |- field_has_ty _ _ _ => constructor; reflexivity
    | |- primitive _ => eexists; reflexivity
    | |- _ = _ => reflexivity
    end.
  Ltac typed :=
    repeat (match goal with |- Typed _ _ _ _ _ _ => econstructor end; try side).

  Example stack_typed : fn_typed G f (root stack).
  Proof. unfold fn_typed, stack. cbn [b_ctx root fn_params fn_result f]. typed. Qed.

  (** the monitor agrees *)
  Example stack_accepted : chk_C04_fn G f (root stack) = true.
  Proof. vm_compute. reflexivity. Qed.

  (** Damaged stacks are not typed.  (1) The call passes its second argument with another type. *)
  Definition damaged1 : list instr :=
    map (fun i => match i with
                  | ICall h [x; _] r => ICall h [x; ERes (SPrim PI64) (RPrim (PV PI64 2))] r
                  | _ => i
                  end) stack.
  Example damaged1_not_typed : ~ fn_typed G f (root damaged1).
  Proof. intro H. apply C04_monitor_exact_fn in H. vm_compute in H. discriminate H. Qed.

  (** (2) The call passes one argument only. *)
  Definition damaged2 : list instr :=
    map (fun i => match i with ICall h [x; _] r => ICall h [x] r | _ => i end) stack.
  Example damaged2_not_typed : ~ fn_typed G f (root damaged2).
  Proof. intro H. apply C04_monitor_exact_fn in H. vm_compute in H. discriminate H. Qed.

  (** (3) The returned operand claims type [bool] for the register that holds [x]. *)
  Definition damaged3 : list instr :=
    map (fun i => match i with IFnRet _ => IFnRet (ERes (SPrim PBool) (RReg 8)) | _ => i end) stack.
  Example damaged3_not_typed : ~ fn_typed G f (root damaged3).
  Proof. intro H. apply C04_monitor_exact_fn in H. vm_compute in H. discriminate H. Qed.

  (** (4) The assignment goes to a record that differs from the declared one in mutability. *)
  Definition damaged4 : list instr :=
    map (fun i => match i with IBind _ e => IBind a0 e | _ => i end) stack.
  Example damaged4_not_typed : ~ fn_typed G f (root damaged4).
  Proof. intro H. apply C04_monitor_exact_fn in H. vm_compute in H. discriminate H. Qed.

  (** (5) The extension register is read twice with different types: no single type fits. *)
  Definition damaged5 : list instr :=
    stack ++ [IExprOp OPlus (ERes (SPrim PU8) (RReg 3)) (ERes (SPrim PU8) (RPrim (PV PU8 1))) 9].
  Example damaged5_not_typed : ~ fn_typed G f (root damaged5).
  Proof. intro H. apply C04_monitor_exact_fn in H. vm_compute in H. discriminate H. Qed.
End Example.

(** On an output of the model: the reading holds of the stacks computed for a program of
    [Spec/ResolverTests.v] (calls of calls, a call statement, a call as an operand). *)
Example C04_reading_p08 :
  forall out, run ResolverTests.p08 = ROk out ->
              Forall2 (fn_typed (o_globals out)) (functions_of ResolverTests.p08) (o_fns out).
Proof.
  intros out H. apply C04_model_satisfies_reading; [exact H | | vm_compute; reflexivity].
  revert H. vm_compute. intro H. inversion H. reflexivity.
Qed.
