(** C19 — Extension expressions are opaque leaves, evaluated once, in place.
    Statements only; the proof is in [Proofs/ExtLeaves.v] (logic: [Proofs/DenoteLogic.v]). *)
From SA Require Import Model.
From SA.Spec Require Import Stack DenoteTests.
From SA.Mon Require Import C19.
From SA.Proofs Require Import ExtLeaves.
Local Open Scope list_scope.

(** For every function of an accepted program ("accepted": the analysis terminates with an empty
    error list), in the harness extension [Ext{ty, tag}] of DESIGN.md §4.5:
    - [chk_C19_order]: the tags of the [ExtendedExpression] instructions of the function's complete
      stack, in stack order, are the tags of the extension leaves of the source in evaluation
      order (as lists: once each, in place);
    - [chk_C19_types]: every operand that names the register of the j-th extension instruction
      carries the type of the j-th source leaf verbatim, and that register is read exactly once;
    - [chk_C19_blocks]: every extension instruction of a block's own stack occurs in its parent's
      stack. *)
Theorem C19_ext_once_in_place :
  forall (p : program) (out : output),
    run p = ROk out -> o_errors out = [] -> chk_C19 p out = true.
Proof. exact run_ext_once_in_place. Qed.

Check C19_ext_once_in_place :
  forall (p : program) (out : output),
    run p = ROk out -> o_errors out = [] -> chk_C19 p out = true.

(** the three parts, separately *)
Corollary C19_parts :
  forall (p : program) (out : output),
    run p = ROk out -> o_errors out = [] ->
    chk_C19_order p out = true /\ chk_C19_types p out = true /\ chk_C19_blocks p out = true.
Proof.
  intros p out H Hacc. pose proof (run_ext_once_in_place p out H Hacc) as Hc.
  unfold chk_C19 in Hc. apply Bool.andb_true_iff in Hc as [Hc H3].
  apply Bool.andb_true_iff in Hc as [H1 H2]. repeat split; assumption.
Qed.

Print Assumptions C19_ext_once_in_place.
Print Assumptions C19_parts.

(** Worked examples (programs of [Spec/DenoteTests.v]).
    [p07]: extension leaves as an initialiser, inside brackets, as a call argument, in a loop
    condition: five leaves in three blocks. *)
Example C19_p07 :
  match run p07 with
  | ROk out =>
      o_errors out = [] /\ chk_C19 p07 out = true /\ judged_C19 p07 = 5 /\
      map (fun b => map fst (stack_exts (b_ctx b))) (o_fns out)
      = [[]; []; []; []; [10; 11; 12; 13; 14]]
  | _ => False
  end.
Proof. vm_compute. repeat split; reflexivity. Qed.

(** [p01]: two leaves in one operator chain, one of them inside explicit brackets, the other as a
    call argument; the fold of the chain by priorities does not move them. *)
Example C19_p01 :
  match run p01 with
  | ROk out =>
      o_errors out = [] /\ chk_C19 p01 out = true /\
      map (fun b => map fst (stack_exts (b_ctx b))) (o_fns out) = [[]; []; []; []; [1; 2]]
  | _ => False
  end.
Proof. vm_compute. repeat split; reflexivity. Qed.
