(** C07, last sentence — "The emitted operations, read as a tree through their register operands,
    are exactly that tree."
    Statement only; the proof is in [Proofs/BracketEmit.v] (on top of [Spec/Bracket.v],
    [Proofs/Fold.v] and the logic of [Proofs/DenoteLogic.v]).

    Reading ([Mon/C07.v]).  [ref_of_expr e] is the reference tree of a source expression: the
    unique well-bracketed tree [Spec/Bracket.bracket] of its chain, whose leaves are extension
    leaves [EVExt _ tag] (read as [TLeaf tag]) and explicitly bracketed chains of such (units,
    bracketed recursively); [None] when some leaf is of another kind.  [let_trees code []] reads a
    root stack back: [IExt tag r] binds register [r] to [TLeaf tag], [IExprOp o l r reg] binds
    [reg] to [TNode] of the trees of its two register operands, every other instruction leaves
    the environment unchanged, and every [ILet] yields the tree of its operand.  [chk_C07]
    demands, for every function of an accepted program, that the k-th [ILet] of the root stack
    belongs to the k-th [let] in source order and that, whenever the initialiser has a reference
    tree, the tree read back IS that tree. *)
From SA Require Import Model.
From SA.Spec Require Import Stack Bracket.
From SA.Mon Require Import C07.
From SA.Proofs Require Import DefUse DenoteLogic BracketEmit.
Local Open Scope list_scope.

Theorem C07_emitted_operations_are_the_bracketed_tree :
  forall (p : program) (out : output),
    run p = ROk out -> o_errors out = [] -> chk_C07 p out = true.
Proof. exact run_emitted_tree_is_bracket. Qed.

(** The expression level on its own: on a run accepted in the end, the operand of an expression
    that has a reference tree denotes exactly that tree in the monitor's environment after the
    run; that environment extends the one before by code without [ILet] that defines only new
    registers ... *)
Theorem C07_expression_level :
  forall Cf G fuel e s r s' t,
    WF s -> expression G fuel e s = Ok r s' -> Fin Cf s' -> ref_of_expr e = Some t ->
    exists er c, r = Some er /\ Ctx s' = Ctx s ++ c /\ TEnv s' = tfrom (TEnv s) c /\
      DefsIn (hr s) (hr s') c /\ let_trees c (TEnv s) = [] /\
      operand_tree er (TEnv s') = Some t.
Proof. exact expression_emits_bracket. Qed.

(** ... so that old registers keep their trees (entries are never overwritten). *)
Theorem C07_old_registers_keep_their_tree :
  forall lo hi c env n,
    DefsIn lo hi c -> n <= lo -> env_lookup n (tfrom env c) = env_lookup n env.
Proof. exact extension_keeps_old_registers. Qed.

Check C07_emitted_operations_are_the_bracketed_tree :
  forall (p : program) (out : output),
    run p = ROk out -> o_errors out = [] -> chk_C07 p out = true.

Print Assumptions C07_emitted_operations_are_the_bracketed_tree.
Print Assumptions C07_expression_level.
Print Assumptions C07_old_registers_keep_their_tree.

(** Non-vacuity, on the table as published (Multiply 9 > Divide 8 > Or 6 > Plus 5 > Minus 4):

      fn main() -> i32 {
        let a = e1 + e2 * e3 * e4 - e5;        is  (e1 + ((e2 * e3) * e4)) - e5
        let b = (e6 - e7) / e8 | e9;           is  ((e6 - e7) / e8) | e9
        return 1;
      }

    The trees read back from the root stack through the register operands are shown.  This
    example, unlike the theorems, depends on the concrete numbers of the table. *)
Definition c07b_i32 : ast_ty := TPrim PI32.
Definition c07b_id (s : string) : ident := Id s 1 0.
Definition c07b_x (tag : N) : expr_val := EVExt c07b_i32 tag.

Definition c07b_prog : program :=
  [TFn (Fn (c07b_id "main") [] c07b_i32
     [SLet (c07b_id "a") false None
        (Expr (c07b_x 1) [(OPlus, c07b_x 2); (OMultiply, c07b_x 3); (OMultiply, c07b_x 4);
                          (OMinus, c07b_x 5)]);
      SLet (c07b_id "b") false None
        (Expr (EVSub (Expr (c07b_x 6) [(OMinus, c07b_x 7)]))
              [(ODivide, c07b_x 8); (OOr, c07b_x 9)]);
      SRet (Expr (EVPrim (PV PI32 1)) [])])].

Example C07b_example :
  let l := TLeaf in
  let ta := TNode (TNode (l 1) OPlus (TNode (TNode (l 2) OMultiply (l 3)) OMultiply (l 4)))
                  OMinus (l 5) in
  let tb := TNode (TNode (TNode (l 6) OMinus (l 7)) ODivide (l 8)) OOr (l 9) in
  match run c07b_prog with
  | ROk out =>
      o_errors out = [] /\
      map (fun b => let_trees (b_ctx b) []) (o_fns out) = [[Some ta; Some tb]] /\
      map (fun f => map ref_of_expr (lets_of_fn f)) (functions_of c07b_prog) = [[Some ta; Some tb]] /\
      chk_C07 c07b_prog out = true /\ judged_C07 c07b_prog = 2%nat
  | _ => False
  end.
Proof. vm_compute. repeat split; reflexivity. Qed.
