(** Base: identifiers, locations, association lists, string sets, decimal suffix arithmetic. *)
From Coq Require Export String Ascii List NArith ZArith Bool.
From Coq Require Import DecimalString Decimal DecimalN.
Export ListNotations.
Open Scope string_scope.
Open Scope N_scope.

(** ** Identifiers: the fragment with its (line, offset), as [ast::Ident] carries them. *)
Record ident := Id { iname : string; iline : N; ioff : N }.
Definition loc := (N * N)%type.
Definition iloc (i : ident) : loc := (iline i, ioff i).

(** ** Association lists (models of [HashMap<String-newtype, _>]) *)
Section Assoc.
  Context {V : Type}.
  Fixpoint alookup (k : string) (l : list (string * V)) : option V :=
    match l with
    | [] => None
    | (k', v) :: l' => if String.eqb k k' then Some v else alookup k l'
    end.
  (** [HashMap::insert]: replace the binding when the key is present, add it otherwise. *)
  Fixpoint ainsert (k : string) (v : V) (l : list (string * V)) : list (string * V) :=
    match l with
    | [] => [(k, v)]
    | (k', v') :: l' => if String.eqb k k' then (k, v) :: l' else (k', v') :: ainsert k v l'
    end.
  Definition amem (k : string) (l : list (string * V)) : bool :=
    match alookup k l with Some _ => true | None => false end.
End Assoc.

(** ** String sets (models of [HashSet<String-newtype>]) as duplicate-free lists *)
Fixpoint smem (k : string) (l : list string) : bool :=
  match l with
  | [] => false
  | k' :: l' => if String.eqb k k' then true else smem k l'
  end.
Definition sadd (k : string) (l : list string) : list string :=
  if smem k l then l else l ++ [k].

(** ** Decimal numerals, as [u64::from_str] reads and [{:?}] of [u64] prints them *)
Definition two64 : N := 18446744073709551616.

Definition dec (n : N) : string := NilEmpty.string_of_uint (N.to_uint n).

(** [u64::from_str]: an optional leading '+', then one or more decimal digits, no overflow.
    [unwrap_or_default] turns every error into 0. *)
Definition parse_u64_or_0 (s : string) : N :=
  let s' := match s with String "+" r => r | _ => s end in
  match s' with
  | EmptyString => 0
  | _ => match NilEmpty.uint_of_string s' with
         | Some u => let n := N.of_uint u in if n <? two64 then n else 0
         | None => 0
         end
  end.

(** [str::split('.')]: always at least one part. *)
Fixpoint split_dot_aux (cur : string) (s : string) : list string :=
  match s with
  | EmptyString => [cur]
  | String c r =>
      if Ascii.eqb c "."%char then cur :: split_dot_aux EmptyString r
      else split_dot_aux (cur ++ String c EmptyString) r
  end.
Definition split_dot (s : string) : list string := split_dot_aux EmptyString s.

(** [BlockState::set_attr_counter]; [None] is the debug-build overflow panic of [i + 1]. *)
Definition set_attr_counter (s : string) : option string :=
  match split_dot s with
  | [a; b] =>
      let i := parse_u64_or_0 b in
      if i + 1 <? two64 then Some (a ++ "." ++ dec (i + 1)) else None
  | a :: _ => Some (a ++ ".0")
  | [] => Some ".0"
  end.

(** [{:?}] of a [String] for the characters that can occur in a type name of the domain:
    only the quote and the backslash are escaped. *)
Fixpoint debug_escape (s : string) : string :=
  match s with
  | EmptyString => EmptyString
  | String c r =>
      if Ascii.eqb c """"%char then String "\"%char (String """"%char (debug_escape r))
      else if Ascii.eqb c "\"%char then String "\"%char (String "\"%char (debug_escape r))
      else String c (debug_escape r)
  end.
Definition debug_string (s : string) : string := """" ++ debug_escape s ++ """".
