(** The source AST, mirroring [src/ast.rs].

    Differences of representation (each an isomorphism applied by the readers):
    - an operator chain [Expression { value, operation: Option<(op, Box<Expression>)> }] is a head
      value and a list of (operator, value) links;
    - the four statement enums ([BodyStatement], [IfBodyStatement], [IfLoopBodyStatement],
      [LoopBodyStatement]) are one type [stmt]; which constructors may occur where is the
      predicate [kinded] below (the Rust types enforce it; the model reports [PIllKinded]). *)
From SA Require Export Base.
From SA.Gen Require Export Enums Priority.

Inductive ast_ty :=
| TPrim (p : prim_ty)
| TStruct (name : ident) (attrs : list (ident * ast_ty))
| TArray (t : ast_ty) (n : N).

(** Primitive literals: type tag and payload (floats and chars by bit pattern / code point). *)
Record prim_val := PV { pv_ty : prim_ty; pv_bits : Z }.

Inductive cval := CConst (c : ident) | CVal (v : prim_val).
Record cexpr := CExpr { ce_head : cval; ce_rest : list (binop * cval) }.

Inductive expr :=
| Expr (v : expr_val) (rest : list (binop * expr_val))
with expr_val :=
| EVName (x : ident)
| EVPrim (p : prim_val)
| EVCall (f : ident) (args : list expr)
| EVField (x a : ident)
| EVSub (e : expr)
| EVExt (t : ast_ty) (tag : N).

Inductive lcond := LC (l : expr) (c : cmpop) (r : expr) (next : option (logicop * lcond)).
Inductive cond := CSingle (e : expr) | CLogic (l : lcond).

Inductive stmt :=
| SLet (x : ident) (mut : bool) (ty : option ast_ty) (e : expr)
| SBind (x : ident) (e : expr)
| SCall (f : ident) (args : list expr)
| SIf (i : ifstmt)
| SLoop (body : list stmt)
| SRet (e : expr)
| SExprStmt (e : expr)
| SBreak
| SContinue
with ifstmt :=
| IfS (c : cond) (body : ifbody) (els : option ifbody) (elif : option ifstmt)
with ifbody :=
| IBIf (ss : list stmt)
| IBLoop (ss : list stmt).

Record fn_decl := Fn {
  fn_name : ident;
  fn_params : list (ident * ast_ty);
  fn_result : ast_ty;
  fn_body : list stmt }.

Inductive top :=
| TImport (path : list ident)
| TStructDecl (name : ident) (attrs : list (ident * ast_ty))
| TConst (name : ident) (ty : ast_ty) (v : cexpr)
| TFn (f : fn_decl).

Definition program := list top.

(** ** Sizes (for fuel) *)
Local Open Scope nat_scope.
Fixpoint size_expr (e : expr) : nat :=
  match e with
  | Expr v rest =>
      S (size_val v +
         (fix go (l : list (binop * expr_val)) : nat :=
            match l with [] => O | (_, v') :: l' => S (size_val v' + go l') end) rest)
  end
with size_val (v : expr_val) : nat :=
  match v with
  | EVCall _ args =>
      S ((fix go (l : list expr) : nat :=
            match l with [] => O | e :: l' => size_expr e + go l' end) args)
  | EVSub e => S (size_expr e)
  | _ => 1%nat
  end.

Definition size_exprs (l : list expr) : nat := fold_right (fun e n => (size_expr e + n)%nat) O l.

Fixpoint size_lcond (c : lcond) : nat :=
  match c with
  | LC l _ r next =>
      S (size_expr l + size_expr r +
         match next with Some (_, c') => size_lcond c' | None => O end)
  end.

Definition size_cond (c : cond) : nat :=
  match c with CSingle e => S (size_expr e) | CLogic l => S (size_lcond l) end.

Fixpoint size_stmt (s : stmt) : nat :=
  match s with
  | SLet _ _ _ e | SBind _ e | SRet e | SExprStmt e => S (size_expr e)
  | SCall _ args => S (size_exprs args)
  | SIf i => S (size_if i)
  | SLoop body =>
      S ((fix go (l : list stmt) : nat :=
            match l with [] => O | s' :: l' => (size_stmt s' + go l')%nat end) body)
  | SBreak | SContinue => 1%nat
  end
with size_if (i : ifstmt) : nat :=
  match i with
  | IfS c body els elif =>
      S (size_cond c + size_ifbody body +
         match els with Some b => size_ifbody b | None => O end +
         match elif with Some i' => size_if i' | None => O end)
  end
with size_ifbody (b : ifbody) : nat :=
  match b with
  | IBIf ss | IBLoop ss =>
      S ((fix go (l : list stmt) : nat :=
            match l with [] => O | s' :: l' => (size_stmt s' + go l')%nat end) ss)
  end.

Definition size_stmts (l : list stmt) : nat := fold_right (fun s n => (size_stmt s + n)%nat) O l.
Definition size_fn (f : fn_decl) : nat := S (length (fn_params f) + size_stmts (fn_body f)).
