(program (fn (id "f" 14 0) (params) (prim i32) (body (let (id "x" 12 5) 1 (noty) (expr (prim (pv i32 1)))) (bind (id "x" 13 6) (expr (prim (pv bool 1)))) (ret (expr (prim (pv i32 1)))))))
