#!/bin/sh
# tools/seed_test.sh <patch.diff> [property ...]
# Applies a seeded change to /repo, runs the quick checks of the given properties (default: all
# claimed), prints one line per property, and restores /repo whatever happens.
PATCH=$(readlink -f "$1"); shift
ROOT=$(cd "$(dirname "$0")/.." && pwd)
PROPS="$@"
if [ -z "$PROPS" ]; then
  PROPS=$(python3 -c "import json;print(' '.join(c['property_id'] for c in json.load(open('$ROOT/MANIFEST.json'))['checks']))")
fi
cd /repo || exit 2
if ! git diff --quiet; then echo "seed_test: /repo has uncommitted changes"; exit 2; fi
git apply "$PATCH" || { echo "seed_test: patch does not apply"; exit 2; }
rm -rf "$ROOT/.cache/evidence.bak"; cp -r "$ROOT/evidence" "$ROOT/.cache/evidence.bak"
trap 'git -C /repo checkout -- . ; git -C /repo clean -fdq tests 2>/dev/null; rm -rf "'$ROOT'/evidence"; cp -r "'$ROOT'/.cache/evidence.bak" "'$ROOT'/evidence"' EXIT INT TERM
cd "$ROOT"
for p in $PROPS; do
  out=$(./check $p 2>/dev/null | grep -E "^(VIOLATION|OK|KNOWN)" | tr '\n' ' ')
  echo "$p: $out"
done
