#!/usr/bin/env python3
"""tools/seed_regress.py [name ...]: re-records every seeded change (or the named ones) with the current
machinery: each must still be reported by the check of the property it breaks (refactorings: by none).
Prints one line per change and a summary; exits 1 if a mutant is no longer reported with a replay by
a check that reported it before, or a refactoring is reported."""
import json
import os
import subprocess
import sys

ROOT = os.path.normpath(os.path.join(os.path.dirname(os.path.abspath(__file__)), ".."))


def main():
    names = sys.argv[1:] or sorted(os.listdir(os.path.join(ROOT, "seeded")))
    bad = []
    for n in names:
        d = os.path.join(ROOT, "seeded", n)
        mp = os.path.join(d, "meta.json")
        if not os.path.exists(mp) or not os.path.exists(os.path.join(d, "patch.diff")):
            continue
        old = json.load(open(mp))
        if old["breaks_property"].startswith("none"):
            out = subprocess.run(["sh", os.path.join(ROOT, "tools", "seed_test.sh"), os.path.join(d, "patch.diff")],
                                 stdout=subprocess.PIPE, stderr=subprocess.STDOUT, text=True).stdout
            viol = [l.split(":")[0] for l in out.splitlines() if "VIOLATION" in l]
            nok = sum(1 for l in out.splitlines() if "OK property" in l)
            print("%-14s refactoring: %d ok, reported by %s" % (n, nok, viol or "none"), flush=True)
            if viol or nok != 20:
                bad.append(n)
            continue
        prop = old["breaks_property"]
        more = [p for p in old.get("checks", {}) if p != prop]
        subprocess.run([sys.executable, os.path.join(ROOT, "tools", "seed_record.py"), d, prop, old["needs_to_manifest"]] + more,
                       stdout=subprocess.DEVNULL, stderr=subprocess.DEVNULL)
        new = json.load(open(mp))
        line = "%-14s %s: %s" % (n, prop, " ".join("%s=%s" % (p, v.replace("violation ", "").replace("with replay", "replay").replace("(no-failing-input-found)", "nfi"))
                                                  for p, v in new["checks"].items()))
        worse = [p for p, v in old.get("checks", {}).items() if v == "violation with replay" and new["checks"].get(p) != v]
        if worse:
            line += "   <-- WORSE than before on " + ",".join(worse)
            bad.append(n)
        print(line, flush=True)
    print("regression:", "all as before or better" if not bad else "CHECK %s" % bad)
    return 1 if bad else 0


if __name__ == "__main__":
    sys.exit(main())
