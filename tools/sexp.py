"""S-expressions shared by the generator, the orchestrator and the comparison.

Atoms are `str`; quoted strings are `Q` (a `str` subclass); lists are Python lists.
"""


import sys
sys.setrecursionlimit(100000)


class Q(str):
    """A quoted string."""

    __slots__ = ()

    def __repr__(self):
        return "Q(%s)" % str.__repr__(self)


def quote(s):
    out = ['"']
    for c in s:
        if c == "\\":
            out.append("\\\\")
        elif c == '"':
            out.append('\\"')
        elif " " <= c <= "~":
            out.append(c)
        else:
            out.append("?")
    out.append('"')
    return "".join(out)


def ser(x):
    if isinstance(x, Q):
        return quote(x)
    if isinstance(x, str):
        return x
    if isinstance(x, bool):
        return "1" if x else "0"
    if isinstance(x, int):
        return str(x)
    return "(" + " ".join(ser(e) for e in x) + ")"


def parse(s):
    n = len(s)
    i = 0
    stack = [[]]
    while i < n:
        c = s[i]
        if c in " \n\t\r":
            i += 1
        elif c == "(":
            stack.append([])
            i += 1
        elif c == ")":
            top = stack.pop()
            stack[-1].append(top)
            i += 1
        elif c == '"':
            i += 1
            buf = []
            while s[i] != '"':
                if s[i] == "\\":
                    buf.append(s[i + 1])
                    i += 2
                else:
                    buf.append(s[i])
                    i += 1
            i += 1
            stack[-1].append(Q("".join(buf)))
        else:
            j = i
            while j < n and s[j] not in ' \n\t\r()"':
                j += 1
            stack[-1].append(s[i:j])
            i = j
    assert len(stack) == 1 and len(stack[0]) == 1, "sexp: malformed"
    return stack[0][0]


def find(x, head):
    """First sub-list of x (direct child) whose head is `head`."""
    for e in x[1:]:
        if isinstance(e, list) and e and e[0] == head:
            return e
    return None
