#!/usr/bin/env python3
"""Every file in the cone of a claimed property must be listed in coq/_CoqProject (a fresh
`make` must build it)."""
import os
import sys
sys.path.insert(0, os.path.dirname(os.path.abspath(__file__)))
import verif
import props

proj = open(os.path.join(verif.COQ, "_CoqProject")).read().split()
bad = []
for p, sp in props.PROPS.items():
    for name in [p] + sp.get("extra_files", []):
        for f in verif.cone_of(os.path.join(verif.COQ, "Properties", name + ".v")):
            rel = os.path.relpath(f, verif.COQ)
            if rel not in proj:
                bad.append((name, rel))
print("missing from _CoqProject:", sorted(set(bad)))
sys.exit(1 if bad else 0)
