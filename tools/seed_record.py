#!/usr/bin/env python3
"""tools/seed_record.py <seeded dir> <property> "<what it needs to manifest>" [more properties...]
Applies the seeded change to /repo once, runs the pipeline (all monitors, full correspondence) and
the quick check of the target property (and of any further properties named), records the outcome in
meta.json, and restores /repo."""
import collections
import json
import os
import subprocess
import sys

ROOT = os.path.normpath(os.path.join(os.path.dirname(os.path.abspath(__file__)), ".."))
sys.path.insert(0, os.path.join(ROOT, "tools"))
import verif  # noqa: E402
from compare import same_output  # noqa: E402

MON2PROP = {"C05q": "C05", "C08q": "C08", "C10u": "C10", "C10r": "C10", "C01q": "C01", "C18v": "C18"}


def main():
    d, prop, needs = os.path.abspath(sys.argv[1]), sys.argv[2], sys.argv[3]
    more = sys.argv[4:]
    patch = os.path.join(d, "patch.diff")
    # VERIF_REPO set: a scratch copy of /repo (used while /repo itself is busy); the copy of this
    # script inside the scratch copy of /verif is the one to run, so that nothing touches /verif
    repo = os.environ.get("VERIF_REPO", "/repo")
    scratch = repo != "/repo"
    if scratch:
        apply_cmd, undo_cmd = "patch -p1 -s -d %s < %s" % (repo, patch), "patch -p1 -R -s -d %s < %s" % (repo, patch)
    else:
        apply_cmd, undo_cmd = "git -C /repo apply " + patch, "git -C /repo checkout -- ."
        if subprocess.run("git -C /repo diff --quiet", shell=True).returncode != 0:
            print("repo dirty")
            return 2
    if subprocess.run(apply_cmd, shell=True).returncode != 0:
        print("patch does not apply")
        return 2
    import shutil
    ev, evbak = os.path.join(ROOT, "evidence"), os.path.join(ROOT, ".cache", "evidence.bak")
    shutil.rmtree(evbak, ignore_errors=True)
    shutil.copytree(ev, evbak)
    try:
        verif.build()
        run = verif.pipeline(1, "quick")
        rej = collections.Counter()
        dis = 0
        for a, m, mon in zip(run.impl, run.model, run.mon):
            if not same_output(a, m):
                dis += 1
            for tok in mon.split():
                name, _, val = tok.partition(":")
                if val == "0" and name not in ("j07", "f7", "wf", "wfe", "dom13", "C01", "C05i", "C08i"):
                    rej[MON2PROP.get(name, name)] += 1
            if a.startswith("(panic"):
                rej["C13"] += 1
        checks = {}
        for p in [prop] + more:
            out = subprocess.run([os.path.join(ROOT, "check"), p], stdout=subprocess.PIPE, stderr=subprocess.DEVNULL,
                                 text=True, cwd=ROOT).stdout
            line = [l for l in out.splitlines() if l.startswith(("VIOLATION", "OK"))]
            line = line[-1] if line else out.strip()[-120:]
            checks[p] = ("violation (no-failing-input-found)" if "no-failing-input-found" in line else
                         "violation with replay" if line.startswith("VIOLATION") else
                         "ok" if line.startswith("OK") else line[:100])
    finally:
        subprocess.run(undo_cmd, shell=True)
        # evidence written while the seeded change was applied must not replace the real evidence
        shutil.rmtree(ev, ignore_errors=True)
        shutil.copytree(evbak, ev)
    meta = {"breaks_property": prop, "needs_to_manifest": needs,
            "what_was_run": "tools/seed_validate.sh (existing suite green with the change; demonstration fails with it and passes "
                            "without); tools/seed_record.py: %s, one quick pipeline run (every monitor on the "
                            "implementation's output, full correspondence), ./check of the target property, %s" % (
                                ("patch applied to a scratch copy of /repo (VERIF_REPO)", "patch reversed") if scratch else ("git apply to /repo", "git checkout")),
            "quick_pipeline": {"programs": len(run.programs), "full_output_disagreements": dis,
                               "programs_rejected_by_monitor_of": dict(rej)},
            "checks": checks,
            "caught_by_target_check": checks.get(prop)}
    json.dump(meta, open(os.path.join(d, "meta.json"), "w"), indent=1)
    print(os.path.basename(d), prop, checks, "disagreements", dis, dict(rej))
    return 0


if __name__ == "__main__":
    sys.exit(main())
