#!/usr/bin/env python3
"""tools/seed_probe.py <patch.diff> [tier]: applies a seeded change to /repo, runs the pipeline once and
prints, per monitor, how many programs it rejects, plus full-output disagreements; restores /repo."""
import collections
import os
import subprocess
import sys

sys.path.insert(0, os.path.dirname(os.path.abspath(__file__)))
import verif  # noqa: E402
from compare import same_output  # noqa: E402


def main():
    patch = os.path.abspath(sys.argv[1])
    tier = sys.argv[2] if len(sys.argv) > 2 else "quick"
    if subprocess.run("git -C /repo diff --quiet", shell=True).returncode != 0:
        print("repo dirty")
        return 2
    if subprocess.run("git -C /repo apply " + patch, shell=True).returncode != 0:
        print("patch does not apply")
        return 2
    try:
        b = verif.build()
        if not b["harness"]["ok"]:
            print("harness build failed:", b["harness"]["log"][-500:])
            return 2
        run = verif.pipeline(1, tier)
        c = collections.Counter()
        first = {}
        dis = 0
        for i, (a, m, mon) in enumerate(zip(run.impl, run.model, run.mon)):
            if not same_output(a, m):
                dis += 1
                first.setdefault("disagree", i)
            for tok in mon.split():
                if tok.endswith(":0") and not tok.startswith(("j07", "f7", "wf", "wfe", "dom13", "C01:", "C05i", "C08i")):
                    c[tok] += 1
                    first.setdefault(tok, i)
            if a.startswith("(panic"):
                c["panic"] += 1
        print("programs", len(run.programs), "full disagreements", dis, "monitor rejections", dict(c))
        print("first indices", first)
    finally:
        subprocess.run("git -C /repo checkout -- .", shell=True)
    return 0


if __name__ == "__main__":
    sys.exit(main())
