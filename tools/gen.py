#!/usr/bin/env python3
"""Program generator for the correspondence check and the failing-input search.

All randomness comes from one `random.Random(seed)`.  Streams:
  wf      type-directed, well-formed by construction (confirmed later by the Coq rule checker)
  fault   a well-formed program with one rule of DESIGN.md §3.1 broken at one applicable site
  free    grammar-random, mostly ill-formed (arrays, duplicates, arity errors, odd identifiers)
  known   well-formed-looking programs exercising the recorded findings F2 / F8 shapes
Programs are S-expressions (tools/sexp.py); see DESIGN.md Appendix B.
"""
import random
from sexp import Q

PRIMS = ["u8", "u16", "u32", "u64", "i8", "i16", "i32", "i64", "f32", "f64", "bool", "char", "ptr", "none"]
OPS = ["Plus", "Minus", "Multiply", "Divide", "ShiftLeft", "ShiftRight", "And", "Or", "Xor",
       "Eq", "NotEq", "Great", "Less", "GreatEq", "LessEq"]
# one representative per priority class first, so short chains mix levels
OPS_BY_CLASS = {9: ["Multiply", "ShiftLeft", "ShiftRight"], 8: ["Divide"],
                7: ["And", "Eq", "NotEq", "Great", "Less", "GreatEq", "LessEq"],
                6: ["Or", "Xor"], 5: ["Plus"], 4: ["Minus"]}
CMPS = ["Great", "Less", "Eq", "GreatEq", "LessEq", "NotEq"]
VAL_NAMES = ["x", "y", "z", "x.0", "x.1", "a.b.c", ".", "", "y.007", "z.+5", "v", "w", "x.2", "y.0", "M"]
CONST_NAMES = ["K", "C1", "x", "y", "M.0", "z"]
FN_NAMES = ["f", "g", "h", "main", "f.0", "k"]
STRUCT_NAMES = ["S", "T", "P.q", "S.0", "bool", "i32"]
ATTR_NAMES = ["a", "b", "c", "x", "a.0"]
F32_BITS = [0, 0x3F800000, 0xC0200000, 0x7F7FFFFF, 0x00000001, 0x80000000, 0x41200000]
F64_BITS = [0, 0x3FF0000000000000, 0xC004000000000000, 0x7FEFFFFFFFFFFFFF, 1, 0x8000000000000000]
CHARS = [97, 48, 0x4E2D, 0x1F600, 0, 0x7F]
RANGES = {"u8": (0, 255), "u16": (0, 65535), "u32": (0, 2**32 - 1), "u64": (0, 2**64 - 1),
          "i8": (-128, 127), "i16": (-32768, 32767), "i32": (-2**31, 2**31 - 1),
          "i64": (-2**63, 2**63 - 1)}


def P(p):
    return ("p", p)


def S(name):
    return ("s", name)


class Gen:
    def __init__(self, seed, size=1.0):
        self.rng = random.Random(seed)
        self.size = size
        self.reset()

    @property
    def injected(self):
        return self._injected

    @injected.setter
    def injected(self, v):
        if v is not None and getattr(self, "_pending_multi", False):
            self.multi.append(v)
            self._pending_multi = False
        else:
            self._injected = v

    def reset(self):
        self.ln = 1
        self.structs = {}      # name -> list of (attr, type) as declared
        self.struct_order = []
        self.consts = {}       # name -> type
        self.const_order = []
        self.fns = {}          # name -> (params [(name, type)], result)
        self.fn_order = []
        self.scopes = []
        self.tag = 0
        self.sites = {}
        self.inject = None     # (rule, k) or None
        self.inject2 = None    # set of (rule, k): several faults in one program
        self._pending_multi = False
        self.multi = []        # descriptions of the faults injected through inject2
        self.injected = None   # description of the injected fault
        self.last_closed = None     # names declared in the block(s) of the statement just generated
        self.force_variant = None   # which variant of a fault to inject (cycled by the fault stream)
        self.variant_missed = False  # the forced variant was not applicable at the chosen site
        self.work_types = []

    # ------------------------------------------------------------------ basics
    def ident(self, name):
        self.ln += 1
        if self.rng.random() < 0.03:
            return ["id", Q(name), 1, 0]
        return ["id", Q(name), self.ln, self.rng.randrange(0, 40)]

    def eff_attrs(self, sname):
        """attribute name -> (index, type): the last occurrence wins, as the HashMap does"""
        m = {}
        for i, (a, t) in enumerate(self.structs[sname]):
            m[a] = (i, t)
        return m

    def ty(self, t):
        if t[0] == "p":
            return ["prim", t[1]]
        if t[0] == "s":
            attrs = self.structs.get(t[1], [])
            return ["struct", self.ident(t[1])] + [["attr", self.ident(a), self.ty(at)] for a, at in attrs]
        if t[0] == "a":
            return ["array", self.ty(t[1]), t[2]]
        if t[0] == "u":   # undeclared struct with the given attrs
            return ["struct", self.ident(t[1])] + [["attr", self.ident(a), self.ty(at)] for a, at in t[2]]
        raise ValueError(t)

    def lit(self, p):
        r = self.rng
        if p in RANGES:
            lo, hi = RANGES[p]
            c = r.random()
            if c < 0.7:
                n = r.randrange(max(lo, -3), min(hi, 9) + 1)
            elif c < 0.85:
                n = r.choice([lo, hi])
            else:
                n = r.randrange(lo, hi + 1)
        elif p == "f32":
            n = r.choice(F32_BITS)
        elif p == "f64":
            n = r.choice(F64_BITS)
        elif p == "bool":
            n = r.randrange(2)
        elif p == "char":
            n = r.choice(CHARS)
        else:
            n = 0
        return ["pv", p, n]

    def site(self, rule):
        """Counts an applicable site of `rule`; True iff the fault is to be injected here."""
        k = self.sites.get(rule, 0)
        self.sites[rule] = k + 1
        if self.inject is not None and self.injected is None and self.inject == (rule, k):
            return True
        if self.inject2 and (rule, k) in self.inject2 and self.injected is None:
            # several faults in one program: remember what was injected and keep going
            self.inject2.discard((rule, k))
            self._pending_multi = True
            return True
        return False

    def variant(self, n):
        """Which of the `n` variants of a fault to inject: the forced one (the fault stream cycles
        through them so that a small batch still has every variant of every rule), else random."""
        if self.force_variant is not None:
            return self.force_variant % n
        return self.rng.randrange(n)

    def other_prim(self, t):
        cands = [p for p in ["i32", "bool", "u8", "f64", "i64"] if P(p) != t]
        return P(self.rng.choice(cands))

    def other_type(self, t):
        """A type different from `t` for a type-mismatch fault: usually another primitive; sometimes
        a LOOKALIKE that prints the same name — an undeclared struct spelled like the primitive, or
        the same struct name with another attribute list (types are compared structurally, not by
        name); values of such a type can only come from an extension leaf."""
        r = self.rng
        if t[0] == "s":
            # the difference hidden one level down: same name, same attributes, but one struct-typed
            # attribute whose own definition differs (types are compared structurally all the way)
            attrs = list(self.structs.get(t[1], []))
            nested = [(i, a, at) for i, (a, at) in enumerate(attrs) if at[0] == "s"]
            if nested and r.random() < 0.6:
                i, a, at = r.choice(nested)
                inner = list(self.structs.get(at[1], []))
                inner_alt = inner[:-1] if inner and r.random() < 0.5 else inner + [("zz", P("u8"))]
                attrs2 = list(attrs)
                attrs2[i] = (a, ("u", at[1], inner_alt))
                return ("u", t[1], attrs2)
        if r.random() < 0.7:
            return self.other_prim(t)
        if t[0] == "p":
            nm = "()" if t[1] == "none" else t[1]
            if nm == "()":
                return self.other_prim(t)
            return ("u", nm, [])
        if t[0] == "s":
            attrs = list(self.structs.get(t[1], []))
            alt = attrs[:-1] if attrs and r.random() < 0.5 else attrs + [("zz", P("u8"))]
            return ("u", t[1], alt)
        return self.other_prim(t)

    # ------------------------------------------------------------------ scopes
    def lookup(self, name):
        for sc in reversed(self.scopes):
            if name in sc:
                return sc[name]
        return None

    def visible(self):
        seen = {}
        for sc in self.scopes:
            for k, v in sc.items():
                seen[k] = v
        return seen

    # ------------------------------------------------------------------ expressions
    def val(self, t, depth):
        r = self.rng
        opts = []
        vis = self.visible()
        names = [n for n, (vt, _) in vis.items() if vt == t]
        consts = [c for c, ct in self.consts.items() if ct == t and c not in vis]
        calls = [f for f, (ps, rt) in self.fns.items() if rt == t]
        fields = []
        for n, (vt, _) in vis.items():
            if vt[0] == "s" and vt[1] in self.structs:
                for a, (_, at) in self.eff_attrs(vt[1]).items():
                    if at == t:
                        fields.append((n, a))
        if t[0] == "p":
            opts += ["lit"] * 3
        if names:
            opts += ["name"] * 4
        if consts:
            opts += ["const"] * 2
        if calls and depth > 0:
            opts += ["call"] * 2
        if fields:
            opts += ["field"] * 3
        if depth > 0:
            opts += ["sub"]
        opts += ["ext"]
        k = r.choice(opts)
        if k == "lit":
            return ["prim", self.lit(t[1])]
        if k == "name":
            n = r.choice(names)
            if self.site("R7"):
                self.injected = {"rule": "R7", "kind": "ValueNotFound", "name": "undeclared"}
                return ["name", self.ident("undeclared")]
            return ["name", self.ident(n)]
        if k == "const":
            return ["name", self.ident(r.choice(consts))]
        if k == "call":
            return self.call(r.choice(calls), depth - 1)
        if k == "field":
            n, a = r.choice(fields)
            if self.site("R9"):
                c = self.variant(3)
                prims = [m for m, (vt, _) in vis.items() if vt[0] == "p"]
                if c == 0 or (c == 1 and not prims):
                    self.injected = {"rule": "R9", "kind": "ValueNotFound", "name": "undeclared"}
                    return ["field", self.ident("undeclared"), self.ident(a)]
                if c == 1:
                    m = r.choice(prims)
                    self.injected = {"rule": "R9", "kind": "ValueNotStruct", "name": m}
                    return ["field", self.ident(m), self.ident(a)]
                self.injected = {"rule": "R9", "kind": "ValueNotStructField", "name": n}
                return ["field", self.ident(n), self.ident("nofield")]
            return ["field", self.ident(n), self.ident(a)]
        if k == "sub":
            return ["sub", self.expr(t, depth - 1)]
        # now and then the SAME leaf again (same type, same tag): two occurrences of one extension
        # expression are two evaluations
        prev = getattr(self, "ext_seen", None)
        if prev is None:
            prev = self.ext_seen = {}
        key = repr(t)
        if key in prev and self.rng.random() < 0.15:
            return ["ext", self.ty(t), prev[key]]
        self.tag += 1
        prev[key] = self.tag
        return ["ext", self.ty(t), self.tag]

    def call(self, f, depth):
        ps, _ = self.fns[f]
        if self.site("R10"):
            c = self.variant(4)
            if c == 3 and len(ps) >= 2:
                # two faults inside one call: an earlier argument of the wrong type, a later one that
                # does not analyse; the first violation is the type of the earlier argument
                j = self.rng.randrange(len(ps) - 1)
                args = []
                for i, (_, pt) in enumerate(ps):
                    if i == j:
                        args.append(["expr", ["prim", self.lit(self.other_prim(pt)[1])]])
                    elif i == j + 1:
                        args.append(["expr", ["prim", self.lit("i32")], ["Multiply", ["name", self.ident("undeclared")]]])
                    else:
                        args.append(self.expr(pt, 0))
                self.injected = {"rule": "R10", "kind": "FunctionParameterTypeWrong"}
                return ["call", self.ident(f)] + args
            if c == 3:
                self.variant_missed = True     # needs a callee with two parameters: try another seed
                c = 0
            if c == 1 and not ps:
                self.variant_missed = True
            if c == 0 or (c == 1 and not ps):
                self.injected = {"rule": "R10", "kind": "FunctionNotFound", "name": "nofn"}
                return ["call", self.ident("nofn")] + [self.expr(pt, depth) for _, pt in ps]
            if c == 1:
                j = self.rng.randrange(len(ps))
                args = []
                for i, (_, pt) in enumerate(ps):
                    args.append(self.expr(self.other_type(pt) if i == j else pt, depth))
                    if i == j:
                        break   # the first fault must be this argument's type
                args += [self.expr(pt, 0) for _, pt in ps[j + 1:]]
                self.injected = {"rule": "R10", "kind": "FunctionParameterTypeWrong"}
                return ["call", self.ident(f)] + args
            self.injected = {"rule": "R10", "kind": "FunctionParameterTypeWrong"}
            return ["call", self.ident(f)] + [self.expr(pt, depth) for _, pt in ps] + [self.expr(P("i32"), 0)]
        args = [self.expr(pt, depth) for _, pt in ps]
        # sibling arguments that are bare reads of related things: two fields of one struct value,
        # or the same value twice (anything keyed by the text of an operand confuses them)
        r = self.rng
        same = [(i, j) for i in range(len(ps)) for j in range(i + 1, len(ps)) if ps[i][1] == ps[j][1]]
        if same and r.random() < 0.35:
            i, j = r.choice(same)
            t = ps[i][1]
            vis = self.visible()
            pairs = []
            for n, (vt, _) in vis.items():
                if vt[0] == "s" and vt[1] in self.structs:
                    fs = [a for a, (_, at) in self.eff_attrs(vt[1]).items() if at == t]
                    if len(fs) >= 2:
                        pairs.append((n, fs))
            names = [n for n, (vt, _) in vis.items() if vt == t]
            if pairs and r.random() < 0.7:
                n, fs = r.choice(pairs)
                fa, fb = r.sample(fs, 2)
                args[i] = ["expr", ["field", self.ident(n), self.ident(fa)]]
                args[j] = ["expr", ["field", self.ident(n), self.ident(fb)]]
            elif names:
                n = r.choice(names)
                args[i] = ["expr", ["name", self.ident(n)]]
                args[j] = ["expr", ["name", self.ident(n)]]
        return ["call", self.ident(f)] + args

    def expr(self, t, depth, maxlinks=None):
        r = self.rng
        if maxlinks is None:
            maxlinks = 4
        c = r.random()
        if depth <= 0:
            nl = 0 if c < 0.7 else 1
        elif c < 0.45:
            nl = 0
        elif c < 0.65:
            nl = 1
        elif c < 0.8:
            nl = 2
        else:
            nl = r.randrange(3, 3 + maxlinks)
        vals = [self.val(t, depth) for _ in range(nl + 1)]
        e = ["expr", vals[0]]
        classes = list(OPS_BY_CLASS)
        bad = None
        if nl > 0 and self.site("R11"):
            bad = r.randrange(1, nl + 1)
        for i in range(1, nl + 1):
            op = r.choice(OPS_BY_CLASS[r.choice(classes)])
            v = vals[i]
            if bad == i:
                v = ["prim", self.lit(self.other_prim(t)[1])]
                self.injected = {"rule": "R11", "kind": "WrongExpressionType"}
            e.append([op, v])
        return e

    # ------------------------------------------------------------------ conditions
    def cond(self, depth):
        r = self.rng
        if r.random() < 0.4:
            return ["single", self.expr(self.pick_type(), depth)]
        n = 1 if r.random() < 0.6 else r.randrange(2, 4)
        lcs = []
        for _ in range(n):
            t = self.pick_prim_type()
            rt = t
            if self.site("R14"):
                structs = [x for x in self.work_types if x[0] == "s"]
                c14 = [0.1, 0.4, 0.8][self.variant(3)]
                if structs and c14 < 0.3:
                    t = rt = r.choice(structs)
                    self.injected = {"rule": "R14", "kind": "ConditionExpressionNotSupported"}
                elif structs and c14 < 0.6:
                    # breaks both rules at once (a struct on one side, another type on the other):
                    # the type mismatch is the one met first
                    st = r.choice(structs)
                    if r.random() < 0.5:
                        t, rt = st, self.other_type(st)
                    else:
                        t, rt = self.other_type(st), st
                    self.injected = {"rule": "R14", "kind": "ConditionExpressionWrongType"}
                else:
                    rt = self.other_type(t)
                    self.injected = {"rule": "R14", "kind": "ConditionExpressionWrongType"}
            lcs.append((self.expr(t, depth), r.choice(CMPS), self.expr(rt, depth)))
        lc = None
        for l, c, rr in reversed(lcs):
            if lc is None:
                lc = ["lc", l, c, rr]
            else:
                lc = ["lc", l, c, rr, r.choice(["And", "Or"]), lc]
        return ["logic", lc]

    # ------------------------------------------------------------------ types in use
    def pick_type(self):
        return self.rng.choice(self.work_types)

    def pick_prim_type(self):
        return self.rng.choice([t for t in self.work_types if t[0] == "p"])

    # ------------------------------------------------------------------ statements
    def stmts(self, kind, depth, in_loop, ret_ty):
        """kind: fn | if | ifloop | loop.  Returns the statement list of one block."""
        r = self.rng
        if kind != "fn":
            self.scopes.append({})
        n = r.choice([0, 1, 1, 2, 2, 3, 4, 5]) if depth > 0 else r.choice([0, 1, 1, 2])
        n = max(0, int(n * self.size + 0.5)) if self.size != 1.0 else n
        out = []
        for _ in range(n):
            self.last_closed = None
            st = self.stmt(kind, depth, in_loop, ret_ty)
            if isinstance(st, tuple):
                out.extend(st[1])      # ("multi", [statements])
            else:
                out.append(st)
                if st[0] in ("if", "loop") and self.last_closed:
                    out.extend(self.scope_exit_probe())
        # terminator
        term = None
        if kind == "fn":
            if self.site("R22"):
                c = self.variant(4)
                if c == 0:
                    self.injected = {"rule": "R22", "kind": "ReturnNotFound"}
                    return out
                if c == 1:
                    self.injected = {"rule": "R22", "kind": "WrongReturnType"}
                    out.append(["ret", self.expr(self.other_type(ret_ty), 1)])
                    return out
                if c == 2:
                    self.injected = {"rule": "R22", "kind": "ForbiddenCodeAfterReturnDeprecated"}
                    out.append(["ret", self.expr(ret_ty, 1)])
                    out.append(["ret", self.expr(ret_ty, 1)])
                    return out
                self.injected = {"rule": "R22", "kind": "ForbiddenCodeAfterReturnDeprecated"}
                out.append(["exprstmt", self.expr(ret_ty, 1)])
                out.append(["let", self.ident("late"), 0, ["noty"], self.expr(P("i32"), 0)])
                return out
            out.append([r.choice(["ret", "ret", "exprstmt"]), self.expr(ret_ty, 2)])
        else:
            c = r.random()
            if c < 0.22:
                if self.site("R20"):
                    self.injected = {"rule": "R20", "kind": "WrongReturnType"}
                    term = ["ret", self.expr(self.other_prim(ret_ty), 1)]
                else:
                    term = ["ret", self.expr(ret_ty, 1)]
            elif kind in ("ifloop", "loop") and c < 0.5:
                term = [r.choice(["break", "continue"])]
            if term is not None:
                out.append(term)
                if self.site("R21"):
                    kindmap = {"ret": "ForbiddenCodeAfterReturnDeprecated",
                               "break": "ForbiddenCodeAfterBreakDeprecated",
                               "continue": "ForbiddenCodeAfterContinueDeprecated"}
                    self.injected = {"rule": "R21", "kind": kindmap[term[0]], "block": kind, "after": term[0]}
                    out.append(["let", self.ident("late"), 0, ["noty"], self.expr(P("i32"), 0)])
        if kind != "fn":
            closed = self.scopes.pop()
            # names declared in the block that just ended (merged over the blocks of one statement)
            self.last_closed = dict(self.last_closed or {}, **closed)
        return out

    def scope_exit_probe(self):
        """Right after a nested statement: use a name that was (re)declared inside it.  If the name is
        also visible outside, the use must see the OUTER declaration (well-formed: an assignment of a
        literal when it is mutable, a read otherwise); a name declared only inside is not in scope
        any more (fault R7x: ValueNotFound).  Anything that remembers a lookup across the end of
        a block shows up here."""
        r = self.rng
        closed, self.last_closed = self.last_closed, None
        if r.random() < 0.55:
            return []
        outer = [(n, self.lookup(n)) for n in closed if self.lookup(n) is not None]
        outer = [(n, tm) for n, tm in outer if tm[0][0] == "p"]
        if outer:
            n, (t, mut) = r.choice(outer)
            if mut and r.random() < 0.5:
                return [["bind", self.ident(n), ["expr", ["prim", self.lit(t[1])]]]]
            probe = "v" if n != "v" else "w"
            st = ["let", self.ident(probe), 0, ["ty", self.ty(t)], ["expr", ["name", self.ident(n)]]]
            self.scopes[-1][probe] = (t, False)
            return [st]
        inner_only = [n for n in closed if self.lookup(n) is None and n not in self.consts]
        if inner_only and self.site("R7x"):
            n = r.choice(inner_only)
            self.injected = {"rule": "R7x", "kind": "ValueNotFound", "name": n}
            return [["let", self.ident("late"), 0, ["noty"], ["expr", ["name", self.ident(n)]]]]
        return []

    def stmt(self, kind, depth, in_loop, ret_ty):
        r = self.rng
        opts = ["let"] * 4 + ["bind"] * 2 + ["call"]
        if depth > 0:
            opts += ["if"] * 3 + ["loop"]
        k = r.choice(opts)
        if k == "bind":
            muts = [(n, t) for n, (t, m) in self.visible().items() if m]
            if not muts:
                k = "let"
            else:
                n, t = r.choice(muts)
                if self.site("R16"):
                    c = self.variant(5)
                    imm = [m for m, (_, mu) in self.visible().items() if not mu]
                    if c >= 3:
                        # an IMMUTABLE let that shadows a visible `let mut` of the same name (c == 3:
                        # preferably one declared in an enclosing block, so that the shadowing let sits
                        # in a nested block), then an assignment: the nearest declaration decides,
                        # whatever the type of the assigned expression
                        outer = [(m, mt) for m, mt in muts if m not in self.scopes[-1]]
                        n, t = r.choice(outer) if (outer and c == 3) else (n, t)
                        t2 = t if r.random() < 0.5 else self.other_prim(t)
                        s1 = ["let", self.ident(n), 0, ["noty"], self.expr(t2, 1)]
                        self.scopes[-1][n] = (t2, False)
                        s2 = ["bind", self.ident(n), self.expr(t if c == 3 else t2, 1)]
                        self.injected = {"rule": "R16", "kind": "ValueIsNotMutable", "name": n,
                                         "shadow": "nested" if (outer and c == 3) else "any"}
                        return ("multi", [s1, s2])
                    if c == 0 or (c == 1 and not imm):
                        self.injected = {"rule": "R16", "kind": "ValueNotFound", "name": "undeclared"}
                        return ["bind", self.ident("undeclared"), self.expr(t, 1)]
                    if c == 1:
                        m = r.choice(imm)
                        self.injected = {"rule": "R16", "kind": "ValueIsNotMutable", "name": m}
                        return ["bind", self.ident(m), self.expr(self.lookup(m)[0], 1)]
                    self.injected = {"rule": "R16", "kind": "WrongExpressionType", "name": n}
                    return ["bind", self.ident(n), self.expr(self.other_type(t), 1)]
                return ["bind", self.ident(n), self.expr(t, 2)]
        if k == "call":
            if not self.fns:
                k = "let"
            else:
                return self.call(r.choice(list(self.fns)), 1)
        if k == "let":
            shadowable = [c for c, ct in self.consts.items() if ct[0] == "p" and c not in self.visible()]
            if shadowable and self.site("R7s"):
                # a local that shadows a global constant of ANOTHER type, read where the constant's type
                # would fit: the read must see the local (WrongLetType), not the constant
                c = r.choice(shadowable)
                tc = self.consts[c]
                tl = self.other_prim(tc)
                s1 = ["let", self.ident(c), 0, ["noty"], self.expr(tl, 1)]
                self.scopes[-1][c] = (tl, False)
                probe = r.choice(VAL_NAMES[:4])
                s2 = ["let", self.ident(probe), 0, ["ty", self.ty(tc)], ["expr", ["name", self.ident(c)]]]
                self.scopes[-1][probe] = (tc, False)
                self.injected = {"rule": "R7s", "kind": "WrongLetType", "name": probe}
                return ("multi", [s1, s2])
            t = self.pick_type()
            name = r.choice(VAL_NAMES[: 4 + int(10 * r.random())])
            mut = r.randrange(2)
            if r.random() < 0.05:
                # an extension leaf may return ANY type (C19: used verbatim): an array, a struct
                # nobody declared, a lookalike of a primitive; nothing checks that it exists
                t = r.choice([("a", P("u8"), 4), ("u", "Nowhere", [("a", P("i32"))]), ("u", "bool", []),
                              ("a", ("u", "Nowhere", []), 0)])
            e = self.expr(t, 2)
            ann = ["noty"]
            if r.random() < 0.3:
                ann = ["ty", self.ty(t)]
            if self.site("R15"):
                ann = ["ty", self.ty(self.other_type(t))]
                self.injected = {"rule": "R15", "kind": "WrongLetType", "name": name}
            s = ["let", self.ident(name), mut, ann, e]
            self.scopes[-1][name] = (t, bool(mut))
            return s
        if k == "loop":
            return ["loop"] + self.stmts("loop", depth - 1, True, ret_ty)
        return ["if", self.ifs(depth - 1, in_loop, ret_ty, 0)]

    def ifbody(self, depth, in_loop, ret_ty):
        if in_loop and self.rng.random() < 0.6:
            return ["loopbody"] + self.stmts("ifloop", depth, True, ret_ty)
        return ["ifbody"] + self.stmts("if", depth, in_loop, ret_ty)

    def ifs(self, depth, in_loop, ret_ty, chain):
        r = self.rng
        # the condition is evaluated in the then-block before its statements: same visibility
        c = self.cond(1)
        body = self.ifbody(depth, in_loop, ret_ty)
        els, elif_ = ["noelse"], ["noelif"]
        x = r.random()
        if x < 0.3:
            els = ["else", self.ifbody(depth, in_loop, ret_ty)]
        elif x < 0.55 and chain < 3:
            elif_ = ["elif", self.ifs(depth, in_loop, ret_ty, chain + 1)]
        if self.site("R18"):
            self.injected = {"rule": "R18", "kind": "IfElseDuplicated"}
            els = ["else", self.ifbody(0, in_loop, ret_ty)]
            elif_ = ["elif", self.ifs(0, in_loop, ret_ty, 3)]
            c18 = [0.1, 0.5, 0.9][self.variant(3)]
            if c18 < 0.35:
                # a second violation inside the same if: the else / else-if rule is still met first
                c = ["single", ["expr", ["name", self.ident("ghost")]]]
            elif c18 < 0.6:
                body = [body[0], ["let", self.ident("late"), 0, ["noty"], ["expr", ["name", self.ident("ghost")]]]] + body[1:]
        return ["ifs", c, body, els, elif_]

    # ------------------------------------------------------------------ declarations
    def const_value(self, earlier):
        r = self.rng
        def cv():
            if earlier and r.random() < 0.4:
                return ["cconst", self.ident(r.choice(earlier))]
            return ["cval", self.lit(r.choice(PRIMS))]
        n = r.choice([0, 0, 1, 2, 3])
        e = ["cexpr", cv()]
        for _ in range(n):
            e.append([r.choice(OPS), cv()])
        return e

    def program(self):
        """One well-formed program (or, when `inject` is set, one with that fault)."""
        r = self.rng
        tops = []
        # struct declarations
        for name in r.sample(STRUCT_NAMES, r.choice([0, 1, 1, 2, 3])):
            n = r.choice([0, 1, 2, 2, 3, 4])
            attrs = []
            for _ in range(n):
                an = r.choice(ATTR_NAMES)
                ca = r.random()
                if ca < 0.1:
                    # attribute types are never checked for existence: a struct nobody declares, an array
                    at = r.choice([("u", "Ghost", []), ("a", P("u8"), 2), ("u", "Ghost", [("g", P("i32"))])])
                elif ca < 0.75 or not self.struct_order:
                    at = P(r.choice(["i32", "bool", "u8", "f64", "i64", "char"]))
                else:
                    at = S(r.choice(self.struct_order))
                attrs.append((an, at))
            self.structs[name] = attrs
            self.struct_order.append(name)
            tops.append(["struct", self.ident(name)] + [["attr", self.ident(a), self.ty(t)] for a, t in attrs])
            if self.site("R1"):
                self.injected = {"rule": "R1", "kind": "TypeAlreadyExist", "name": name}
                tops.append(["struct", self.ident(name)])
        self.work_types = [P(p) for p in r.sample(["i32", "bool", "u8", "f64", "i64", "char", "none", "ptr", "u64", "f32"], 3)]
        self.work_types += [S(s) for s in self.struct_order]
        # constants (relative order is kept by the shuffle below)
        const_tops = []
        for name in r.sample(CONST_NAMES, r.choice([0, 1, 2, 2, 3, 4])):
            t = self.pick_type() if r.random() < 0.8 else P(r.choice(PRIMS))
            val = self.const_value(list(self.const_order))
            if self.site("R5"):
                self.injected = {"rule": "R5", "kind": "ConstantNotFound", "name": "NOCONST"}
                earlier = list(self.const_order)
                val = ["cexpr", ["cval", self.lit("i32")]]
                for _ in range(r.choice([0, 0, 1, 2, 3])):
                    val.append([r.choice(OPS), ["cconst", self.ident(r.choice(earlier))] if earlier and r.random() < 0.8
                                else ["cval", self.lit("i32")]])
                val.append([r.choice(OPS), ["cconst", self.ident("NOCONST")]])
                for _ in range(r.choice([0, 0, 1])):
                    val.append([r.choice(OPS), ["cval", self.lit("i32")]])
            tsx = self.ty(t)
            if self.site("R6c"):
                self.injected = {"rule": "R6", "kind": "TypeNotFound", "name": name}
                tsx = self.ty(("u", "Undeclared", []))
            const_tops.append(["const", self.ident(name), tsx, val])
            self.consts[name] = t
            self.const_order.append(name)
            if self.site("R2"):
                self.injected = {"rule": "R2", "kind": "ConstantAlreadyExist", "name": name}
                const_tops.append(["const", self.ident(name), self.ty(P("i32")), ["cexpr", ["cval", self.lit("i32")]]])
        # function signatures
        sigs = []
        for name in r.sample(FN_NAMES, r.choice([1, 1, 2, 2, 3, 4])):
            owner = None
            if self.struct_order and r.random() < 0.12:
                # `Type.method`-style names are ordinary identifiers; such a function usually takes a
                # value of that type and reads its fields
                owner = r.choice(self.struct_order)
                name = owner + "." + name
            np_ = r.choice([0, 1, 1, 2, 3])
            if owner:
                np_ = max(1, np_)
            pnames = r.sample(VAL_NAMES, np_)
            params = [(pn, self.pick_type()) for pn in pnames]
            if owner:
                params[0] = (params[0][0], S(owner))
            rt = self.pick_type()
            self.fns[name] = (params, rt)
            self.fn_order.append(name)
            sigs.append(name)
        fn_tops = []
        for name in sigs:
            params, rt = self.fns[name]
            self.scopes = [dict((pn, (pt, False)) for pn, pt in params)]
            psx = [[self.ident(pn), self.ty(pt)] for pn, pt in params]
            rsx = self.ty(rt)
            if params and self.site("R4"):
                self.injected = {"rule": "R4", "kind": "FunctionArgumentNameDuplicated", "name": params[0][0]}
                psx.append([self.ident(params[0][0]), self.ty(P("i32"))])
            if self.site("R6f"):
                self.injected = {"rule": "R6", "kind": "TypeNotFound", "name": name}
                rsx = self.ty(("u", "Undeclared", []))
            elif params and self.site("R6p"):
                self.injected = {"rule": "R6", "kind": "TypeNotFound", "name": params[-1][0]}
                psx[len(params) - 1][1] = self.ty(("u", "Undeclared", []))
            body = self.stmts("fn", 3, False, rt)
            fn_tops.append(["fn", self.ident(name), ["params"] + psx, rsx, ["body"] + body])
            if self.site("R3"):
                self.injected = {"rule": "R3", "kind": "FunctionAlreadyExist", "name": name}
                fn_tops.append(["fn", self.ident(name), ["params"], self.ty(P("i32")),
                                ["body", ["ret", ["expr", ["prim", self.lit("i32")]]]]])
        if r.random() < 0.3:
            tops.append(["import", self.ident("std"), self.ident("io")])
        # interleave, keeping the relative order inside each class (constants must)
        return ["program"] + self.interleave([t for t in tops], const_tops, fn_tops)

    def interleave(self, a, b, c):
        r = self.rng
        r.shuffle(a)
        r.shuffle(c)
        seqs = [list(a), list(b), list(c)]
        out = []
        while any(seqs):
            s = r.choice([q for q in seqs if q])
            out.append(s.pop(0))
        return out


RULES = ["R1", "R2", "R3", "R4", "R5", "R6c", "R6f", "R6p", "R7", "R7s", "R7x", "R9", "R10", "R11", "R14", "R15",
         "R16", "R18", "R20", "R21", "R22"]


def gen_wf(seed, size=1.0):
    g = Gen(seed, size)
    return g.program(), {"stream": "wf", "seed": seed}


def gen_multi_fault(seed, nfaults=2):
    """A well-formed program with several independent faults (different rules, random sites):
    the first error must still be the first violation in analysis order."""
    rr = random.Random(seed ^ 0xFA17)
    g = Gen(seed)
    g.program()
    avail = [(ru, n) for ru, n in g.sites.items() if n > 0]
    if len(avail) < 2:
        return gen_wf(seed)
    picks = set()
    multi = [(ru, n) for ru, n in avail if n >= 2]
    if multi and rr.random() < 0.35:
        # the same rule broken at two or three different sites (e.g. one undeclared name read in two
        # different functions)
        ru, n = rr.choice(multi)
        for k in rr.sample(range(n), min(n, rr.choice([2, 2, 3]))):
            picks.add((ru, k))
    else:
        for ru, n in rr.sample(avail, min(nfaults, len(avail))):
            picks.add((ru, rr.randrange(n)))
    g = Gen(seed)
    g.inject2 = set(picks)
    p = g.program()
    return p, {"stream": "fault2", "seed": seed, "faults": g.multi}


def flatten_positions(tree):
    """The same program with every identifier at the default position (1, 0): what an AST built with
    `Ident::new` looks like (all the repository's own tests build theirs that way)."""
    if isinstance(tree, list):
        if len(tree) == 4 and tree[0] == "id":
            return ["id", tree[1], 1, 0]
        return [flatten_positions(t) for t in tree]
    return tree


def gen_fault(seed, rule=None, variant=None):
    """Well-formed program with one fault of `rule` (variant `variant` of it, when the rule has
    several) at a uniformly chosen applicable site."""
    rr = random.Random(seed ^ 0x5EED)
    rules = [rule] if rule else rr.sample(RULES, len(RULES))
    # a program without a site for the wanted rule: try the next seeds (a rule such as R9 needs a
    # struct-typed value in scope) before giving up
    for attempt in range(12 if rule else 1):
        sd = seed + attempt
        for ru in rules:
            g = Gen(sd)
            g.program()
            n = g.sites.get(ru, 0)
            if n == 0:
                continue
            k = rr.randrange(n)
            if ru == "R21" and variant is not None:
                # look through the sites of this program for the wanted (body kind, terminator)
                want21 = [("ifloop", "ret"), ("if", "ret"), ("loop", "ret"), ("ifloop", "break"), ("loop", "continue"),
                          ("ifloop", "continue")][variant % 6]
                for kk in range(n):
                    g = Gen(sd)
                    g.inject = (ru, kk)
                    g.program()
                    if g.injected is not None and (g.injected.get("block"), g.injected.get("after")) == want21:
                        k = kk
                        break
            if ru == "R16" and variant is not None and variant % 5 == 3:
                # the shadowing let in a nested block, the `let mut` in an enclosing one
                for kk in range(n):
                    g = Gen(sd)
                    g.inject = (ru, kk)
                    g.force_variant = variant
                    g.program()
                    if g.injected is not None and g.injected.get("shadow") == "nested":
                        k = kk
                        break
            g = Gen(sd)
            g.inject = (ru, k)
            g.force_variant = variant
            p = g.program()
            if g.variant_missed and variant is not None and attempt < 11:
                continue
            if (ru == "R16" and variant is not None and variant % 5 == 3 and attempt < 11
                    and g.injected is not None and g.injected.get("shadow") != "nested"):
                continue
            if ru == "R21" and variant is not None and attempt < 11 and g.injected is not None:
                # code after return / break / continue, in each kind of body in turn
                want = [("ifloop", "ret"), ("if", "ret"), ("loop", "ret"), ("ifloop", "break"), ("loop", "continue"),
                        ("ifloop", "continue")][variant % 6]
                if (g.injected.get("block"), g.injected.get("after")) != want:
                    continue
            if g.injected is not None:
                meta = {"stream": "fault", "seed": sd, "site": k, "sites": n}
                meta.update(g.injected)
                return p, meta
    p, m = gen_wf(seed)
    return p, m


# ---------------------------------------------------------------------------------------- free form
class Free:
    """Grammar-random programs over tiny pools: most are ill-formed in several ways at once."""

    def __init__(self, seed, depth=3, arrays=True):
        self.rng = random.Random(seed)
        self.ln = 1
        self.depth = depth
        self.arrays = arrays
        self.tag = 0

    def ident(self, name):
        self.ln += 1
        return ["id", Q(name), self.ln, self.rng.randrange(0, 40)]

    def ty(self, d=2):
        r = self.rng
        c = r.random()
        if c < 0.6 or d == 0:
            return ["prim", r.choice(["i32", "bool", "u8", "i32", "f64", "none", "ptr", "char"])]
        if c < 0.9 or not self.arrays:
            n = r.choice([0, 1, 2])
            return ["struct", self.ident(r.choice(STRUCT_NAMES[:3]))] + [
                ["attr", self.ident(r.choice(ATTR_NAMES[:3])), self.ty(d - 1)] for _ in range(n)]
        return ["array", self.ty(d - 1), r.choice([0, 1, 3])]

    def lit(self):
        r = self.rng
        p = r.choice(["i32", "i32", "bool", "u8", "f64", "none", "ptr", "char", "u64", "i8"])
        g = Gen(0)
        g.rng = r
        return g.lit(p)

    def val(self, d):
        r = self.rng
        c = r.random()
        if c < 0.3 or d <= 0:
            return ["prim", self.lit()] if r.random() < 0.5 else ["name", self.ident(r.choice(VAL_NAMES[:6] + CONST_NAMES[:3]))]
        if c < 0.5:
            return ["name", self.ident(r.choice(VAL_NAMES + CONST_NAMES))]
        if c < 0.65:
            return ["call", self.ident(r.choice(FN_NAMES[:4]))] + [self.expr(d - 1) for _ in range(r.choice([0, 1, 1, 2, 3]))]
        if c < 0.78:
            return ["field", self.ident(r.choice(VAL_NAMES[:5])), self.ident(r.choice(ATTR_NAMES[:3]))]
        if c < 0.9:
            return ["sub", self.expr(d - 1)]
        self.tag += 1
        return ["ext", self.ty(1), self.tag]

    def expr(self, d):
        r = self.rng
        n = r.choice([0, 0, 0, 1, 1, 2, 3, 5])
        e = ["expr", self.val(d)]
        for _ in range(n):
            e.append([r.choice(OPS), self.val(d)])
        return e

    def lc(self, d, n):
        r = self.rng
        x = ["lc", self.expr(d), r.choice(CMPS), self.expr(d)]
        if n > 0:
            x += [r.choice(["And", "Or"]), self.lc(d, n - 1)]
        return x

    def stmt(self, kind, d, in_loop):
        r = self.rng
        opts = ["let", "let", "bind", "call", "ret"]
        if d > 0:
            opts += ["if", "if", "loop"]
        if kind in ("ifloop", "loop"):
            opts += ["break", "continue"]
        if kind == "fn":
            opts += ["exprstmt"]
        k = r.choice(opts)
        if k == "let":
            ann = ["noty"] if r.random() < 0.6 else ["ty", self.ty(1)]
            return ["let", self.ident(r.choice(VAL_NAMES)), r.randrange(2), ann, self.expr(2)]
        if k == "bind":
            return ["bind", self.ident(r.choice(VAL_NAMES[:6])), self.expr(2)]
        if k == "call":
            return ["call", self.ident(r.choice(FN_NAMES[:4]))] + [self.expr(1) for _ in range(r.choice([0, 1, 2, 3]))]
        if k in ("ret", "exprstmt"):
            return [k, self.expr(2)]
        if k in ("break", "continue"):
            return [k]
        if k == "loop":
            return ["loop"] + self.block("loop", d - 1, True)
        return ["if", self.ifs(d - 1, in_loop, 0)]

    def block(self, kind, d, in_loop):
        return [self.stmt(kind, d, in_loop) for _ in range(self.rng.choice([0, 1, 1, 2, 3, 4]))]

    def ifbody(self, d, in_loop):
        if in_loop and self.rng.random() < 0.5:
            return ["loopbody"] + self.block("ifloop", d, True)
        return ["ifbody"] + self.block("if", d, in_loop)

    def ifs(self, d, in_loop, chain):
        r = self.rng
        c = ["single", self.expr(1)] if r.random() < 0.4 else ["logic", self.lc(1, r.choice([0, 0, 1, 2]))]
        els = ["else", self.ifbody(d, in_loop)] if r.random() < 0.35 else ["noelse"]
        elif_ = ["elif", self.ifs(d, in_loop, chain + 1)] if r.random() < 0.3 and chain < 3 else ["noelif"]
        return ["ifs", c, self.ifbody(d, in_loop), els, elif_]

    def program(self):
        r = self.rng
        tops = []
        for _ in range(r.choice([1, 2, 3, 4, 5, 6])):
            c = r.random()
            if c < 0.2:
                tops.append(["struct", self.ident(r.choice(STRUCT_NAMES[:3]))] + [
                    ["attr", self.ident(r.choice(ATTR_NAMES[:3])), self.ty(1)] for _ in range(r.choice([0, 1, 2, 3]))])
            elif c < 0.4:
                e = ["cexpr", self.cv()]
                for _ in range(r.choice([0, 0, 1, 2, 3])):
                    e.append([r.choice(OPS), self.cv()])
                tops.append(["const", self.ident(r.choice(CONST_NAMES[:4])), self.ty(1), e])
            elif c < 0.45:
                tops.append(["import"] + [self.ident("m") for _ in range(r.choice([0, 1, 2]))])
            else:
                ps = [[self.ident(r.choice(VAL_NAMES[:5])), self.ty(1)] for _ in range(r.choice([0, 1, 1, 2, 3]))]
                tops.append(["fn", self.ident(r.choice(FN_NAMES[:4])), ["params"] + ps, self.ty(1),
                             ["body"] + self.block("fn", self.depth, False)])
        return ["program"] + tops

    def cv(self):
        r = self.rng
        if r.random() < 0.5:
            return ["cconst", self.ident(r.choice(CONST_NAMES[:4]))]
        return ["cval", self.lit()]


def gen_free(seed, arrays=True):
    return Free(seed, arrays=arrays).program(), {"stream": "free", "seed": seed}


# ---------------------------------------------------------------------------------------- known shapes
def gen_known(seed):
    """Programs in the shapes of the recorded findings (F2 too few arguments; F8 unchecked
    constant references in head position / after a literal)."""
    r = random.Random(seed)
    g = Gen(seed)
    i32 = ["prim", "i32"]
    lit = lambda: ["expr", ["prim", ["pv", "i32", r.randrange(5)]]]
    c = r.randrange(3)
    if c == 0:
        np_ = r.choice([1, 2, 3])
        callee = ["fn", g.ident("g"), ["params"] + [[g.ident("p%d" % i), i32] for i in range(np_)], i32,
                  ["body", ["ret", lit()]]]
        nargs = r.randrange(np_)
        caller = ["fn", g.ident("f"), ["params"], i32,
                  ["body", ["call", g.ident("g")] + [lit() for _ in range(nargs)], ["ret", lit()]]]
        tops = [callee, caller]
        r.shuffle(tops)
        return ["program"] + tops, {"stream": "known", "seed": seed, "class": "F2"}
    if c == 1:
        val = ["cexpr", ["cconst", g.ident("MISSING")]] + [["Plus", ["cval", ["pv", "i32", 1]]]] * r.randrange(2)
        return ["program", ["const", g.ident("A"), i32, val],
                ["fn", g.ident("f"), ["params"], i32, ["body", ["ret", lit()]]]], \
            {"stream": "known", "seed": seed, "class": "F8"}
    val = ["cexpr", ["cval", ["pv", "i32", 1]], ["Plus", ["cval", ["pv", "i32", 2]]],
           ["Plus", ["cconst", g.ident("MISSING")]]]
    return ["program", ["const", g.ident("A"), i32, val],
            ["fn", g.ident("f"), ["params"], i32, ["body", ["ret", lit()]]]], \
        {"stream": "known", "seed": seed, "class": "F8"}


# ---------------------------------------------------------------------------------------- chains (C07)
CLASS_REP = {9: ["Multiply", "ShiftLeft", "ShiftRight"], 8: ["Divide"],
             7: ["And", "Eq", "NotEq", "Great", "Less", "GreatEq", "LessEq"],
             6: ["Or", "Xor"], 5: ["Plus"], 4: ["Minus"]}
CLASSES = [9, 8, 7, 6, 5, 4]


def chain_program(rng, chains, tag0=0):
    """One accepted program: a function whose lets are the given operator chains (lists of
    priority classes) over extension leaves, plus literal / call / bracketed operands sampled in."""
    g = Gen(0)
    g.rng = rng
    i32 = ["prim", "i32"]
    tag = [tag0]

    def leaf():
        tag[0] += 1
        return ["ext", i32, tag[0]]
    lets = []
    for k, ch in enumerate(chains):
        e = ["expr", leaf()]
        for c in ch:
            e.append([rng.choice(CLASS_REP[c]), leaf()])
        lets.append(["let", g.ident("c%d" % k), 0, ["noty"], e])
    body = ["body"] + lets + [["ret", ["expr", ["prim", ["pv", "i32", 0]]]]]
    return ["program", ["fn", g.ident("f"), ["params"], i32, body]]


def all_class_chains(maxlen):
    import itertools
    for n in range(0, maxlen + 1):
        for ch in itertools.product(CLASSES, repeat=n):
            yield list(ch)


def gen_chains_exhaustive(seed, maxlen=6, per_program=40):
    rng = random.Random(seed)
    out, cur = [], []
    for ch in all_class_chains(maxlen):
        cur.append(ch)
        if len(cur) == per_program:
            out.append((chain_program(rng, cur), {"stream": "chain", "exhaustive": maxlen}))
            cur = []
    if cur:
        out.append((chain_program(rng, cur), {"stream": "chain", "exhaustive": maxlen}))
    return out


def gen_chains_random(seed, n, maxlen=14, per_program=8):
    rng = random.Random(seed)
    out = []
    for _ in range(n):
        chains = [[rng.choice(CLASSES) for _ in range(rng.randrange(2, maxlen))] for _ in range(per_program)]
        out.append((chain_program(rng, chains), {"stream": "chain"}))
    return out


# ---------------------------------------------------------------------------------------- derived (C16, C17)
def top_names(prog, kind):
    return [str(t[1][1]) for t in prog[1:] if t[0] == kind]


def eligible_for_permutation(prog):
    """C16's hypothesis: no duplicate struct / constant / function names."""
    for k in ("struct", "const", "fn"):
        n = top_names(prog, k)
        if len(n) != len(set(n)):
            return False
    return len(prog) > 2


def permutation_of(prog, rng):
    """A permutation of the top-level statements that keeps the constants' relative order."""
    tops = prog[1:]
    idx = list(range(len(tops)))
    rng.shuffle(idx)
    shuffled = [tops[i] for i in idx]
    consts = [t for t in tops if t[0] == "const"]
    k = 0
    out = []
    for t in shuffled:
        if t[0] == "const":
            out.append(consts[k])
            k += 1
        else:
            out.append(t)
    return ["program"] + out


def all_permutations_of(prog, limit=720):
    import itertools
    tops = prog[1:]
    consts = [t for t in tops if t[0] == "const"]
    seen = 0
    for perm in itertools.permutations(range(len(tops))):
        cs = [tops[i] for i in perm if tops[i][0] == "const"]
        if cs != consts:
            continue
        yield ["program"] + [tops[i] for i in perm]
        seen += 1
        if seen >= limit:
            return


def stub_body(j):
    return ["body", ["ret", ["expr", ["name", ["id", Q("__stub_%d" % j), 9000 + j, 0]]]]]


def stub_variants(prog):
    """v_0: every function body replaced by a stub that fails with a recognisable error;
    v_i: all bodies but the i-th replaced.  Returns [(variant, keep_index or None)]."""
    fn_pos = [k for k, t in enumerate(prog) if k > 0 and t[0] == "fn"]
    out = []
    for keep in [None] + list(range(len(fn_pos))):
        v = list(prog)
        for j, k in enumerate(fn_pos):
            if keep is None or j != keep:
                t = list(prog[k])
                t[4] = stub_body(j)
                v[k] = t
        out.append((v, keep))
    return out


# ---------------------------------------------------------------------------------------- control skeletons
def _bodies(n, in_loop, memo):
    """All statement lists with exactly n nodes (kind-correct; code after a terminator is allowed:
    those programs are rejected and exercise the 'code after' rules)."""
    key = (n, in_loop)
    if key in memo:
        return memo[key]
    out = []
    if n == 0:
        out = [[]]
    else:
        for k in range(1, n + 1):
            for first in _stmts(k, in_loop, memo):
                for rest in _bodies(n - k, in_loop, memo):
                    out.append([first] + rest)
    memo[key] = out
    return out


def _stmts(n, in_loop, memo):
    """All statements with exactly n nodes."""
    key = ("s", n, in_loop)
    if key in memo:
        return memo[key]
    out = []
    if n == 1:
        out += [("call",), ("ret",)]
        if in_loop:
            out += [("break",), ("continue",)]
    if n >= 1:
        # loop {body}: 1 + |body|
        for b in _bodies(n - 1, True, memo):
            out.append(("loop", b))
        # if {body}: 1 + |body|;  if {a} else {b}: 1 + |a| + 1 + |b|;  if {a} elif {b}: same count
        for b in _bodies(n - 1, in_loop, memo):
            out.append(("if", b, None, None))
        for na in range(0, n - 1):
            nb = n - 2 - na
            if nb < 0:
                continue
            for a in _bodies(na, in_loop, memo):
                for b in _bodies(nb, in_loop, memo):
                    out.append(("if", a, b, None))
                    out.append(("if", a, None, b))
    memo[key] = out
    return out


def _skel_sexp(g, body, in_loop, flav):
    """flav: body flavour for if-bodies: 'if' or 'loop' (loop-flavoured only inside loops)."""
    i32 = ["prim", "i32"]
    lit = lambda: ["expr", ["prim", ["pv", "i32", 1]]]
    out = []
    for st in body:
        k = st[0]
        if k == "call":
            out.append(["call", g.ident("g")])
        elif k == "ret":
            out.append(["ret", lit()])
        elif k in ("break", "continue"):
            out.append([k])
        elif k == "loop":
            out.append(["loop"] + _skel_sexp(g, st[1], True, "loop"))
        else:
            def wrap(b):
                # break/continue may only sit in loop-flavoured bodies
                if in_loop:
                    return ["loopbody"] + _skel_sexp(g, b, True, "loop")
                return ["ifbody"] + _skel_sexp(g, b, False, "if")
            els = ["else", wrap(st[2])] if st[2] is not None else ["noelse"]
            elif_ = ["noelif"]
            if st[3] is not None:
                elif_ = ["elif", ["ifs", ["single", ["expr", ["name", g.ident("c")]]], wrap(st[3]), ["noelse"], ["noelif"]]]
            out.append(["if", ["ifs", ["single", ["expr", ["name", g.ident("c")]]], wrap(st[1]), els, elif_]])
    return out


def gen_skeletons(max_nodes):
    """Every control skeleton with at most max_nodes nodes as the body of f (followed by a final
    return), next to a callee g."""
    memo = {}
    out = []
    i32 = ["prim", "i32"]
    for n in range(0, max_nodes + 1):
        for body in _bodies(n, False, memo):
            g = Gen(0)
            stmts = _skel_sexp(g, body, False, "if")
            callee = ["fn", g.ident("g"), ["params"], i32, ["body", ["ret", ["expr", ["prim", ["pv", "i32", 1]]]]]]
            f = ["fn", g.ident("f"), ["params", [g.ident("c"), ["prim", "bool"]]], i32,
                 ["body"] + stmts + [["ret", ["expr", ["prim", ["pv", "i32", 2]]]]]]
            out.append((["program", callee, f], {"stream": "skeleton", "nodes": n, "exhaustive": max_nodes}))
    return out


# ---------------------------------------------------------------------------------------- name collisions (C12)
COLLIDE_POOL = ["x", "x.0", "x.1", "x.2", ".", "", "x.007", "x.+1"]


def gen_name_triples():
    """All programs with three declarations drawn from an 8-name pool, in four placements."""
    import itertools
    out = []
    i32 = ["prim", "i32"]
    lit = lambda: ["expr", ["prim", ["pv", "i32", 1]]]
    for a, b, c in itertools.product(COLLIDE_POOL, repeat=3):
        for shape in range(4):
            g = Gen(0)
            let = lambda n: ["let", g.ident(n), 0, ["noty"], lit()]
            if shape == 0:
                body, params = [let(a), let(b), let(c)], []
            elif shape == 1:
                body, params = [let(a), ["loop", let(b), ["break"]], let(c)], []
            elif shape == 2:
                body = [let(a), ["if", ["ifs", ["single", lit()], ["ifbody", let(b)], ["else", ["ifbody", let(c)]], ["noelif"]]]]
                params = []
            else:
                if a == b:
                    continue
                body, params = [let(c)], [[g.ident(a), i32], [g.ident(b), i32]]
            f = ["fn", g.ident("f"), ["params"] + params, i32, ["body"] + body + [["ret", lit()]]]
            out.append((["program", f], {"stream": "names", "exhaustive": True}))
    return out


# ---------------------------------------------------------------------------------------- type equality
def gen_typeeq():
    """Every place where two types are compared (let annotation, assignment, call argument, return,
    nested return, operands of an operation, sides of a comparison) against a list of type pairs
    that differ at the top, one level down, two levels down, or not at all: types are compared
    structurally all the way (names, attribute names, order, count, attribute types, array sizes).
    Values of the 'actual' type come from extension leaves (which may return any type)."""
    P_ = lambda x: ("p", x)
    U = lambda n, attrs: ("u", n, attrs)
    I1, I2, I3 = U("In", [("a", P_("i32"))]), U("In", [("a", P_("bool"))]), U("In", [("a", P_("i32")), ("zz", P_("u8"))])
    O1, O2, O3 = U("Out", [("inner", I1)]), U("Out", [("inner", I2)]), U("Out", [("inner", I3)])
    Q1, Q2 = U("Q", [("o", O1), ("k", P_("u8"))]), U("Q", [("o", O2), ("k", P_("u8"))])
    S1 = U("S", [("a", P_("i32")), ("b", P_("bool"))])
    pairs = [
        (P_("i32"), P_("bool")), (P_("i32"), U("i32", [])), (P_("i32"), P_("i32")),
        (S1, U("S", [("a", P_("i32"))])), (S1, U("S", [("b", P_("bool")), ("a", P_("i32"))])),
        (S1, U("S", [("a", P_("bool")), ("b", P_("bool"))])), (S1, U("T", [("a", P_("i32")), ("b", P_("bool"))])), (S1, S1),
        (O1, O2), (O1, O3), (O1, O1), (Q1, Q2), (Q1, Q1),
        (("a", P_("i32"), 2), ("a", P_("bool"), 2)), (("a", P_("i32"), 2), ("a", P_("i32"), 3)),
        (("a", I1, 2), ("a", I2, 2)), (("a", I1, 2), ("a", I1, 2)),
    ]
    out = []
    for k, (E, A) in enumerate(pairs):
        for site in ("let", "bind", "arg", "ret", "nret", "op", "cmp"):
            g = Gen(0)
            decls = []
            seen = set()

            def declare(t):
                # every struct mentioned by the EXPECTED type is declared with that definition
                if t[0] == "u":
                    for _, at in t[2]:
                        declare(at)
                    if t[1] not in seen:
                        seen.add(t[1])
                        decls.append(["struct", g.ident(t[1])] + [["attr", g.ident(a), g.ty(at)] for a, at in t[2]])
                elif t[0] == "a":
                    declare(t[1])
            declare(E)
            i32 = ["prim", "i32"]
            ext = lambda t, tag: ["expr", ["ext", g.ty(t), tag]]
            one = ["ret", ["expr", ["prim", ["pv", "i32", 1]]]]
            fns = []
            if site == "let":
                body = [["let", g.ident("x"), 0, ["ty", g.ty(E)], ext(A, 1)], one]
                fns.append(["fn", g.ident("f"), ["params"], i32, ["body"] + body])
            elif site == "bind":
                body = [["let", g.ident("y"), 1, ["noty"], ext(E, 1)], ["bind", g.ident("y"), ext(A, 2)], one]
                fns.append(["fn", g.ident("f"), ["params"], i32, ["body"] + body])
            elif site == "arg":
                fns.append(["fn", g.ident("g"), ["params", [g.ident("a"), g.ty(E)]], i32, ["body", one]])
                fns.append(["fn", g.ident("f"), ["params"], i32, ["body", ["call", g.ident("g"), ext(A, 1)], one]])
            elif site == "ret":
                fns.append(["fn", g.ident("f"), ["params"], g.ty(E), ["body", ["ret", ext(A, 1)]]])
            elif site == "nret":
                cond = ["single", ["expr", ["prim", ["pv", "bool", 1]]]]
                nested = ["if", ["ifs", cond, ["ifbody", ["ret", ext(A, 1)]], ["noelse"], ["noelif"]]]
                fns.append(["fn", g.ident("f"), ["params"], g.ty(E), ["body", nested, ["ret", ext(E, 2)]]])
            elif site == "op":
                e = ["expr", ["ext", g.ty(E), 1], ["Plus", ["ext", g.ty(A), 2]]]
                fns.append(["fn", g.ident("f"), ["params"], i32, ["body", ["let", g.ident("z"), 0, ["noty"], e], one]])
            else:
                cond = ["logic", ["lc", ext(E, 1), "Eq", ext(A, 2)]]
                fns.append(["fn", g.ident("f"), ["params"], i32,
                            ["body", ["if", ["ifs", cond, ["ifbody"], ["noelse"], ["noelif"]]], one]])
            out.append((["program"] + decls + fns, {"stream": "typeeq", "pair": k, "site": site}))
    # bare literals of another (numeric) type as initialiser / assigned value: no implicit conversion
    lits = [("u8", ("i32", 1)), ("i64", ("i32", 1)), ("i32", ("u8", 1)), ("bool", ("i32", 1)), ("f32", ("f64", 0x3FE0000000000000)),
            ("f32", ("f64", 0x7FEFFFFFFFFFFFFF)), ("f64", ("f32", 0x3F800000)), ("u64", ("i8", -1)), ("i32", ("i32", 1))]
    for k, (et, (lt, lv)) in enumerate(lits):
        for site in ("let", "bind"):
            g = Gen(0)
            one = ["ret", ["expr", ["prim", ["pv", "i32", 1]]]]
            litx = ["expr", ["prim", ["pv", lt, lv]]]
            if site == "let":
                body = [["let", g.ident("x"), 0, ["ty", ["prim", et]], litx], one]
            else:
                body = [["let", g.ident("y"), 1, ["noty"], ["expr", ["ext", ["prim", et], 1]]], ["bind", g.ident("y"), litx], one]
            out.append((["program", ["fn", g.ident("f"), ["params"], ["prim", "i32"], ["body"] + body]],
                        {"stream": "typeeq", "literal": k, "site": site}))
    return out


# ---------------------------------------------------------------------------------------- nested returns
def gen_retmix(step=1):
    """Every function with two (six construct kinds) or three (three kinds) nested returns, each
    well- or ill-typed, followed by a final well-typed return: which of several nested returns is
    checked must not depend on the others.  `step` thins the enumeration (every step-th program)."""
    import itertools
    i32 = ["prim", "i32"]
    g = Gen(0)
    tru = lambda: ["single", ["expr", ["prim", ["pv", "bool", 1]]]]
    ret = lambda ok: ["ret", ["expr", ["prim", ["pv", "i32", 7] if ok else ["pv", "bool", 1]]]]
    ifs = lambda body, els=None, elif_=None: ["if", ["ifs", tru(), body, els or ["noelse"], elif_ or ["noelif"]]]

    def construct(kind, ok):
        if kind == "A":
            return ifs(["ifbody", ret(ok)])
        if kind == "B":
            return ifs(["ifbody"], ["else", ["ifbody", ret(ok)]])
        if kind == "C":
            return ifs(["ifbody"], None, ["elif", ["ifs", tru(), ["ifbody", ret(ok)], ["noelse"], ["noelif"]]])
        if kind == "D":
            return ["loop", ifs(["loopbody", ret(ok)]), ["break"]]
        if kind == "E":
            return ["loop", ret(ok)]
        return ifs(["ifbody", ifs(["ifbody", ret(ok)])])      # F: two levels deep

    out = []
    combos = [(ks, oks) for n, kinds in ((2, "ABCDEF"), (3, "ABD"))
              for ks in itertools.product(kinds, repeat=n) for oks in itertools.product([True, False], repeat=n)]
    for k, (ks, oks) in enumerate(combos):
        if k % step:
            continue
        body = [construct(kd, ok) for kd, ok in zip(ks, oks)] + [ret(True)]
        f = ["fn", g.ident("f"), ["params"], i32, ["body"] + body]
        out.append((["program", f], {"stream": "retmix", "kinds": "".join(ks), "ok": [int(x) for x in oks]}))
    return out


# ---------------------------------------------------------------------------------------- tiny grammar (C01/C02/C14)
def gen_tiny(max_stmts=2):
    """Every function body of at most `max_stmts` statements over a small alphabet of statements and
    expressions (well- and ill-typed, declared and undeclared names), followed by `return x`."""
    import itertools
    i32 = ["prim", "i32"]
    out = []

    def exprs(g):
        one = ["prim", ["pv", "i32", 1]]
        tru = ["prim", ["pv", "bool", 1]]
        return [
            ["expr", one], ["expr", tru], ["expr", ["name", g.ident("x")]], ["expr", ["name", g.ident("y")]],
            ["expr", ["call", g.ident("g"), ["expr", one]]], ["expr", ["call", g.ident("g")]],
            ["expr", ["name", g.ident("x")], ["Plus", one]], ["expr", ["name", g.ident("x")], ["Plus", tru]],
            ["expr", ["name", g.ident("K")]],
        ]
    NE = 9
    kinds = ["let_y", "letm_y", "let_x", "bind_x", "bind_y", "call", "if", "loop_break", "ret"]
    stmts_space = [(k, e) for k in kinds for e in range(NE)]
    for n in range(0, max_stmts + 1):
        for combo in itertools.product(stmts_space, repeat=n):
            g = Gen(0)
            body = []
            for k, e in combo:
                ex = exprs(g)[e]
                if k == "let_y":
                    body.append(["let", g.ident("y"), 0, ["noty"], ex])
                elif k == "letm_y":
                    body.append(["let", g.ident("y"), 1, ["ty", i32], ex])
                elif k == "let_x":
                    body.append(["let", g.ident("x"), 1, ["noty"], ex])
                elif k == "bind_x":
                    body.append(["bind", g.ident("x"), ex])
                elif k == "bind_y":
                    body.append(["bind", g.ident("y"), ex])
                elif k == "call":
                    body.append(["call", g.ident("g"), ex])
                elif k == "if":
                    body.append(["if", ["ifs", ["single", ex], ["ifbody", ["ret", ex]], ["noelse"], ["noelif"]]])
                elif k == "loop_break":
                    body.append(["loop", ["let", g.ident("y"), 0, ["noty"], ex], ["break"]])
                else:
                    body.append(["ret", ex])
            body.append(["ret", ["expr", ["name", g.ident("x")]]])
            prog = ["program",
                    ["const", g.ident("K"), i32, ["cexpr", ["cval", ["pv", "i32", 3]]]],
                    ["fn", g.ident("g"), ["params", [g.ident("a"), i32]], i32, ["body", ["ret", ["expr", ["name", g.ident("a")]]]]],
                    ["fn", g.ident("f"), ["params", [g.ident("x"), i32]], i32, ["body"] + body]]
            out.append((prog, {"stream": "tiny", "exhaustive": max_stmts}))
    return out


# ---------------------------------------------------------------------------------------- deep / long (C13)
def gen_deep():
    """Deeply nested and very long constructs (C13's quantifier): nesting 50..200, chains of up to 500
    operators, brackets nested 100 deep, calls nested 60 deep."""
    out = []
    i32 = ["prim", "i32"]
    lit = lambda: ["expr", ["prim", ["pv", "i32", 1]]]
    for depth in (50, 120, 200):
        g = Gen(0)

        def nest(d, inloop):
            if d == 0:
                return [["let", g.ident("x"), 0, ["noty"], lit()]]
            if d % 2 == 0:
                return [["loop"] + nest(d - 1, True) + [["break"]]]
            return [["if", ["ifs", ["single", lit()], (["loopbody"] if inloop else ["ifbody"]) + nest(d - 1, inloop),
                            ["noelse"], ["noelif"]]]]
        out.append((["program", ["fn", g.ident("f"), ["params"], i32, ["body"] + nest(depth, False) + [["ret", lit()]]]],
                    {"stream": "deep", "nesting": depth}))
    for n in (100, 300, 500):
        g = Gen(n)
        chain = ["expr", ["ext", i32, 0]]
        for k in range(n):
            chain.append([g.rng.choice(OPS), ["ext", i32, k + 1]])
        out.append((["program", ["fn", g.ident("f"), ["params"], i32,
                                 ["body", ["let", g.ident("c"), 0, ["noty"], chain], ["ret", lit()]]]],
                    {"stream": "deep", "chain": n}))
    g = Gen(1)
    e = lit()
    for _ in range(100):
        e = ["expr", ["sub", e], ["Plus", ["prim", ["pv", "i32", 1]]]]
    out.append((["program", ["fn", g.ident("f"), ["params"], i32, ["body", ["ret", e]]]], {"stream": "deep", "brackets": 100}))
    g = Gen(2)
    e = lit()
    for _ in range(60):
        e = ["expr", ["call", g.ident("id"), e]]
    out.append((["program",
                 ["fn", g.ident("id"), ["params", [g.ident("a"), i32]], i32, ["body", ["ret", ["expr", ["name", g.ident("a")]]]]],
                 ["fn", g.ident("f"), ["params"], i32, ["body", ["ret", e]]]], {"stream": "deep", "calls": 60}))
    # flat chains of 100 operators of ONE priority class (the fold nests them to the left, one level each)
    for cls, ops in ((9, ["Multiply", "ShiftLeft", "ShiftRight"]), (5, ["Plus"])):
        g = Gen(20 + cls)
        chain = ["expr", ["ext", i32, 0]]
        for k in range(100):
            chain.append([ops[k % len(ops)], ["ext", i32, k + 1]])
        out.append((["program", ["fn", g.ident("f"), ["params"], i32,
                                 ["body", ["let", g.ident("c"), 0, ["noty"], chain], ["ret", ["expr", ["name", g.ident("c")]]]]]],
                    {"stream": "deep", "flat_chain": 100, "class": cls}))
    # a long FLAT else-if chain (90 arms and a final else: siblings, not nesting), each arm declaring a value
    g = Gen(3)
    cmpc = lambda k: ["logic", ["lc", ["expr", ["name", g.ident("op")]], "Eq", ["expr", ["prim", ["pv", "i32", k]]]]]
    tail = None
    for k in range(89, -1, -1):
        arm = ["ifs", cmpc(k), ["ifbody", ["let", g.ident("r"), 0, ["noty"], ["expr", ["prim", ["pv", "i32", k]]]]],
               (["else", ["ifbody", ["let", g.ident("r"), 0, ["noty"], lit()]]] if tail is None else ["noelse"]),
               (["noelif"] if tail is None else ["elif", tail])]
        tail = arm
    out.append((["program", ["fn", g.ident("dispatch"), ["params", [g.ident("op"), i32]], i32,
                             ["body", ["if", tail], ["ret", ["expr", ["name", g.ident("op")]]]]]],
                {"stream": "deep", "elif_chain": 90}))
    # a value read 80 blocks below its declaration, next to a global constant of the same name and type
    g = Gen(4)

    def nest_read(d):
        if d == 0:
            return [["ret", ["expr", ["name", g.ident("limit")]]]]
        return [["if", ["ifs", ["single", ["expr", ["prim", ["pv", "bool", 1]]]], ["ifbody"] + nest_read(d - 1), ["noelse"], ["noelif"]]]]
    out.append((["program", ["const", g.ident("limit"), i32, ["cexpr", ["cval", ["pv", "i32", 1]]]],
                 ["fn", g.ident("f"), ["params"], i32,
                  ["body", ["let", g.ident("limit"), 0, ["ty", i32], ["expr", ["prim", ["pv", "i32", 7]]]]] + nest_read(80)
                  + [["ret", ["expr", ["name", g.ident("limit")]]]]]],
                {"stream": "deep", "read_depth": 80}))
    return out


def gen_shapes2():
    """Hand-built families for shapes that rounds 15 of the seeded changes needed (the model decides
    what is expected; the programs also serve as bases of the stub / permutation streams):
    (a) two functions reading a field of a parameter, the first of the declared struct type, the
        second of a LOOKALIKE of it (same name, other attributes), in both orders: what one body
        established about a type name must not carry over to the next body;
    (b) a struct-typed name re-declared inside a nested body with a field read there, and the next
        field read of that name after the body / in a sibling body: must see the outer declaration;
    (c) a loop body that holds the very same `if` twice (equal down to the identifier positions),
        once as its last statement, with something observable in between."""
    P_ = lambda x: ("p", x)
    U = lambda n, attrs: ("u", n, attrs)
    out = []
    S1 = U("St", [("a", P_("i8")), ("b", P_("bool"))])
    looks = [U("St", [("a", P_("bool"))]), U("St", [("b", P_("bool")), ("a", P_("i8"))]), U("St", [("a", P_("i8")), ("b", P_("bool")), ("c", P_("u8"))]), S1]
    for k, L in enumerate(looks):
        for order in (0, 1):
            g = Gen(0)
            decl = ["struct", g.ident("St")] + [["attr", g.ident(a), g.ty(at)] for a, at in S1[2]]
            f1 = ["fn", g.ident("first"), ["params", [g.ident("p"), g.ty(S1)]], ["prim", "i8"],
                  ["body", ["ret", ["expr", ["field", g.ident("p"), g.ident("a")]]]]]
            ta = dict(L[2])["a"]
            f2 = ["fn", g.ident("second"), ["params", [g.ident("q"), g.ty(L)]], g.ty(ta),
                  ["body", ["ret", ["expr", ["field", g.ident("q"), g.ident("a")]]]]]
            fns = [f1, f2] if order == 0 else [f2, f1]
            out.append((["program", decl] + fns, {"stream": "shapes", "family": "lookalike-field", "pair": k, "order": order}))
    for k, (where, after) in enumerate([("if", "after"), ("loop", "after"), ("if", "else"), ("else", "after"), ("if", "elif")]):
        g = Gen(0)
        S = U("S", [("a", P_("u64")), ("b", P_("u64"))])
        decl = ["struct", g.ident("S")] + [["attr", g.ident(a), g.ty(at)] for a, at in S[2]]
        inner = [["let", g.ident("p"), 0, ["noty"], ["expr", ["ext", g.ty(S), 1]]],
                 ["let", g.ident("q"), 0, ["noty"], ["expr", ["field", g.ident("p"), g.ident("b")]]]]
        readp = lambda nm: ["let", g.ident(nm), 0, ["noty"], ["expr", ["field", g.ident("p"), g.ident("a")]]]
        cond = ["single", ["expr", ["name", g.ident("c")]]]
        els, elif_ = ["noelse"], ["noelif"]
        if after == "else":
            els = ["else", ["ifbody", readp("r")]]
        if after == "elif":
            elif_ = ["elif", ["ifs", ["single", ["expr", ["name", g.ident("c")]]], ["ifbody", readp("r")], ["noelse"], ["noelif"]]]
        if where == "if":
            st = ["if", ["ifs", cond, ["ifbody"] + inner, els, elif_]]
        elif where == "else":
            st = ["if", ["ifs", cond, ["ifbody"], ["else", ["ifbody"] + inner], ["noelif"]]]
        else:
            st = ["loop"] + inner + [["break"]]
        body = [st, ["ret", ["expr", ["field", g.ident("p"), g.ident("a")]]]]
        f = ["fn", g.ident("f"), ["params", [g.ident("p"), g.ty(S)], [g.ident("c"), ["prim", "bool"]]], ["prim", "u64"], ["body"] + body]
        out.append((["program", decl, f], {"stream": "shapes", "family": "field-after-block", "k": k}))
    for k, (inner_stmt, between) in enumerate([("break", "call"), ("break", "let"), ("continue", "call"), ("let", "call"), ("ret", "let")]):
        g = Gen(0)
        step = ["fn", g.ident("step"), ["params"], ["prim", "i32"], ["body", ["ret", ["expr", ["prim", ["pv", "i32", 1]]]]]]
        ib = {"break": [["break"]], "continue": [["continue"]], "let": [["let", g.ident("t"), 0, ["noty"], ["expr", ["prim", ["pv", "i32", 3]]]]],
              "ret": [["ret", ["expr", ["prim", ["pv", "i32", 7]]]]]}[inner_stmt]
        cond = ["single", ["expr", ["name", g.ident("c")]]]
        same_if = ["if", ["ifs", cond, (["loopbody"] if inner_stmt in ("break", "continue") else ["ifbody"]) + ib, ["noelse"], ["noelif"]]]
        mid = (["call", g.ident("step")] if between == "call" else
               ["let", g.ident("m"), 0, ["noty"], ["expr", ["prim", ["pv", "i32", 5]]]])
        # the SAME tree object twice: equal down to the positions of its identifiers
        if inner_stmt == "break":
            loop = ["loop", same_if, mid, same_if]
        else:
            exit_if = ["if", ["ifs", ["single", ["expr", ["name", g.ident("d")]]], ["loopbody", ["break"]], ["noelse"], ["noelif"]]]
            loop = ["loop", same_if, mid, exit_if, same_if]
        f = ["fn", g.ident("poll"), ["params", [g.ident("c"), ["prim", "bool"]], [g.ident("d"), ["prim", "bool"]]], ["prim", "i32"],
             ["body", loop, ["ret", ["expr", ["prim", ["pv", "i32", 1]]]]]]
        out.append((["program", step, f], {"stream": "shapes", "family": "same-if-twice", "k": k}))
    # (d) calls whose (function name, argument types / position) keys collide when glued together
    #     without a separator: a valid call in one body, the colliding ill-typed one in another
    lit = lambda t, v: ["expr", ["prim", ["pv", t, v]]]
    one = ["ret", lit("i32", 1)]
    for k in range(2):
        g = Gen(0)
        if k == 0:
            fa = ["fn", g.ident("conv"), ["params", [g.ident("a"), ["prim", "i8"]], [g.ident("b"), ["prim", "i16"]]], ["prim", "i32"], ["body", one]]
            fb = ["fn", g.ident("convi8"), ["params", [g.ident("a"), ["prim", "i32"]]], ["prim", "i32"], ["body", one]]
            good = ["call", g.ident("conv"), lit("i8", 1), lit("i16", 2)]
            bad = ["call", g.ident("convi8"), lit("i16", 2)]
        else:
            ps = [[g.ident("p%d" % i), ["prim", "i32"]] for i in range(11)]
            fa = ["fn", g.ident("f"), ["params"] + ps, ["prim", "i32"], ["body", one]]
            fb = ["fn", g.ident("f1"), ["params", [g.ident("a"), ["prim", "u8"]]], ["prim", "i32"], ["body", one]]
            good = ["call", g.ident("f1"), lit("u8", 4)]
            bad = ["call", g.ident("f")] + [lit("i32", i) for i in range(10)] + [lit("u8", 4)]
        first = ["fn", g.ident("first"), ["params"], ["prim", "i32"], ["body", good, one]]
        user = ["fn", g.ident("user"), ["params"], ["prim", "i32"], ["body", bad, one]]
        for order in (0, 1):
            fns = [fa, fb, first, user] if order == 0 else [fa, fb, user, first]
            out.append((["program"] + fns, {"stream": "shapes", "family": "call-key-collision", "k": k, "order": order}))
    # (e) a bare global constant returned from a nested block in two functions with different result
    #     types (the second one is ill-typed there), both orders; (f) a loop with a loop-level return
    #     AND a break as the last statement of a then-body that has an else / else-if part
    for order in (0, 1):
        g = Gen(0)
        cst = ["const", g.ident("LIMIT"), ["prim", "i32"], ["cexpr", ["cval", ["pv", "i32", 7]]]]
        retc = lambda: ["ret", ["expr", ["name", g.ident("LIMIT")]]]
        first = ["fn", g.ident("first"), ["params", [g.ident("c"), ["prim", "bool"]]], ["prim", "i32"],
                 ["body", ["if", ["ifs", ["single", ["expr", ["name", g.ident("c")]]], ["ifbody", retc()], ["noelse"], ["noelif"]]], ["ret", lit("i32", 0)]]]
        second = ["fn", g.ident("second"), ["params"], ["prim", "bool"], ["body", ["loop", retc()], ["ret", lit("bool", 1)]]]
        fns = [first, second] if order == 0 else [second, first]
        out.append((["program", cst] + fns, {"stream": "shapes", "family": "nested-return-of-constant", "order": order}))
    for k in range(3):
        g = Gen(0)
        nm = lambda n: ["single", ["expr", ["name", g.ident(n)]]]
        lp = ["loop", ["if", ["ifs", nm("d"), ["loopbody", ["break"]], ["noelse"], ["noelif"]]], ["ret", lit("i8", 1)]]
        other = ["let", g.ident("y"), 0, ["noty"], lit("i8", 7)]
        if k == 0:
            st = ["if", ["ifs", nm("c"), ["ifbody", lp], ["else", ["ifbody", other]], ["noelif"]]]
        elif k == 1:
            st = ["if", ["ifs", nm("c"), ["ifbody", lp], ["noelse"], ["elif", ["ifs", nm("d"), ["ifbody", other], ["noelse"], ["noelif"]]]]]
        else:
            st = ["if", ["ifs", nm("c"), ["ifbody", other], ["else", ["ifbody", lp]], ["noelif"]]]
        f = ["fn", g.ident("fn1"), ["params", [g.ident("c"), ["prim", "bool"]], [g.ident("d"), ["prim", "bool"]]], ["prim", "i8"],
             ["body", st, ["let", g.ident("z"), 0, ["noty"], lit("i8", 3)], ["ret", lit("i8", 2)]]]
        out.append((["program", f], {"stream": "shapes", "family": "returning-breaking-loop-closes-then-body", "k": k}))
    return out


def gen_data():
    """Data-dependent corners (round 16 of the seeded changes): every binary operator against the
    literals 0 and 1 (and false / true over bool), the literal on the right and on the left, of the
    operand's own type (well-formed: nothing may be simplified away, renumbered or re-bracketed) and
    of ANOTHER integer type (ill-formed: no operator, no literal value excuses a type mismatch);
    each followed by a second operation so that register numbering after it is observed; ordering
    comparisons in conditions over every primitive type (all are allowed); a bare literal `false`
    / `true` as an if condition with an else holding a nested if; names that collide when keys
    are built by concatenation (type `Cfg.hi` + attribute `max` against type `Cfg` + attribute
    `hi.max`; value `p.hi` against value `p`)."""
    out = []
    one = lambda g: ["ret", ["expr", ["prim", ["pv", "i32", 1]]]]
    for op in OPS:
        for ty, lits, other in (("i32", (0, 1), "u64"), ("bool", (0, 1), None), ("f64", (0, 0x3FF0000000000000), None)):
            for lit in lits:
                for variant in ("right", "left", "right-other", "head-chain"):
                    if variant == "right-other" and other is None:
                        continue
                    g = Gen(0)
                    a = lambda: ["name", g.ident("a")]
                    l = ["prim", ["pv", other if variant == "right-other" else ty, lit]]
                    if variant in ("right", "right-other"):
                        e = ["expr", a(), [op, l]]
                    elif variant == "left":
                        e = ["expr", l, [op, a()]]
                    else:
                        # the literal heads a chain of two operators of different priority classes
                        e = ["expr", l, [op, a()], ["Multiply" if op != "Multiply" else "Plus", a()]]
                    body = [["let", g.ident("b"), 0, ["noty"], e],
                            ["let", g.ident("c"), 0, ["noty"], ["expr", a(), ["Plus", a()]]], one(g)]
                    f = ["fn", g.ident("f"), ["params", [g.ident("a"), ["prim", ty]]], ["prim", "i32"], ["body"] + body]
                    out.append((["program", f], {"stream": "data", "family": "op-literal", "op": op, "ty": ty, "lit": lit, "variant": variant}))
    for ty in PRIMS:
        for c in CMPS:
            g = Gen(0)
            cond = ["logic", ["lc", ["expr", ["name", g.ident("open")]], c, ["expr", ["name", g.ident("armed")]]]]
            body = [["if", ["ifs", cond, ["ifbody", ["ret", ["expr", ["prim", ["pv", "i32", 1]]]]], ["noelse"], ["noelif"]]], one(g)]
            f = ["fn", g.ident("gate"), ["params", [g.ident("open"), ["prim", ty]], [g.ident("armed"), ["prim", ty]]], ["prim", "i32"], ["body"] + body]
            out.append((["program", f], {"stream": "data", "family": "cmp-type", "ty": ty, "cmp": c}))
    for lit in (0, 1):
        for where in ("fn", "loop"):
            for shape in ("else-if", "if-if", "elif-else-if"):
                g = Gen(0)
                lt = lambda: ["single", ["expr", ["prim", ["pv", "bool", lit]]]]
                let = lambda n: ["let", g.ident(n), 0, ["noty"], ["expr", ["prim", ["pv", "bool", 1]]]]
                nested = lambda n: ["if", ["ifs", ["single", ["expr", ["prim", ["pv", "bool", 1]]]], ["ifbody", let(n)], ["noelse"], ["noelif"]]]
                if shape == "else-if":
                    st = ["if", ["ifs", lt(), ["ifbody", let("x")], ["else", ["ifbody", nested("y")]], ["noelif"]]]
                elif shape == "if-if":
                    st = ["if", ["ifs", lt(), ["ifbody", nested("y")], ["noelse"], ["noelif"]]]
                else:
                    inner = ["ifs", lt(), ["ifbody", let("x")], ["else", ["ifbody", nested("y")]], ["noelif"]]
                    st = ["if", ["ifs", ["single", ["expr", ["name", g.ident("c")]]], ["ifbody"], ["noelse"], ["elif", inner]]]
                body = [st] if where == "fn" else [["loop", st, ["break"]]]
                f = ["fn", g.ident("f"), ["params", [g.ident("c"), ["prim", "bool"]]], ["prim", "i32"], ["body"] + body + [one(g)]]
                out.append((["program", f], {"stream": "data", "family": "literal-condition", "lit": lit, "where": where, "shape": shape}))
    # odd spellings of a value name (round 17: `_` treated as a discard placeholder): the same two
    # programs for every spelling; a name is just a string
    lit = lambda t, v: ["expr", ["prim", ["pv", t, v]]]
    for sp in ["_", "__", "_x", "self", "if_begin", "loop_end.0", "x.0", "0", "", "fn", "true", "u8"]:
        g = Gen(0)
        nm = lambda: ["expr", ["name", g.ident(sp)]]
        inner = ["if", ["ifs", ["single", ["expr", ["name", g.ident("c")]]],
                        ["ifbody", ["let", g.ident(sp), 0, ["noty"], lit("u64", 7)], ["bind", g.ident("m"), nm()]], ["noelse"], ["noelif"]]]
        body = [["let", g.ident(sp), 0, ["noty"], lit("u64", 5)], ["let", g.ident("m"), 1, ["noty"], nm()], inner, ["ret", nm()]]
        f = ["fn", g.ident("f"), ["params", [g.ident(sp), ["prim", "u64"]], [g.ident("c"), ["prim", "bool"]]], ["prim", "u64"], ["body"] + body]
        out.append((["program", f], {"stream": "data", "family": "spelling", "name": sp, "k": 0}))
        g = Gen(0)
        nm = lambda: ["expr", ["name", g.ident(sp)]]
        cst = ["const", g.ident(sp), ["prim", "u64"], ["cexpr", ["cval", ["pv", "u64", 1]]]]
        loop = ["loop", ["let", g.ident(sp), 0, ["noty"], lit("u64", 6)], ["let", g.ident("b"), 0, ["noty"], nm()], ["break"]]
        body = [["let", g.ident("a"), 0, ["noty"], nm()], ["let", g.ident(sp), 1, ["noty"], lit("u64", 5)], loop,
                ["bind", g.ident(sp), lit("u64", 9)], ["ret", nm()]]
        f = ["fn", g.ident("f"), ["params"], ["prim", "u64"], ["body"] + body]
        out.append((["program", cst, f], {"stream": "data", "family": "spelling", "name": sp, "k": 1}))
    # a struct declared under a primitive's spelling: a field read on a value of the PRIMITIVE is
    # still a read on a non-struct; on a value of the struct it is fine
    for pt, v in (("bool", 1), ("u8", 3), ("i32", 3), ("char", 65), ("f64", 0)):
        for k in range(2):
            g = Gen(0)
            st = ("u", pt, [("flag", ("p", pt))])
            decl = ["struct", g.ident(pt), ["attr", g.ident("flag"), ["prim", pt]]]
            if k == 0:
                body = [["let", g.ident("x"), 0, ["noty"], lit(pt, v)], ["ret", ["expr", ["field", g.ident("x"), g.ident("flag")]]]]
                f = ["fn", g.ident("f"), ["params"], ["prim", pt], ["body"] + body]
            else:
                body = [["let", g.ident("x"), 0, ["ty", ["prim", pt]], lit(pt, v)], ["ret", ["expr", ["field", g.ident("p"), g.ident("flag")]]]]
                f = ["fn", g.ident("f"), ["params", [g.ident("p"), g.ty(st)]], ["prim", pt], ["body"] + body]
            out.append((["program", decl, f], {"stream": "data", "family": "struct-named-like-primitive", "ty": pt, "k": k}))
    # equal extension leaves (same type, same tag) evaluated back to back: as the two operands of an
    # operator, as neighbouring arguments, as the two sides of a comparison; at depth 0, 1 and 2
    for depth in (0, 1, 2):
        for site in ("op", "args", "cmp"):
            g = Gen(0)
            e = lambda: ["ext", ["prim", "i32"], 7]
            two = ["fn", g.ident("two"), ["params", [g.ident("a"), ["prim", "i32"]], [g.ident("b"), ["prim", "i32"]]], ["prim", "i32"],
                   ["body", ["ret", lit("i32", 1)]]]
            if site == "op":
                st = ["let", g.ident("s"), 0, ["noty"], ["expr", e(), ["Plus", e()]]]
            elif site == "args":
                st = ["call", g.ident("two"), ["expr", e()], ["expr", e()]]
            else:
                st = ["if", ["ifs", ["logic", ["lc", ["expr", e()], "Eq", ["expr", e()]]], ["ifbody"], ["noelse"], ["noelif"]]]
            for _ in range(depth):
                st = ["loop", st, ["break"]] if _ % 2 else ["if", ["ifs", ["single", lit("bool", 1)], ["ifbody", st], ["noelse"], ["noelif"]]]
            f = ["fn", g.ident("f"), ["params"], ["prim", "i32"], ["body", st, ["ret", lit("i32", 1)]]]
            out.append((["program", two, f], {"stream": "data", "family": "equal-ext-leaves", "depth": depth, "site": site}))
    # one name in every namespace at once (round 18: constants and functions looked up in one table):
    # a struct, a constant, a function, its parameter and a local all called N; constant before and
    # after the function
    for nm_ in ("N", "f", "x.0"):
        for order in (0, 1):
            g = Gen(0)
            st = ["struct", g.ident(nm_), ["attr", g.ident(nm_), ["prim", "u8"]]]
            cst = ["const", g.ident(nm_), ["prim", "u8"], ["cexpr", ["cval", ["pv", "u8", 1]]]]
            fn_ = ["fn", g.ident(nm_), ["params", [g.ident(nm_), ["prim", "u8"]]], ["prim", "u8"],
                   ["body", ["let", g.ident("b"), 0, ["noty"], ["expr", ["name", g.ident(nm_)]]], ["ret", ["expr", ["name", g.ident("b")]]]]]
            caller = ["fn", g.ident("caller"), ["params"], ["prim", "u8"],
                      ["body", ["ret", ["expr", ["call", g.ident(nm_), ["expr", ["name", g.ident(nm_)]]]]]]]
            tops = [st, cst, fn_, caller] if order == 0 else [fn_, caller, cst, st]
            out.append((["program"] + tops, {"stream": "data", "family": "one-name-everywhere", "name": nm_, "order": order}))
    # no function-level return, but returns nested in the blocks before / inside a closing loop or if
    for k in range(6):
        g = Gen(0)
        c = lambda: ["single", ["expr", ["name", g.ident("c")]]]
        r1 = lambda v: ["ret", lit("i8", v)]
        ifret = ["if", ["ifs", c(), ["ifbody", r1(10)], ["noelse"], ["noelif"]]]
        body = [
            [ifret, ["loop", ["let", g.ident("k"), 0, ["noty"], lit("i8", 1)], ["break"]]],
            [["loop", ["if", ["ifs", c(), ["ifbody", r1(1)], ["noelse"], ["noelif"]]], ["break"]]],
            [["if", ["ifs", c(), ["ifbody", r1(1)], ["else", ["ifbody", r1(2)]], ["noelif"]]]],
            [["loop", r1(1)]],
            [ifret, ["if", ["ifs", c(), ["ifbody", ["let", g.ident("k"), 0, ["noty"], lit("i8", 1)]], ["noelse"], ["noelif"]]]],
            [["loop", ["loop", r1(1)], ["break"]], ["loop", ["break"]]],
        ][k]
        f = ["fn", g.ident("f"), ["params", [g.ident("c"), ["prim", "bool"]]], ["prim", "i8"], ["body"] + body]
        out.append((["program", f], {"stream": "data", "family": "nested-returns-only", "k": k}))
    # concatenated keys
    U = lambda n, attrs: ("u", n, attrs)
    P_ = lambda x: ("p", x)
    for k in range(3):
        g = Gen(0)
        Cfg = U("Cfg", [("lo", P_("u8")), ("hi.max", P_("u8"))])
        CfgHi = U("Cfg.hi", [("max", P_("u8")), ("min", P_("u8"))])
        decls = [["struct", g.ident(t[1])] + [["attr", g.ident(a), g.ty(at)] for a, at in t[2]] for t in (Cfg, CfgHi)]
        fld = lambda v, a: ["expr", ["field", g.ident(v), g.ident(a)]]
        if k == 0:
            params = [[g.ident("p"), g.ty(Cfg)], [g.ident("q"), g.ty(CfgHi)]]
            body = [["let", g.ident("a"), 0, ["noty"], fld("q", "max")], ["ret", fld("p", "hi.max")]]
        elif k == 1:
            params = [[g.ident("p"), g.ty(Cfg)], [g.ident("q"), g.ty(CfgHi)]]
            body = [["let", g.ident("a"), 0, ["noty"], fld("p", "hi.max")], ["ret", fld("q", "min")]]
        else:
            params = [[g.ident("p"), g.ty(Cfg)], [g.ident("p.hi"), g.ty(CfgHi)]]
            body = [["let", g.ident("a"), 0, ["noty"], fld("p.hi", "max")], ["ret", fld("p", "hi.max")]]
        f = ["fn", g.ident("pick"), ["params"] + params, ["prim", "u8"], ["body"] + body]
        out.append((["program"] + decls + [f], {"stream": "data", "family": "concatenated-keys", "k": k}))
    return out


def gen_wide():
    """Wide rather than deep (limits on counts show up here): 70 parameters and arguments, 70 functions
    calling each other, 300 shadowing lets in one block, a struct with 70 attributes, a 300-character
    identifier, 70 constants chained."""
    out = []
    i32 = ["prim", "i32"]
    L = lambda k=1: ["prim", ["pv", "i32", k]]
    # 1. 70 parameters, all read; a call with 70 arguments
    g = Gen(10)
    ps = ["p%d" % k for k in range(70)]
    summ = ["expr", ["name", g.ident(ps[0])]] + [["Plus", ["name", g.ident(q)]] for q in ps[1:]]
    out.append((["program",
                 ["fn", g.ident("wide"), ["params"] + [[g.ident(q), i32] for q in ps], i32, ["body", ["ret", summ]]],
                 ["fn", g.ident("f"), ["params"], i32,
                  ["body", ["ret", ["expr", ["call", g.ident("wide")] + [["expr", L(k)] for k in range(70)]]]]]],
                {"stream": "wide", "params": 70}))
    # 2. 70 functions, each calling the previous one
    g = Gen(11)
    fns = [["fn", g.ident("f0"), ["params", [g.ident("a"), i32]], i32, ["body", ["ret", ["expr", ["name", g.ident("a")]]]]]]
    for k in range(1, 70):
        fns.append(["fn", g.ident("f%d" % k), ["params", [g.ident("a"), i32]], i32,
                    ["body", ["ret", ["expr", ["call", g.ident("f%d" % (k - 1)), ["expr", ["name", g.ident("a")], ["Plus", L(k)]]]]]]])
    out.append((["program"] + fns, {"stream": "wide", "functions": 70}))
    # 3. 300 shadowing lets in one block
    g = Gen(12)
    body = [["let", g.ident("x"), 0, ["noty"], ["expr", L(0)]]]
    for k in range(1, 300):
        body.append(["let", g.ident("x"), 0, ["noty"], ["expr", ["name", g.ident("x")], ["Plus", L(k % 7)]]])
    out.append((["program", ["fn", g.ident("f"), ["params"], i32, ["body"] + body + [["ret", ["expr", ["name", g.ident("x")]]]]]],
                {"stream": "wide", "lets": 300}))
    # 4. a struct with 70 attributes
    g = Gen(13)
    attrs = [("a%d" % k, i32) for k in range(70)]
    sty = lambda: ["struct", g.ident("Big")] + [["attr", g.ident(a), t] for a, t in attrs]
    out.append((["program", ["struct", g.ident("Big")] + [["attr", g.ident(a), t] for a, t in attrs],
                 ["fn", g.ident("f"), ["params", [g.ident("b"), sty()]], i32,
                  ["body", ["let", g.ident("u"), 0, ["ty", i32], ["expr", ["field", g.ident("b"), g.ident("a69")]]],
                   ["ret", ["expr", ["field", g.ident("b"), g.ident("a0")]]]]]],
                {"stream": "wide", "attributes": 70}))
    # 5. a 300-character identifier
    g = Gen(14)
    long = "v" + "_long" * 60
    out.append((["program", ["fn", g.ident("f"), ["params", [g.ident(long), i32]], i32,
                             ["body", ["let", g.ident(long), 0, ["noty"], ["expr", ["name", g.ident(long)], ["Plus", L()]]],
                              ["ret", ["expr", ["name", g.ident(long)]]]]]],
                {"stream": "wide", "identifier": len(long)}))
    # 6. 70 constants, each built from the previous one
    g = Gen(15)
    cs = [["const", g.ident("c0"), i32, ["cexpr", ["cval", ["pv", "i32", 1]]]]]
    for k in range(1, 70):
        cs.append(["const", g.ident("c%d" % k), i32, ["cexpr", ["cval", ["pv", "i32", 1]], ["Plus", ["cconst", g.ident("c%d" % (k - 1))]]]])
    out.append((["program"] + cs + [["fn", g.ident("f"), ["params"], i32, ["body", ["ret", ["expr", ["name", g.ident("c69")]]]]]],
                {"stream": "wide", "constants": 70}))
    return out


def generate(seed, n_wf, n_fault, n_free, n_known=0):
    """Deterministic batch: list of (program, meta)."""
    out = []
    base = random.Random(seed)
    for _ in range(n_wf):
        out.append(gen_wf(base.randrange(1 << 48)))
    for i in range(n_fault):
        out.append(gen_fault(base.randrange(1 << 48), RULES[i % len(RULES)], i // len(RULES)))
    for _ in range(n_free):
        out.append(gen_free(base.randrange(1 << 48)))
    for _ in range(n_fault):
        out.append(gen_multi_fault(base.randrange(1 << 48), 2 + (_ % 2)))
    for _ in range(n_known):
        out.append(gen_known(base.randrange(1 << 48)))
    return out


if __name__ == "__main__":
    import sys
    from sexp import ser
    seed = int(sys.argv[1]) if len(sys.argv) > 1 else 0
    n = int(sys.argv[2]) if len(sys.argv) > 2 else 10
    for p, m in generate(seed, n, n, n, 3):
        print(ser(p))
