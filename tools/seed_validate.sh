#!/bin/sh
# tools/seed_validate.sh <dir with patch.diff and zz_demo.rs>
# Confirms in a scratch worktree that the change compiles, keeps the existing suite green,
# and that the demonstration fails with the change and passes without it.
D=$(readlink -f "$1")
W=/tmp/seedval.$$
git -C /repo worktree add -q --detach $W HEAD || exit 2
trap 'git -C /repo worktree remove --force '$W' 2>/dev/null; rm -rf '$W EXIT INT TERM
cd $W
export CARGO_NET_OFFLINE=true
cp $D/zz_demo.rs tests/zz_demo.rs
base=$(cargo test --offline --test zz_demo 2>&1 | grep -E "^test result" | head -1)
git apply $D/patch.diff || { echo "patch does not apply"; exit 2; }
mut=$(cargo test --offline --test zz_demo 2>&1 | grep -E "^test result" | head -1)
rm tests/zz_demo.rs
suite=$(cargo test --offline 2>&1 | grep -E "^test result" | awk '{p+=$4; f+=$6} END {print "passed",p,"failed",f}')
echo "demo without change: $base"
echo "demo with change:    $mut"
echo "existing suite with change: $suite"
