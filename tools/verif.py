"""Shared machinery of the per-property checks (DESIGN.md §9).

build -> proof status of the property -> tie (translator, lints, correspondence through the
property's projection) -> monitors on the implementation's output -> verdict -> evidence.
"""
import hashlib
import json
import os
import re
import subprocess
import sys
import time
from concurrent.futures import ThreadPoolExecutor

ROOT = os.path.normpath(os.path.join(os.path.dirname(os.path.abspath(__file__)), ".."))
REPO = os.environ.get("VERIF_REPO", "/repo")
CACHE = os.path.join(ROOT, ".cache")
COQ = os.path.join(ROOT, "coq")
sys.path.insert(0, os.path.join(ROOT, "tools"))

import gen  # noqa: E402
import props  # noqa: E402
from compare import eq_tree, first_difference  # noqa: E402
from sexp import parse, ser  # noqa: E402

HARNESS = os.path.join(ROOT, "harness", "target", "debug", "verif-harness")
MODEL = os.path.join(ROOT, "ocaml", "verif-model")
FORBIDDEN = re.compile(
    r"\b(Admitted|admit|Axiom|Axioms|Parameter|Parameters|Conjecture|Hypothesis|Variable|Abort)\b"
    r"|Unset\s+Guard|bypass_check|type-in-type|impredicative-set|Admit\s+Obligations|Unset\s+Universe"
    r"|Unset\s+Positivity")
THEOREM = re.compile(r"^\s*(Lemma|Theorem|Corollary|Example|Fact|Remark|Proposition)\s+([A-Za-z0-9_']+)", re.M)
# axioms of the standard library that a proof is allowed to depend on (each is named in evidence)
ALLOWED_AXIOMS = set()


def log(msg):
    sys.stderr.write("[verif] " + msg + "\n")
    sys.stderr.flush()


def sh(cmd, timeout=3600, cwd=None, env=None):
    e = dict(os.environ)
    e["CARGO_NET_OFFLINE"] = "true"
    if env:
        e.update(env)
    p = subprocess.run(cmd, shell=isinstance(cmd, str), cwd=cwd, env=e, timeout=timeout,
                       stdout=subprocess.PIPE, stderr=subprocess.STDOUT, text=True,
                       preexec_fn=_unlimit_stack)
    return p.returncode, p.stdout


def _unlimit_stack():
    import resource
    try:
        resource.setrlimit(resource.RLIMIT_STACK, (resource.RLIM_INFINITY, resource.RLIM_INFINITY))
    except (ValueError, OSError):
        pass


def sha_files(paths):
    h = hashlib.sha1()
    for p in sorted(paths):
        try:
            with open(p, "rb") as f:
                h.update(p.encode() + b"\0" + f.read() + b"\0")
        except OSError:
            h.update(p.encode() + b"\0<missing>\0")
    return h.hexdigest()


def files_under(d, exts):
    out = []
    for base, dirs, files in os.walk(d):
        dirs[:] = [x for x in dirs if x not in ("target", ".git", ".cache", "__pycache__")]
        for f in files:
            if f.endswith(exts):
                out.append(os.path.join(base, f))
    return out


def repo_hash():
    return sha_files(files_under(os.path.join(REPO, "src"), (".rs",)) + [os.path.join(REPO, "Cargo.toml")])


def tool_hash():
    fs = files_under(COQ, (".v",)) + files_under(os.path.join(ROOT, "ocaml"), ("driver.ml", "main.ml", "monitors_glue.ml"))
    fs += files_under(os.path.join(ROOT, "tools"), (".py", ".sh")) + files_under(os.path.join(ROOT, "harness", "src"), (".rs",))
    fs += files_under(os.path.join(ROOT, "corpus"), (".sexp",))
    return sha_files(fs)


# ------------------------------------------------------------------------------------------------
# build

def build():
    """Translator + Coq + extraction + OCaml driver + Rust harness.  Returns a dict of statuses;
    never raises: a failing component is reported so that the check can say what no longer checks."""
    os.makedirs(CACHE, exist_ok=True)
    st = {}
    t0 = time.time()
    rc, out = sh("python3 %s/tools/gen_from_src.py" % ROOT, 120)
    st["translator"] = {"ok": rc == 0, "log": out.strip()[-2000:]}
    rc, out = sh("if [ ! -f Makefile ] || [ _CoqProject -nt Makefile ]; then coq_makefile -f _CoqProject -o Makefile >/dev/null; fi; "
                 "timeout 3000 make -k -j%s 2>&1 | tail -60" % os.environ.get("VERIF_JOBS", "16"), 3100, cwd=COQ)
    failed = re.findall(r"\*\*\* \[Makefile[^\]]*: ([^\]]+\.vo)\] Error", out)
    st["coq"] = {"ok": not failed and "Error" not in out, "failed": failed, "log": out[-4000:]}
    rc, out = sh("%s/tools/build.sh ocaml 2>&1 | tail -30; exit ${PIPESTATUS:-0}" % ROOT, 1800)
    st["ocaml"] = {"ok": os.path.exists(MODEL) and not re.search(r"^(Error|File )|rror:", out, re.M), "log": out[-3000:]}
    rc, out = sh("%s/tools/build.sh harness 2>&1 | tail -40" % ROOT, 1800)
    st["harness"] = {"ok": rc == 0 and os.path.exists(HARNESS), "log": out[-3000:]}
    st["wall_s"] = round(time.time() - t0, 2)
    return st


# ------------------------------------------------------------------------------------------------
# proof status of one property

def requires_of(vfile):
    """SA.* modules a .v file requires, as paths relative to coq/."""
    try:
        src = open(vfile).read()
    except OSError:
        return []
    out = []
    for m in re.finditer(r"From\s+(SA[A-Za-z0-9_.]*)\s+Require\s+(?:Import|Export)?\s*([^.]*)\.", src):
        prefix = m.group(1).split(".")[1:]
        for name in m.group(2).split():
            parts = prefix + name.split(".")
            cand = os.path.join(COQ, *parts) + ".v"
            if os.path.exists(cand):
                out.append(cand)
    return out


def cone_of(vfile):
    seen, todo = [], [vfile]
    while todo:
        f = todo.pop()
        if f in seen:
            continue
        seen.append(f)
        todo.extend(requires_of(f))
    return seen


def proof_status(prop):
    """Re-checks Properties/<prop>.v against the built development and reads Print Assumptions."""
    vfile = os.path.join(COQ, "Properties", prop + ".v")
    res = {"file": vfile, "ok": False, "axioms": [], "problems": []}
    if not os.path.exists(vfile):
        res["problems"].append("no theorem file for %s" % prop)
        return res
    cone = cone_of(vfile)
    res["cone"] = [os.path.relpath(f, COQ) for f in cone]
    obligations, discharged, names = 0, 0, []
    for f in cone:
        src = open(f).read()
        src_nc = re.sub(r"\(\*.*?\*\)", "", src, flags=re.S)
        ths = THEOREM.findall(src_nc)
        obligations += len(ths)
        vo = f[:-2] + ".vo"
        fresh = os.path.exists(vo) and os.path.getmtime(vo) >= os.path.getmtime(f)
        if fresh or f == vfile:
            discharged += len(ths)
        else:
            res["problems"].append("not compiled: %s" % os.path.relpath(f, COQ))
        names += [n for _, n in ths] if f == vfile else []
        bad = FORBIDDEN.findall(src_nc)
        bad = [b for b in (x if isinstance(x, str) else x[0] for x in bad) if b]
        # Variable/Hypothesis are legal inside sections; flag them only at top level
        if bad:
            bad2 = _toplevel_forbidden(src_nc)
            if bad2:
                res["problems"].append("forbidden construct in %s: %s" % (os.path.relpath(f, COQ), ", ".join(sorted(set(bad2)))))
    res["theorems"] = names
    out_vo = os.path.join(CACHE, "props", prop + ".vo")
    os.makedirs(os.path.dirname(out_vo), exist_ok=True)
    cmd = "timeout 900 coqc -q -Q . SA Properties/%s.v -o %s" % (prop, out_vo)
    rc, out = sh(cmd, 1000, cwd=COQ)
    res["checker_cmd"] = "cd coq && make -j16 && coqc -Q . SA Properties/%s.v" % prop
    res["coqc_rc"] = rc
    res["coqc_tail"] = out[-1500:]
    if rc != 0:
        res["problems"].append("Properties/%s.v does not check: %s" % (prop, out.strip()[-600:]))
        discharged -= len(names)
    n_closed = out.count("Closed under the global context")
    axioms = []
    for blk in re.findall(r"Axioms:\n((?:.+\n?)+?)(?:\n|$)", out):
        for line in blk.splitlines():
            m = re.match(r"^([A-Za-z0-9_.']+)\s*:", line)
            if m:
                axioms.append(m.group(1))
    res["axioms"] = sorted(set(axioms))
    res["closed"] = n_closed
    for a in res["axioms"]:
        if a not in ALLOWED_AXIOMS:
            res["problems"].append("theorem depends on axiom %s" % a)
    if rc == 0 and n_closed == 0 and not axioms:
        res["problems"].append("no Print Assumptions output in Properties/%s.v" % prop)
    res["obligations"] = obligations
    res["discharged"] = max(0, discharged)
    res["ok"] = not res["problems"] and discharged == obligations
    return res


def _toplevel_forbidden(src):
    """Forbidden constructs, ignoring Variable/Hypothesis inside Section...End."""
    bad = []
    depth = 0
    for line in src.splitlines():
        s = line.strip()
        if re.match(r"^Section\b", s):
            depth += 1
        elif re.match(r"^End\b", s) and depth > 0:
            depth -= 1
        for m in FORBIDDEN.finditer(line):
            w = m.group(0)
            if w in ("Variable", "Hypothesis") and depth > 0:
                continue
            if w in ("Variable", "Hypothesis") and re.match(r"^\s*(Context|Let)\b", line):
                continue
            bad.append(w)
    return bad


def coqchk(prop):
    """Thorough tier: independent re-check of the property's compiled file and its dependencies."""
    rc, out = sh("timeout 3000 coqchk -o -silent -Q . SA SA.Properties.%s" % prop, 3100, cwd=COQ)
    axioms = []
    m = re.search(r"\* Axioms:(.*?)\n\s*\n\* ", out + "\n\n* ", re.S)
    if m and "<none>" not in m.group(1):
        axioms = [l.strip() for l in m.group(1).splitlines() if l.strip()]
    bad = [a for a in axioms if a.split()[0] not in ALLOWED_AXIOMS]
    return {"rc": rc, "tail": out[-1500:], "axioms": axioms,
            "ok": rc == 0 and "CONTEXT SUMMARY" in out and not bad
                  and "type-in-type: <none>" in out and "positivity is assumed: <none>" in out}


# ------------------------------------------------------------------------------------------------
# pipeline: programs -> implementation / model / monitors

SIZES = {"quick": dict(flat=60, wf=150, fault=114, free=120, known=9, chains=25, chain_exh=3, perm_bases=100, perms=3, stub_bases=65, skel=2, names=False, tiny=1),
         "thorough": dict(flat=800, wf=3000, fault=1900, free=3000, known=60, chains=300, chain_exh=6, perm_bases=500, perms=4, stub_bases=400, skel=4, names=True, tiny=2),
         "search": dict(flat=250, wf=900, fault=570, free=900, known=30, chains=60, chain_exh=4, perm_bases=150, perms=3, stub_bases=120, skel=3, names=False, tiny=1)}


def corpus_programs():
    d = os.path.join(ROOT, "corpus")
    out = []
    for f in sorted(os.listdir(d)) if os.path.isdir(d) else []:
        if f.endswith(".sexp"):
            for k, line in enumerate(open(os.path.join(d, f)).read().splitlines()):
                if line.strip() and not line.startswith(";"):
                    out.append((line.strip(), {"stream": "corpus", "file": f, "line": k + 1}))
    return out


def run_side(binary, mode, inp, outp, extra=None, timeout=3000):
    cmd = [binary, mode, inp] + (extra or []) + [outp]
    try:
        p = subprocess.run(cmd, stdout=subprocess.PIPE, stderr=subprocess.STDOUT, text=True,
                           timeout=timeout, preexec_fn=_unlimit_stack)
    except subprocess.TimeoutExpired:
        return 124, "timeout after %ds" % timeout
    return p.returncode, p.stdout


def run_impl_one_by_one(progs, base):
    """A shard on which the harness crashed (abort, stack overflow) or did not finish: run its
    programs one at a time so that the culprit is identified; it gets the output `(missing ...)`."""
    outs = []
    timeouts = 0
    for k, prog in enumerate(progs):
        if timeouts >= 3:
            # an implementation that hangs: three culprits are enough for a replay, the rest of the
            # shard is not run (it is judged as not observed, like any missing output)
            outs.append("(notrun \"the implementation timed out on 3 programs of this shard\")")
            continue
        f1, f2 = base + ".one.sexp", base + ".one.impl"
        with open(f1, "w") as f:
            f.write(prog + "\n")
        rc, out = run_side(HARNESS, "run", f1, f2, timeout=30)
        if rc == 124:
            timeouts += 1
        line = ""
        if rc == 0:
            try:
                line = open(f2).read().strip()
            except OSError:
                line = ""
        outs.append(line if line else "(missing rc=%d %s)" % (rc, out.strip().replace("\n", " ")[-80:]))
    return outs


def run_programs(progs, workdir, shards=16, want_model=True, tier="quick"):
    """progs: list of program texts. Returns (impl_lines, model_lines, monitor_lines, problems)."""
    os.makedirs(workdir, exist_ok=True)
    n = len(progs)
    shards = max(1, min(shards, (n + 199) // 200))
    chunks = [progs[i::shards] for i in range(shards)]
    problems = []

    def one(k):
        base = os.path.join(workdir, "s%d" % k)
        with open(base + ".sexp", "w") as f:
            f.write("\n".join(chunks[k]) + "\n")
        rc, out = run_side(HARNESS, "run", base + ".sexp", base + ".impl", timeout=(240 if tier == "quick" else 1500))
        if rc == 3:
            return k, "harness rc=%d %s" % (rc, out[-300:])
        if rc != 0:
            # crash or timeout of the implementation on some program of this shard
            lines = run_impl_one_by_one(chunks[k], base)
            with open(base + ".impl", "w") as f:
                f.write("\n".join(lines) + "\n")
        if want_model:
            rc, out = run_side(MODEL, "run", base + ".sexp", base + ".model")
            if rc != 0:
                return k, "model rc=%d %s" % (rc, out[-300:])
            menv = dict(os.environ)
            menv["VERIF_C05_K"] = "9" if tier == "thorough" else "6"
            menv["VERIF_C05_FUEL"] = "600" if tier == "thorough" else "400"
            menv["VERIF_C05V_SALTS"] = "8" if tier == "thorough" else "4"
            menv["VERIF_C05V_NFLAT"] = "3000" if tier == "thorough" else "1200"
            menv["VERIF_C05V_NSRC"] = "600" if tier == "thorough" else "300"
            rc, out = subprocess.run([MODEL, "monitor", base + ".sexp", base + ".impl", base + ".mon"],
                                     stdout=subprocess.PIPE, stderr=subprocess.STDOUT, text=True, env=menv,
                                     timeout=3000, preexec_fn=_unlimit_stack).returncode, ""
            if rc != 0:
                return k, "monitor rc=%d" % rc
        return k, None

    with ThreadPoolExecutor(max_workers=16) as ex:
        for k, err in ex.map(one, range(shards)):
            if err:
                problems.append(err)
    impl = [None] * n
    model = [None] * n
    mon = [None] * n
    for k in range(shards):
        base = os.path.join(workdir, "s%d" % k)

        def rd(ext):
            try:
                return open(base + ext).read().splitlines()
            except OSError:
                return []
        a, b, c = rd(".impl"), rd(".model"), rd(".mon")
        for j, idx in enumerate(range(k, n, shards)):
            impl[idx] = a[j] if j < len(a) else "(missing)"
            model[idx] = b[j] if j < len(b) else "(missing)"
            mon[idx] = c[j] if j < len(c) else ""
    return impl, model, mon, problems


class Run:
    pass


def pipeline(seed, tier):
    """Generates the batch for (seed, tier), runs both sides and the monitors; cached on the
    hashes of /repo's sources and of the verification machinery."""
    key = hashlib.sha1(("%s|%s|%s|%s" % (repo_hash(), tool_hash(), seed, tier)).encode()).hexdigest()[:20]
    d = os.path.join(CACHE, "run-" + key)
    r = Run()
    r.dir, r.key, r.seed, r.tier = d, key, seed, tier
    done = os.path.join(d, "DONE.json.gz")
    sz = SIZES[tier]
    batch = corpus_programs() if tier != "search" else []
    for p, m in gen.generate(seed, sz["wf"], sz["fault"], sz["free"], sz["known"]):
        batch.append((ser(p), m))
    for p, m in gen.gen_chains_random(seed + 1, sz["chains"]) + gen.gen_chains_exhaustive(seed + 2, sz["chain_exh"]):
        batch.append((ser(p), m))
    for p, m in gen.gen_skeletons(sz["skel"]) + (gen.gen_name_triples() if sz["names"] else []) + gen.gen_tiny(sz["tiny"]) \
            + gen.gen_retmix({"quick": 6, "search": 2}.get(tier, 1)) + gen.gen_typeeq() + gen.gen_wide() + gen.gen_shapes2() + gen.gen_data() \
            + (gen.gen_deep() if tier == "thorough" else gen.gen_deep()[:1] + gen.gen_deep()[3:4] + gen.gen_deep()[-4:]):
        batch.append((ser(p), m))
    # the same programs as an AST built with Ident::new has them: every identifier at (1, 0)
    # (several-fault programs first: equal locations make equal errors)
    nflat = 0
    for i in sorted(range(len(batch)), key=lambda i: ({"fault2": 0, "fault": 1, "wf": 2}.get(batch[i][1].get("stream"), 9), i)):
        if nflat >= sz["flat"] or batch[i][1].get("stream") not in ("fault2", "fault", "wf"):
            break
        batch.append((ser(gen.flatten_positions(parse(batch[i][0]))), {"stream": "flat", "of": i}))
        nflat += 1
    # derived programs (C16: permutations; C17: stubbed bodies), linked to their base by index
    import random as _random
    drng = _random.Random(seed * 7 + 3)
    nb = len(batch)
    n_perm = n_stub = 0
    # order-dependence and cross-body leaks show up mostly next to rejected declarations: take the
    # single-fault programs first, then the rest
    # (fault and flat programs alternate, so that both kinds get derived programs in the quick tier)
    rank, seen_in = {}, {}
    for i in range(nb):
        st = batch[i][1].get("stream")
        seen_in[st] = seen_in.get(st, 0) + 1
        rank[i] = seen_in[st]
    # (the hand-written shapes of corpus/H_shapes.sexp before everything else: few, and each is there
    # because some seeded change needed exactly that shape)
    order = sorted(range(nb), key=lambda i: ((-1, i) if batch[i][1].get("file") == "H_shapes.sexp" or batch[i][1].get("stream") == "shapes" else
                                             (0, rank[i]) if batch[i][1].get("stream") in ("fault", "flat") else (1, i)))
    for i in order:
        text, meta = batch[i]
        if meta.get("stream") not in ("wf", "fault", "flat", "free", "corpus", "shapes"):
            continue
        tree = None
        if n_perm < sz["perm_bases"] or n_stub < sz["stub_bases"]:
            tree = parse(text)
        if tree is None:
            break
        if n_perm < sz["perm_bases"] and gen.eligible_for_permutation(tree):
            n_perm += 1
            if (tier == "thorough" and len(tree) - 1 <= 5) or len(tree) - 1 <= 3:
                perms = list(gen.all_permutations_of(tree))
                exhaustive = True
            else:
                perms = [gen.permutation_of(tree, drng) for _ in range(sz["perms"])]
                exhaustive = False
            for q in perms:
                batch.append((ser(q), {"stream": "perm", "base": i, "all": exhaustive}))
        nfn = sum(1 for t in tree[1:] if t[0] == "fn")
        if n_stub < sz["stub_bases"] and 2 <= nfn <= 5:
            n_stub += 1
            for v, keep in gen.stub_variants(tree):
                batch.append((ser(v), {"stream": "stub", "base": i, "keep": keep}))
    r.programs = [p for p, _ in batch]
    r.metas = [m for _, m in batch]
    if os.path.exists(done):
        import gzip
        saved = json.load(gzip.open(done, "rt"))
        r.impl, r.mon, r.problems = saved["impl"], saved["mon"], saved["problems"]
        r.model = [a if b == "=" else b for a, b in zip(saved["impl"], saved["model"])]
        r.cached = True
        return r
    t0 = time.time()
    r.impl, r.model, r.mon, r.problems = run_programs(r.programs, d, tier=tier)
    r.cached = False
    r.wall = time.time() - t0
    import gzip
    with gzip.open(done, "wt", compresslevel=3) as f:
        json.dump({"impl": r.impl, "model": ["=" if a == b else b for a, b in zip(r.impl, r.model)],
                   "mon": r.mon, "problems": r.problems}, f)
    for fn in os.listdir(d):
        if re.match(r"s\d+\.(sexp|impl|model|mon)$", fn):
            os.remove(os.path.join(d, fn))
    # keep the cache small: drop the oldest run directories beyond 3
    runs = sorted((x for x in os.listdir(CACHE) if x.startswith("run-")),
                  key=lambda x: os.path.getmtime(os.path.join(CACHE, x)))
    for old in runs[:-3]:
        sh("rm -rf %s" % os.path.join(CACHE, old), 60)
    return r


def impl_coverage(run):
    """Thorough tier: line/region coverage of /repo/src reached by this batch, measured with an
    instrumented build of the harness (nightly llvm-tools). Reported as evidence of generator reach;
    None when the tooling is unavailable."""
    tools = os.path.expanduser("~/.rustup/toolchains/nightly-x86_64-unknown-linux-gnu/lib/rustlib/x86_64-unknown-linux-gnu/bin")
    if not os.path.exists(os.path.join(tools, "llvm-cov")):
        return None
    out_json = os.path.join(run.dir, "coverage.json")
    if os.path.exists(out_json):
        return json.load(open(out_json))
    tgt = os.path.join(CACHE, "cov-target")
    # LLVM_PROFILE_FILE during the build too: instrumented proc-macros would otherwise drop
    # default_*.profraw files into the crate being compiled, i.e. into /repo
    rc, out = sh("cd %s/harness && LLVM_PROFILE_FILE=%s/build-%%p.profraw RUSTFLAGS='-C instrument-coverage' CARGO_TARGET_DIR=%s "
                 "cargo +nightly build --offline 2>&1 | tail -3; rm -f %s/build-*.profraw" % (ROOT, tgt, tgt, tgt), 1800)
    binp = os.path.join(tgt, "debug", "verif-harness")
    if not os.path.exists(binp):
        return None
    inp = os.path.join(run.dir, "cov.sexp")
    with open(inp, "w") as f:
        f.write("\n".join(run.programs) + "\n")
    raw, prof = os.path.join(run.dir, "cov.profraw"), os.path.join(run.dir, "cov.profdata")
    sh("LLVM_PROFILE_FILE=%s %s run %s %s/cov.out" % (raw, binp, inp, run.dir), 3000)
    sh("%s/llvm-profdata merge -sparse %s -o %s" % (tools, raw, prof), 600)
    srcs = " ".join(x for x in (files_under(os.path.join(REPO, "src", "semantic"), (".rs",)) if os.path.isdir(os.path.join(REPO, "src", "semantic"))
                               else [os.path.join(REPO, "src", "semantic.rs")]) + [os.path.join(REPO, "src", "types", "block_state.rs")])
    rc, rep = sh("%s/llvm-cov report %s -instr-profile=%s %s" % (tools, binp, prof, srcs), 600)
    res = {}
    for line in rep.splitlines():
        parts = line.split()
        if len(parts) >= 10 and parts[0].endswith(".rs"):
            res[parts[0]] = {"regions": int(parts[1]), "missed_regions": int(parts[2]),
                             "lines": int(parts[7]), "missed_lines": int(parts[8]), "line_cover": parts[9]}
    for fn in ("cov.sexp", "cov.profraw", "cov.out"):
        try:
            os.remove(os.path.join(run.dir, fn))
        except OSError:
            pass
    with open(out_json, "w") as f:
        json.dump(res, f)
    return res


def extraction_crosscheck(run, n):
    """The same numeric summary of `run p` computed by vm_compute inside Coq and by the extracted
    OCaml code, on the first n small programs of the batch: validates the extraction pipeline."""
    import tocoq
    out_json = os.path.join(run.dir, "xcheck-%d.json" % n)
    if os.path.exists(out_json):
        return json.load(open(out_json))
    progs = [p for p in run.programs if len(p) < 2500][:n]
    d = os.path.join(run.dir, "xcheck")
    os.makedirs(d, exist_ok=True)
    with open(os.path.join(d, "p.sexp"), "w") as f:
        f.write("\n".join(progs) + "\n")
    rc, out = run_side(MODEL, "summary", os.path.join(d, "p.sexp"), os.path.join(d, "p.ocaml"))
    res = {"programs": len(progs), "agree": 0, "problems": []}
    if rc != 0:
        res["problems"].append("extracted summary failed: " + out[-200:])
    else:
        oc = [l.strip() for l in open(os.path.join(d, "p.ocaml"))]
        agree = 0
        for lo in range(0, len(progs), 50):
            chunk = progs[lo:lo + 50]
            v = "From SA Require Import Model.\nFrom SA.Mon Require Import Summary.\nLocal Open Scope list_scope.\n"
            for i, pr in enumerate(chunk):
                v += "Definition p%d : program := %s.\n" % (i, tocoq.program(pr))
            v += "Eval vm_compute in (map (fun p => summary (run p)) [%s]).\n" % "; ".join("p%d" % i for i in range(len(chunk)))
            cf = os.path.join(d, "cases%d.v" % lo)
            with open(cf, "w") as f:
                f.write(v)
            rc, cout = sh("timeout 900 coqc -q -Q . SA %s -o %s.vo" % (cf, cf[:-2]), 1000, cwd=COQ)
            try:
                body = cout[cout.index("= [[") + 2: cout.rindex(": list")]
                rows = [" ".join(x.replace(";", " ").split()) for x in re.findall(r"\[([0-9; \n]*)\]", body)]
            except ValueError:
                res["problems"].append("coqc cases: " + cout[-200:])
                rows = []
            for a, b in zip(rows, oc[lo:lo + 50]):
                if a == b:
                    agree += 1
                elif len(res["problems"]) < 3:
                    res["problems"].append("summary differs: coq=%s ocaml=%s" % (a[:80], b[:80]))
            if len(rows) != len(chunk):
                res["problems"].append("coqc printed %d rows for %d programs" % (len(rows), len(chunk)))
        res["agree"] = agree
    sh("rm -rf %s" % d, 60)
    with open(out_json, "w") as f:
        json.dump(res, f)
    return res


def mon_get(line, prop):
    """Monitor verdict for `prop` on one line: True / False / None (not applicable or unreadable)."""
    for tok in line.split():
        if tok.startswith(prop + ":"):
            v = tok.split(":", 1)[1]
            return True if v == "1" else False if v == "0" else None
    return None


def mon_field(line, name):
    for tok in line.split():
        if tok.startswith(name + ":"):
            return tok.split(":", 1)[1]
    return None


# ------------------------------------------------------------------------------------------------
# shrinking

def shrink(prog_text, still_fails, budget=120):
    """Greedy structural minimisation of a program (delete top-level items, statements, chain
    links; replace sub-expressions by their head) while `still_fails(text)` holds."""
    tree = parse(prog_text)
    calls = [0]

    def ok(t):
        if calls[0] >= budget:
            return False
        calls[0] += 1
        try:
            return still_fails(ser(t))
        except Exception:
            return False

    def candidates(t):
        # yields (path, replacement-or-None) : None = delete the element at path
        out = []

        def walk(x, path):
            if not isinstance(x, list) or not x:
                return
            h = x[0] if isinstance(x[0], str) else None
            deletable = {"program": 1, "body": 1, "ifbody": 1, "loopbody": 1, "loop": 1, "expr": 2, "cexpr": 2,
                         "params": 1, "struct": 2}
            if h in deletable:
                for k in range(len(x) - 1, deletable[h] - 1, -1):
                    out.append((path + [k], None))
            if h == "sub":
                out.append((path, ("unsub", None)))
            if h == "ifs":
                if x[3][0] == "else":
                    out.append((path + [3], ["noelse"]))
                if x[4][0] == "elif":
                    out.append((path + [4], ["noelif"]))
            for k, e in enumerate(x):
                walk(e, path + [k])
        walk(t, [])
        return out

    def apply(t, path, rep):
        import copy
        t2 = copy.deepcopy(t)
        cur = t2
        for k in path[:-1]:
            cur = cur[k]
        if not path:
            return None
        if rep is None:
            del cur[path[-1]]
        elif isinstance(rep, tuple) and rep[0] == "unsub":
            # (sub (expr V)) -> V when the inner chain is a single value
            inner = cur[path[-1]][1]
            if len(inner) == 2:
                cur[path[-1]] = inner[1]
            else:
                return None
        else:
            cur[path[-1]] = rep
        return t2

    changed = True
    while changed and calls[0] < budget:
        changed = False
        for path, rep in candidates(tree):
            t2 = apply(tree, path, rep)
            if t2 is not None and ok(t2):
                tree = t2
                changed = True
                break
    return ser(tree)


# ------------------------------------------------------------------------------------------------
# the check

def write_replay(prop, what, prog, impl, model, extra=None):
    d = os.path.join(ROOT, "replays")
    os.makedirs(d, exist_ok=True)
    name = "%s-%s.json" % (prop, hashlib.sha1((what + (prog or "")).encode()).hexdigest()[:12])
    path = os.path.join(d, name)
    rec = {"property": prop, "what": what, "program": prog, "impl_output": impl, "model_output": model,
           "repo_hash": repo_hash()}
    if extra:
        rec.update(extra)
    with open(path, "w") as f:
        json.dump(rec, f, indent=1)
    return path


def known_findings():
    try:
        return json.load(open(os.path.join(ROOT, "known_findings.json")))
    except OSError:
        return []


def replay(prop, path):
    """Re-runs the program of a replay file through both sides and the property's monitor."""
    rec = json.load(open(path))
    if not rec.get("program"):
        print("replay: no program recorded (%s)" % rec.get("what"))
        return 1 if rec.get("what") else 0
    b = build()
    d = os.path.join(CACHE, "replay")
    spec = props.PROPS[prop]
    if rec.get("group") and spec.get("cross"):
        r = Run()
        r.programs = [g["program"] for g in rec["group"]]
        r.metas = [g["meta"] for g in rec["group"]]
        r.impl, r.model, r.mon, r.problems = run_programs(r.programs, d, shards=1)
        r.dir = d
        alarms, st = spec["cross"](r)
        print("replay %s: cross check on %d programs: %s" % (prop, len(r.programs), alarms[0][1] if alarms else "holds"))
        if alarms:
            print("VIOLATION property=%s replay=%s" % (prop, path))
            return 1
        return 0
    if spec.get("stage"):
        r = Run()
        r.programs, r.metas = [rec["program"]], [{"stream": "replay"}]
        r.impl, r.model, r.mon, r.problems = run_programs(r.programs, d, shards=1)
        r.dir = d
        for fn in os.listdir(d):      # results of the stage cached by an earlier replay
            if fn in ("DONE-codec.json", "extuse.json", "exttag.json") or fn.startswith("miri-"):
                os.remove(os.path.join(d, fn))
        r.tier = "quick"
        alarms, dis, where, st = spec["stage"](r)
        print("replay %s: stage: %s %s" % (prop, alarms[0][1] if alarms else "holds", where))
        if alarms or dis:
            print("VIOLATION property=%s replay=%s" % (prop, path))
            return 1
        # ... and the property's monitors / projection on the recorded program, as for every property
    impl, model, mon, problems = run_programs([rec["program"]], d, shards=1)
    verdicts = props.judge(prop, rec["program"], impl[0], model[0], mon[0])
    print("replay %s: impl-vs-model(%s)=%s monitor=%s" % (
        prop, spec["projection"], verdicts["agree"], verdicts["monitor"]))
    if verdicts["monitor"] is False or not verdicts["agree"]:
        print("VIOLATION property=%s replay=%s" % (prop, path))
        return 1
    return 0


def monitors_used(spec):
    return bool(spec.get("monitors") or spec.get("monitor"))


def check(prop, tier, seed):
    # checks of different properties share the Coq build, the cargo target directory and the
    # pipeline cache: when several are started at once they take turns
    import fcntl
    os.makedirs(CACHE, exist_ok=True)
    with open(os.path.join(CACHE, "lock"), "w") as lk:
        fcntl.flock(lk, fcntl.LOCK_EX)
        try:
            return _check(prop, tier, seed)
        finally:
            fcntl.flock(lk, fcntl.LOCK_UN)


def _check(prop, tier, seed):
    t0 = time.time()
    spec = props.PROPS[prop]
    evidence = {"property_id": prop, "tier": tier, "seed": seed, "level": "proof", "coverage": {},
                "assumptions": [], "wall_s": 0.0, "violations": 0}
    broken = []          # names of obligations / ties that no longer check
    b = build()
    for comp in ("translator", "ocaml", "harness"):
        if not b[comp]["ok"]:
            broken.append("build:%s: %s" % (comp, b[comp]["log"][-400:]))
    ps = proof_status(prop)
    for extra in spec.get("extra_files", []):
        ps2 = proof_status(extra)
        ps["obligations"] = ps.get("obligations", 0) + len(ps2.get("theorems", []))
        ps["discharged"] = ps.get("discharged", 0) + (len(ps2.get("theorems", [])) if ps2["ok"] else 0)
        ps["theorems"] = ps.get("theorems", []) + ps2.get("theorems", [])
        ps["cone"] = sorted(set(ps.get("cone", []) + ps2.get("cone", [])))
        ps["closed"] = ps.get("closed", 0) + ps2.get("closed", 0)
        ps["axioms"] = sorted(set(ps.get("axioms", []) + ps2.get("axioms", [])))
        ps["problems"] = ps.get("problems", []) + ps2.get("problems", [])
        ps["ok"] = ps["ok"] and ps2["ok"]
    if not ps["ok"]:
        broken += ["proof:" + x for x in ps["problems"]] or ["proof: obligations %d discharged %d" % (ps.get("obligations", 0), ps.get("discharged", 0))]
    chk = None
    if tier == "thorough" and ps["ok"]:
        chk = coqchk(prop)
        if not chk["ok"]:
            broken.append("coqchk: %s" % chk["tail"][-400:])
    lint = props.lints()
    for l in lint["failed"]:
        if prop in l["properties"]:
            broken.append("lint:%s" % l["name"])

    can_run = b["ocaml"]["ok"] and b["harness"]["ok"]
    alarms, known_hits, disagreements, agree_full = [], [], [], 0
    stats = {}
    run = None
    if can_run:
        run = pipeline(seed, tier)
        for pr in run.problems:
            broken.append("pipeline:" + pr)
        xc = extraction_crosscheck(run, 40 if tier == "quick" else 300)
        if xc["problems"] or xc["agree"] != xc["programs"]:
            broken.append("extraction cross-check: %s" % (xc["problems"][:1] or ["summaries differ"]))
        stats = props.analyse(prop, run)
        alarms, known_hits, disagreements = stats["alarms"], stats["known"], stats["disagreements"]
    if disagreements:
        i = disagreements[0]
        broken.append("correspondence:%s on program #%d (%s)" % (spec["projection"], i, stats["disagreement_where"]))
    if stats.get("unreadable") and monitors_used(spec):
        broken.append("monitors: the implementation's output on program #%d (and %d more) could not be read by the monitors: %s"
                      % (stats["unreadable"][0], len(stats["unreadable"]) - 1, run.mon[stats["unreadable"][0]][:120]))

    violation_line = None
    if alarms:
        i, clause = alarms[0]
        prog = run.programs[i]
        try:
            small = shrink(prog, lambda t: props.alarm_on(prop, t))
        except Exception:
            small = prog
        group = None
        if spec.get("cross"):
            # relational property: the replay needs the whole group (base program and its derived ones)
            gb = run.metas[i].get("base", i)
            idx = [gb] + [j for j, m in enumerate(run.metas) if m.get("base") == gb and m.get("stream") in ("perm", "stub")]
            group = [{"program": run.programs[j], "meta": dict(run.metas[j], base=0) if j != gb else run.metas[j]} for j in idx]
            small = prog
        path = write_replay(prop, "monitor alarm: " + clause, small, None, None,
                            {"original_program": prog, "meta": run.metas[i], "seed": seed, "tier": tier,
                             "group": group})
        violation_line = "VIOLATION property=%s replay=%s" % (prop, path)
    elif broken:
        # the property is no longer shown to hold: look for a concrete failing input
        found = None
        if can_run:
            found = props.search(prop, seed)
        if found:
            prog, clause = found
            try:
                small = shrink(prog, lambda t: props.alarm_on(prop, t))
            except Exception:
                small = prog
            path = write_replay(prop, "monitor alarm (search after broken obligation): " + clause, small, None, None,
                                {"original_program": prog, "broken": broken, "seed": seed, "tier": tier})
            violation_line = "VIOLATION property=%s replay=%s" % (prop, path)
        else:
            prog = impl = model = None
            if disagreements:
                i = disagreements[0]
                prog, impl, model = run.programs[i], run.impl[i], run.model[i]
            path = write_replay(prop, "no longer checks: " + "; ".join(broken)[:3000], prog, impl, model,
                                {"broken": broken, "seed": seed, "tier": tier})
            violation_line = "VIOLATION property=%s replay=%s no-failing-input-found" % (prop, path)

    for kf in known_hits:
        print("KNOWN-FINDING: property=%s %s" % (prop, kf))

    cov = evidence["coverage"]
    cov["obligations"] = ps.get("obligations", 0) + len(lint["all"]) + 1
    cov["discharged"] = (ps.get("discharged", 0) if ps["ok"] else min(ps.get("discharged", 0), ps.get("obligations", 1) - 1)) \
        + len([l for l in lint["all"] if l not in [x["name"] for x in lint["failed"]]]) + (1 if b["translator"]["ok"] else 0)
    cov["checker_cmd"] = ps.get("checker_cmd", "")
    cov["theorems"] = ps.get("theorems", [])
    cov["print_assumptions"] = {"closed_under_global_context": ps.get("closed", 0), "axioms": ps.get("axioms", [])}
    cov["cone"] = ps.get("cone", [])
    cov["trusted_base"] = props.TRUSTED_BASE + spec.get("trusted_extra", [])
    if chk is not None:
        cov["coqchk"] = {"ok": chk["ok"], "tail": chk["tail"][-600:]}
    if run is not None:
        cov["programs"] = len(run.programs)
        cov["evaluations"] = len(run.programs)
        cov["disagreements_checked"] = len(run.programs)
        cov["disagreements"] = len(disagreements)
        cov["full_agreement"] = stats.get("full_agreement", 0)
        cov["distinct_nontrivial"] = stats.get("distinct_nontrivial", 0)
        cov["rule"] = spec["rule"]
        cov["samples"] = stats.get("samples", [])
        cov["distribution"] = stats.get("distribution", {})
        cov["monitor"] = stats.get("monitor", {})
        cov["cross"] = stats.get("cross", {})
        cov["stage"] = stats.get("stage", {})
        cov["exhaustive"] = False
        cov["extraction_crosscheck"] = {"programs": xc["programs"], "vm_compute_equals_extracted": xc["agree"]}
        if tier == "thorough":
            ic = impl_coverage(run)
            if ic:
                cov["implementation_coverage_of_this_batch"] = ic
    else:
        cov["evaluations"] = 0
        cov["distinct_nontrivial"] = 0
        cov["samples"] = []
    cov["broken"] = broken
    cov["lints"] = lint["summary"]
    evidence["assumptions"] = spec.get("assumptions", [])
    evidence["violations"] = 1 if violation_line else 0
    evidence["wall_s"] = round(time.time() - t0, 2)
    os.makedirs(os.path.join(ROOT, "evidence"), exist_ok=True)
    with open(os.path.join(ROOT, "evidence", prop + ".json"), "w") as f:
        json.dump(evidence, f, indent=1)
    if violation_line:
        print(violation_line)
        return 1
    print("OK property=%s tier=%s programs=%s obligations=%d/%d wall=%.1fs" % (
        prop, tier, cov.get("programs", 0), cov["discharged"], cov["obligations"], evidence["wall_s"]))
    return 0
