#!/usr/bin/env python3
"""Translator: regenerates coq/Gen/Priority.v and coq/Gen/Enums.v from /repo/src as it is now.

Only fixed Rust shapes are recognised; anything else fails closed (exit 2).  The generated files
are rewritten only when their content changes, so `make` rebuilds dependants exactly when the
source tables changed.
"""
import os
import re
import sys

REPO = os.environ.get("VERIF_REPO", "/repo")
OUT = os.path.join(os.path.dirname(os.path.abspath(__file__)), "..", "coq", "Gen")


def die(msg):
    sys.stderr.write("gen_from_src: " + msg + "\n")
    sys.exit(2)


def read(rel):
    try:
        with open(os.path.join(REPO, rel)) as f:
            return f.read()
    except OSError as e:
        die(str(e))


def strip_comments(s):
    s = re.sub(r"/\*.*?\*/", "", s, flags=re.S)
    s = re.sub(r"//[^\n]*", "", s)
    return s


def enum_variants(src, name, unit_only=True):
    """Variant names of `pub enum NAME { ... }` (first definition in src)."""
    m = re.search(r"pub enum " + re.escape(name) + r"\b[^{]*\{", src)
    if not m:
        die("enum %s not found" % name)
    i = m.end()
    depth = 1
    j = i
    while depth > 0:
        if j >= len(src):
            die("enum %s: unbalanced braces" % name)
        c = src[j]
        if c == "{":
            depth += 1
        elif c == "}":
            depth -= 1
        j += 1
    body = strip_comments(src[i : j - 1])
    # remove attributes
    body = re.sub(r"#\[[^\]]*\]", "", body)
    # split top-level commas
    parts, cur, d = [], "", 0
    for c in body:
        if c in "{(":
            d += 1
        elif c in "})":
            d -= 1
        if c == "," and d == 0:
            parts.append(cur)
            cur = ""
        else:
            cur += c
    if cur.strip():
        parts.append(cur)
    names = []
    for p in parts:
        p = p.strip()
        if not p:
            continue
        m2 = re.match(r"^([A-Za-z_][A-Za-z0-9_]*)\s*(.*)$", p, re.S)
        if not m2:
            die("enum %s: cannot read variant %r" % (name, p))
        if unit_only and m2.group(2).strip():
            die("enum %s: variant %s is not a unit variant" % (name, m2.group(1)))
        names.append(m2.group(1))
    if not names:
        die("enum %s: no variants" % name)
    return names


def const_value(src, val, maxp, depth=0):
    """A priority written as a literal, as MAX_PRIORITY_LEVEL_FOR_EXPRESSIONS, or as a named
    `const NAME: u8 = <literal | other constant>;` of the same file (resolved transitively)."""
    if val.isdigit():
        return int(val)
    if val == "MAX_PRIORITY_LEVEL_FOR_EXPRESSIONS":
        return maxp
    if depth > 8:
        die("priority(): constant chain too long at %r" % val)
    defs = re.findall(r"\bconst " + re.escape(val) + r"\s*:\s*u8\s*=\s*(?:Self::)?([A-Za-z0-9_]+)\s*;", strip_comments(src))
    if len(defs) != 1:
        die("priority(): unrecognised value %r" % val)
    return const_value(src, defs[0], maxp, depth + 1)


def priority_table(src, ops):
    m = re.search(r"\bconst\s+MAX_PRIORITY_LEVEL_FOR_EXPRESSIONS\s*:\s*u8\s*=\s*(\d+)\s*;", src)
    if not m:
        die("MAX_PRIORITY_LEVEL_FOR_EXPRESSIONS not found")
    maxp = int(m.group(1))
    # `fn priority(&self) -> u8 { match self { ... } }`, whatever its qualifiers and indentation:
    # the body of the first `match self {` after the signature, by brace matching
    m = re.search(r"\bfn\s+priority\s*\(\s*&\s*self\s*\)\s*->\s*u8\s*\{", src)
    if not m:
        die("ExpressionOperations::priority: signature not recognised")
    mm = re.search(r"\bmatch\s+\*?\s*self\s*\{", src[m.end():])
    if not mm:
        die("ExpressionOperations::priority: `match self` not found")
    i = m.end() + mm.end()
    depth, j = 1, i
    while depth > 0:
        if j >= len(src):
            die("ExpressionOperations::priority: unbalanced braces")
        if src[j] == "{":
            depth += 1
        elif src[j] == "}":
            depth -= 1
        j += 1

    class _M:       # the shape the code below expects from a regex match
        def __init__(self, text):
            self.text = text

        def group(self, k):
            return self.text
    m = _M(src[i:j - 1])
    body = strip_comments(m.group(1))
    table = {}
    # arms:  Self::A | Self::B => value,   or  => { value }
    arm_re = re.compile(
        r"\|?\s*((?:Self::[A-Za-z]+\s*\|?\s*)+)=>\s*(?:\{\s*(?:Self::)?([A-Za-z0-9_]+)\s*\}|(?:Self::)?([A-Za-z0-9_]+))\s*,?", re.S
    )
    pos = 0
    body_stripped = body.strip()
    for am in arm_re.finditer(body):
        between = body[pos : am.start()].strip()
        if between:
            die("priority(): unrecognised text %r" % between)
        pos = am.end()
        val = am.group(2) or am.group(3)
        v = const_value(src, val, maxp)
        for vn in re.findall(r"Self::([A-Za-z]+)", am.group(1)):
            if vn in table:
                die("priority(): %s listed twice" % vn)
            table[vn] = v
    if body[pos:].strip():
        die("priority(): unrecognised trailing text %r" % body[pos:].strip())
    for o in ops:
        if o not in table:
            die("priority(): no arm for %s" % o)
    for o in table:
        if o not in ops:
            die("priority(): arm for unknown operator %s" % o)
    return maxp, table


def coq_enum(tname, prefix, names, namefn):
    out = ["Inductive %s : Set :=" % tname]
    for n in names:
        out.append("  | %s%s" % (prefix, n))
    out[-1] += "."
    out.append("")
    out.append("Definition %s (x : %s) : string :=" % (namefn, tname))
    out.append("  match x with")
    for n in names:
        out.append('  | %s%s => "%s"' % (prefix, n, n))
    out.append("  end.")
    out.append("")
    out.append("Definition all_%s : list %s :=" % (tname, tname))
    out.append("  [" + "; ".join(prefix + n for n in names) + "].")
    out.append("")
    return "\n".join(out)


def write_if_changed(path, content):
    try:
        with open(path) as f:
            if f.read() == content:
                return False
    except OSError:
        pass
    os.makedirs(os.path.dirname(path), exist_ok=True)
    with open(path, "w") as f:
        f.write(content)
    return True


def main():
    ast = read("src/ast.rs")
    err = read("src/types/error.rs")
    sem = read("src/types/semantic.rs")
    ops = enum_variants(ast, "ExpressionOperations")
    prims = enum_variants(ast, "PrimitiveTypes")
    conds = enum_variants(ast, "Condition")
    logic = enum_variants(ast, "LogicCondition")
    kinds = enum_variants(err, "StateErrorKind")
    instrs = enum_variants(sem, "SemanticStackContext", unit_only=False)
    maxp, table = priority_table(ast, ops)

    hdr = "(* GENERATED by tools/gen_from_src.py from /repo/src — do not edit. *)\n"
    enums = hdr + "From Coq Require Import String List.\nImport ListNotations.\nOpen Scope string_scope.\n\n"
    enums += coq_enum("binop", "O", ops, "binop_name")
    enums += coq_enum("prim_ty", "P", prims, "prim_ty_name")
    enums += coq_enum("cmpop", "C", conds, "cmpop_name")
    enums += coq_enum("logicop", "L", logic, "logicop_name")
    enums += coq_enum("err_kind", "E", kinds, "err_kind_name")
    enums += "Definition instr_variant_names : list string :=\n  [" + "; ".join(
        '"%s"' % n for n in instrs
    ) + "].\n"

    prio = hdr + "From Coq Require Import NArith.\nFrom SA.Gen Require Import Enums.\nOpen Scope N_scope.\n\n"
    prio += "Definition max_prio : N := %d.\n\n" % maxp
    prio += "Definition prio (o : binop) : N :=\n  match o with\n"
    for o in ops:
        prio += "  | O%s => %d\n" % (o, table[o])
    prio += "  end.\n"

    if "--dry" in sys.argv:
        # compare with what is on disk without writing (used to try the translator on scratch trees)
        same = [open(os.path.join(OUT, n)).read() == c for n, c in (("Enums.v", enums), ("Priority.v", prio))]
        print("gen_from_src (dry): Enums.v %s, Priority.v %s" % tuple("same" if x else "DIFFERENT" for x in same))
        return
    c1 = write_if_changed(os.path.join(OUT, "Enums.v"), enums)
    c2 = write_if_changed(os.path.join(OUT, "Priority.v"), prio)
    print("gen_from_src: Enums.v %s, Priority.v %s" % ("rewritten" if c1 else "unchanged", "rewritten" if c2 else "unchanged"))


if __name__ == "__main__":
    main()
