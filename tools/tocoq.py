"""Program S-expression -> Coq term (for the cases.v cross-check of extraction)."""
from sexp import parse

PRIM = {"u8": "PU8", "u16": "PU16", "u32": "PU32", "u64": "PU64", "i8": "PI8", "i16": "PI16", "i32": "PI32",
        "i64": "PI64", "f32": "PF32", "f64": "PF64", "bool": "PBool", "char": "PChar", "ptr": "PPtr", "none": "PNone"}


def lst(xs):
    return "[" + "; ".join(xs) + "]"


def ident(x):
    return '(Id "%s" %s %s)' % (str(x[1]), x[2], x[3])


def ty(t):
    if t[0] == "prim":
        return "(TPrim %s)" % PRIM[t[1]]
    if t[0] == "struct":
        return "(TStruct %s %s)" % (ident(t[1]), lst("(%s, %s)" % (ident(a[1]), ty(a[2])) for a in t[2:]))
    return "(TArray %s %s)" % (ty(t[1]), t[2])


def pv(v):
    n = int(v[2]) if v[1] not in ("ptr", "none") else 0
    return "(PV %s (%d)%%Z)" % (PRIM[v[1]], n)


def val(v):
    k = v[0]
    if k == "name":
        return "(EVName %s)" % ident(v[1])
    if k == "prim":
        return "(EVPrim %s)" % pv(v[1])
    if k == "call":
        return "(EVCall %s %s)" % (ident(v[1]), lst(expr(e) for e in v[2:]))
    if k == "field":
        return "(EVField %s %s)" % (ident(v[1]), ident(v[2]))
    if k == "sub":
        return "(EVSub %s)" % expr(v[1])
    return "(EVExt %s %s)" % (ty(v[1]), v[2])


def expr(e):
    return "(Expr %s %s)" % (val(e[1]), lst("(O%s, %s)" % (l[0], val(l[1])) for l in e[2:]))


def lc(x):
    nxt = "None" if len(x) == 4 else "(Some (L%s, %s))" % (x[4], lc(x[5]))
    return "(LC %s C%s %s %s)" % (expr(x[1]), x[2], expr(x[3]), nxt)


def body(b):
    return "(%s %s)" % ("IBIf" if b[0] == "ifbody" else "IBLoop", lst(stmt(s) for s in b[1:]))


def ifs(i):
    c = "(CSingle %s)" % expr(i[1][1]) if i[1][0] == "single" else "(CLogic %s)" % lc(i[1][1])
    els = "None" if i[3][0] == "noelse" else "(Some %s)" % body(i[3][1])
    elif_ = "None" if i[4][0] == "noelif" else "(Some %s)" % ifs(i[4][1])
    return "(IfS %s %s %s %s)" % (c, body(i[2]), els, elif_)


def stmt(s):
    k = s[0]
    if k == "let":
        t = "None" if s[3][0] == "noty" else "(Some %s)" % ty(s[3][1])
        return "(SLet %s %s %s %s)" % (ident(s[1]), "true" if str(s[2]) != "0" else "false", t, expr(s[4]))
    if k == "bind":
        return "(SBind %s %s)" % (ident(s[1]), expr(s[2]))
    if k == "call":
        return "(SCall %s %s)" % (ident(s[1]), lst(expr(e) for e in s[2:]))
    if k == "if":
        return "(SIf %s)" % ifs(s[1])
    if k == "loop":
        return "(SLoop %s)" % lst(stmt(x) for x in s[1:])
    if k == "ret":
        return "(SRet %s)" % expr(s[1])
    if k == "exprstmt":
        return "(SExprStmt %s)" % expr(s[1])
    return "SBreak" if k == "break" else "SContinue"


def cv(c):
    return "(CConst %s)" % ident(c[1]) if c[0] == "cconst" else "(CVal %s)" % pv(c[1])


def top(t):
    k = t[0]
    if k == "import":
        return "(TImport %s)" % lst(ident(i) for i in t[1:])
    if k == "struct":
        return "(TStructDecl %s %s)" % (ident(t[1]), lst("(%s, %s)" % (ident(a[1]), ty(a[2])) for a in t[2:]))
    if k == "const":
        ce = t[3]
        return "(TConst %s %s (CExpr %s %s))" % (ident(t[1]), ty(t[2]), cv(ce[1]), lst("(O%s, %s)" % (l[0], cv(l[1])) for l in ce[2:]))
    ps = lst("(%s, %s)" % (ident(p[0]), ty(p[1])) for p in t[2][1:])
    return "(TFn (Fn %s %s %s %s))" % (ident(t[1]), ps, ty(t[3]), lst(stmt(s) for s in t[4][1:]))


def program(text):
    p = parse(text)
    return lst(top(t) for t in p[1:])
