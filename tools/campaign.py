#!/usr/bin/env python3
"""tools/campaign.py — mechanical mutation campaign against the checks (not a registered check).

    campaign.py gen                      writes seeded/campaign/mutants.json
    campaign.py run [-j N] [--limit K]   runs the mutants not yet in seeded/campaign/results.jsonl
    campaign.py report                   prints the summary (markdown) and writes seeded/campaign/SUMMARY.md

Every mutant is one token-level edit of one line of /repo/src.  Each worker owns a scratch copy of
/repo and of /verif under /tmp/camp/wK (never /repo itself), writes the mutated file there, and

  1. `cargo check --lib` and the repository's own test suite (default features): a mutant that
     does not compile or fails a test is dropped — the task is about changes the tests let through;
  2. for a survivor, runs `./check Cnn` (quick tier) for all properties in its /verif copy with
     VERIF_REPO pointing at its /repo copy and records each verdict.

Survivors that no check reports are triaged by hand (equivalent mutant / outside every property /
gap in the machinery); the triage is kept in seeded/campaign/triage.json.
"""
import json
import os
import re
import subprocess
import sys
import time
from concurrent.futures import ThreadPoolExecutor

ROOT = os.path.normpath(os.path.join(os.path.dirname(os.path.abspath(__file__)), ".."))
OUT = os.path.join(ROOT, "seeded", "campaign")
SCRATCH = os.environ.get("VERIF_CAMPAIGN_DIR", "/tmp/camp")
FILES = ["src/semantic.rs", "src/types/block_state.rs", "src/types/types.rs", "src/types/expression.rs",
         "src/types/condition.rs", "src/types/semantic.rs", "src/types/mod.rs", "src/types/error.rs", "src/ast.rs"]
PROPS = ["C%02d" % i for i in range(1, 21)]

SUBST = [
    (r"==", "!=", "eq->ne"), (r"!=", "==", "ne->eq"),
    (r"&&", "||", "and->or"), (r"\|\|(?!\s*\{)", "&&", "or->and"),
    (r"(?<= )<(?= )", "<=", "lt->le"), (r"(?<= )<=(?= )", "<", "le->lt"),
    (r"(?<= )>(?= )", ">=", "gt->ge"), (r"(?<= )>=(?= )", ">", "ge->gt"),
    (r"\btrue\b", "false", "true->false"), (r"\bfalse\b", "true", "false->true"),
    (r"\+ 1\b", "+ 2", "+1->+2"), (r"- 1\b", "- 0", "-1->-0"), (r"\+= 1\b", "+= 2", "+=1->+=2"),
    (r"\)\?;", ").ok();", "?->ok"),
    (r"\.first\(\)", ".last()", "first->last"), (r"\.last\(\)", ".first()", "last->first"),
    (r"\.is_some\(\)", ".is_none()", "some->none"), (r"\.is_none\(\)", ".is_some()", "none->some"),
    (r"\.is_ok\(\)", ".is_err()", "ok->err"), (r"\.is_err\(\)", ".is_ok()", "err->ok"),
    (r"\bbreak\b", "continue", "break->continue"), (r"\bcontinue\b", "break", "continue->break"),
    (r"\.is_empty\(\)", ".len() == 1", "empty->len1"),
    (r"\[0\]", "[1]", "[0]->[1]"),
    (r"(?<=[a-z_])_begin\b", "_end", "begin->end"), (r"(?<=[a-z_])_end\b", "_begin", "end->begin"),
    (r"\bif_else\b", "if_end", "ifelse->ifend"),
    (r"\bleft(?=[a-z_]*\b)", "right", "left->right"), (r"\bright(?=[a-z_]*\b)", "left", "right->left"),
    (r"\.jump_to\(", ".set_label(", "jump->setlabel"), (r"\.set_label\(", ".jump_to(", "setlabel->jump"),
    (r"StateErrorKind::(?!Common\b)[A-Za-z]+", "StateErrorKind::Common", "errkind->Common"),
    (r"\.rev\(\)", "", "drop-rev"),
    (r"\bNone\b(?=\s*$|;|,|\))", "Default::default()", "none->default"),
    (r"\.inner_name\b", ".inner_type", "inner_name->inner_type"),
    (r"\bmutable\b(?=[,;) ])", "!mutable", "neg-mutable"),
    (r"\.clone\(\)\.into\(\)", ".into()", "noop"),
]
IF_RE = re.compile(r"^(\s*(?:\} else )?if )(?!let )(.+) \{\s*$")
MSTART_RE = re.compile(r"^\s*(?:self|[a-z_][a-z_0-9]*)(?:\.[a-z_][a-z_0-9]*(?:\(\))?)*(?:\.[a-z_][a-z_0-9]*\()?\s*$")
STMT_RE = re.compile(r"^\s*(?:self|[a-z_][a-z_0-9]*)(?:\.[a-z_][a-z_0-9]*(?:\([^;]*\))?)+;\s*$")


def test_region_start(lines):
    for i, l in enumerate(lines):
        if l.startswith("#[cfg(test)]"):
            return i
    return len(lines)


def gen():
    muts = []
    for f in FILES:
        path = os.path.join("/repo", f)
        lines = open(path).read().split("\n")
        end = test_region_start(lines)
        for i, l in enumerate(lines[:end]):
            s = l.strip()
            if not s or s.startswith(("//", "#[", "use ", "pub use", "///", "//!", "*", "/*")):
                continue
            code = l.split("//")[0]
            for pat, rep, name in SUBST:
                for m in re.finditer(pat, code):
                    new = code[:m.start()] + rep + code[m.end():]
                    muts.append({"file": f, "line": i + 1, "op": name, "before": l, "after": new})
            m = IF_RE.match(code)
            if m:
                muts.append({"file": f, "line": i + 1, "op": "negate-if", "before": l,
                             "after": "%s!(%s) {" % (m.group(1), m.group(2))})
            if STMT_RE.match(code) and code.count("(") == code.count(")") and "(" in code:
                muts.append({"file": f, "line": i + 1, "op": "delete-stmt", "before": l, "after": ""})
            elif MSTART_RE.match(code) and not code.rstrip().endswith((";", "{", ",")):
                # a statement spread over several lines: balanced parentheses, ends with `;`
                depth, j = 0, i
                while j < min(end, i + 14):
                    cj = lines[j].split("//")[0]
                    depth += cj.count("(") - cj.count(")") + cj.count("{") - cj.count("}") + cj.count("[") - cj.count("]")
                    if depth == 0 and cj.rstrip().endswith(";"):
                        break
                    if depth < 0:
                        j = -1
                        break
                    j += 1
                if 0 < j < min(end, i + 14) and j > i:
                    muts.append({"file": f, "line": i + 1, "op": "delete-stmt-multi", "before": l, "after": "",
                                 "span": j - i + 1, "before_all": lines[i:j + 1]})
    # `noop` edits are behaviour-preserving controls (they must not raise any alarm): keep one in seven
    noops = [m for m in muts if m["op"] == "noop"]
    drop = set(id(m) for k, m in enumerate(noops) if k % 7)
    muts = [m for m in muts if id(m) not in drop]
    for k, m in enumerate(muts):
        m["id"] = "m%04d" % k
    os.makedirs(OUT, exist_ok=True)
    json.dump(muts, open(os.path.join(OUT, "mutants.json"), "w"), indent=0)
    import collections
    print(len(muts), "mutants", dict(collections.Counter(m["file"] for m in muts)))


SIMPLE_STMT = re.compile(r"^(\s*)(?!let |return|break|continue|//|\}|\{|#)[A-Za-z_].*;\s*$")
SWAP_STMT = re.compile(r"^(\s*)(?!return|break|continue|//|\}|\{|#)[A-Za-z_].*;\s*$")


def gen2():
    """Second set: statement-level edits — swap two adjacent one-line statements, duplicate a
    one-line statement, drop a leading `!`, reverse an iterator, shift an enumerate index."""
    muts = []
    for f in FILES:
        lines = open(os.path.join("/repo", f)).read().split("\n")
        end = test_region_start(lines)
        for i, l in enumerate(lines[:end]):
            code = l.split("//")[0]
            m1 = SIMPLE_STMT.match(code)
            bal = code.count("(") == code.count(")") and code.count("{") == code.count("}")
            if m1 and bal:
                muts.append({"file": f, "line": i + 1, "op": "dup-stmt", "before": l, "after": l + "\n" + l})
            m1 = SWAP_STMT.match(code)
            if m1 and bal:
                if i + 1 < end:
                    n = lines[i + 1].split("//")[0]
                    m2 = SWAP_STMT.match(n)
                    if m2 and m2.group(1) == m1.group(1) and n.count("(") == n.count(")") and n.count("{") == n.count("}"):
                        muts.append({"file": f, "line": i + 1, "op": "swap-adjacent", "before": l, "after": lines[i + 1],
                                     "span": 2, "after_all": [lines[i + 1], l]})
            for m in re.finditer(r"(?<=[ (])!(?=[a-z_(])", code):
                muts.append({"file": f, "line": i + 1, "op": "drop-not", "before": l, "after": code[:m.start()] + code[m.end():]})
            for m in re.finditer(r"\.iter\(\)(?!\.rev)", code):
                muts.append({"file": f, "line": i + 1, "op": "iter->rev", "before": l, "after": code[:m.end()] + ".rev()" + code[m.end():]})
            for m in re.finditer(r"\.enumerate\(\)", code):
                muts.append({"file": f, "line": i + 1, "op": "enumerate->skip1", "before": l, "after": code[:m.end()] + ".skip(1)" + code[m.end():]})
            for m in re.finditer(r"\.clone\(\)", code):
                pass
    for k, m in enumerate(muts):
        m["id"] = "n%04d" % k
    json.dump(muts, open(os.path.join(OUT, "mutants2.json"), "w"), indent=0)
    import collections
    print(len(muts), "mutants", dict(collections.Counter(m["op"] for m in muts)))


def sh(cmd, cwd=None, timeout=1800, env=None):
    try:
        p = subprocess.run(cmd, shell=True, cwd=cwd, stdout=subprocess.PIPE, stderr=subprocess.STDOUT, text=True,
                           timeout=timeout, env=env)
        return p.returncode, p.stdout
    except subprocess.TimeoutExpired as e:
        return 124, (e.stdout or b"").decode("utf-8", "replace") if isinstance(e.stdout, bytes) else (e.stdout or "")


def setup_worker(k):
    w = os.path.join(SCRATCH, "w%d" % k)
    if os.path.exists(os.path.join(w, "READY")):
        return w
    sh("rm -rf %s; mkdir -p %s" % (w, w))
    sh("rsync -a --exclude target --exclude .git /repo/ %s/repo/" % w)
    sh("rsync -a --exclude .git --exclude .cache --exclude seeded --exclude harness/target --exclude replays %s/ %s/verif/" % (ROOT, w))
    ct = os.path.join(w, "verif", "harness", "Cargo.toml")
    t = open(ct).read().replace('path = "/repo"', 'path = "%s/repo"' % w)
    open(ct, "w").write(t)
    env = worker_env(w)
    rc, out = sh("cargo test --offline --workspace --no-run", cwd=w + "/repo", env=env)
    if rc != 0:
        raise RuntimeError("worker %d: repo does not build: %s" % (k, out[-400:]))
    rc, out = sh("tools/build.sh all", cwd=w + "/verif", env=env, timeout=3000)
    if rc != 0:
        raise RuntimeError("worker %d: verif does not build: %s" % (k, out[-400:]))
    open(os.path.join(w, "READY"), "w").write("1")
    return w


def worker_env(w):
    env = dict(os.environ)
    env.update({"CARGO_NET_OFFLINE": "true", "VERIF_REPO": w + "/repo", "VERIF_JOBS": "2", "CARGO_BUILD_JOBS": "3"})
    return env


def run_one(w, mut, only=None):
    env = worker_env(w)
    path = os.path.join(w, "repo", mut["file"])
    orig = open(path).read()
    lines = orig.split("\n")
    assert lines[mut["line"] - 1] == mut["before"], "source moved"
    lines[mut["line"] - 1] = mut["after"]
    for extra in range(1, mut.get("span", 1)):
        lines[mut["line"] - 1 + extra] = mut["after_all"][extra] if "after_all" in mut else ""
    res = {"id": mut["id"], "file": mut["file"], "line": mut["line"], "op": mut["op"],
           "before": mut["before"].strip(), "after": mut["after"].strip()}
    t0 = time.time()
    try:
        open(path, "w").write("\n".join(lines))
        rc, out = sh("cargo check --offline --lib --features codec", cwd=w + "/repo", env=env, timeout=600)
        if rc != 0:
            res["status"] = "nocompile"
            return res
        rc, out = sh("cargo test --offline --workspace --no-fail-fast", cwd=w + "/repo", env=env, timeout=900)
        if rc != 0:
            res["status"] = "timeout_in_tests" if rc == 124 else ("killed_by_tests" if "test result: FAILED" in out or "FAILED" in out else "nocompile")
            return res
        res["status"] = "survived_tests"
        checks = {}
        for p in (only or PROPS):
            rc, out = sh("./check %s" % p, cwd=w + "/verif", env=env, timeout=1500)
            line = [l for l in out.splitlines() if l.startswith(("VIOLATION", "OK"))]
            line = line[-1] if line else ("TIMEOUT" if rc == 124 else out.strip()[-160:])
            checks[p] = ("nfi" if "no-failing-input-found" in line else "replay" if line.startswith("VIOLATION")
                         else "ok" if line.startswith("OK") else "error:" + line[:120])
        res["checks"] = checks
        res["caught_by"] = [p for p, v in checks.items() if v != "ok"]
        return res
    finally:
        open(path, "w").write(orig)
        res["wall_s"] = round(time.time() - t0, 1)


def run(jobs, limit, only_ids=None, props=None):
    muts = json.load(open(os.path.join(OUT, "mutants.json")))
    if os.path.exists(os.path.join(OUT, "mutants2.json")):
        muts += json.load(open(os.path.join(OUT, "mutants2.json")))
    done = set()
    rp = os.path.join(OUT, "results.jsonl")
    if os.path.exists(rp):
        for l in open(rp):
            done.add(json.loads(l)["id"])
    todo = [m for m in muts if m["id"] not in done and (not only_ids or m["id"] in only_ids)]
    if limit:
        # spread over the files instead of taking the first K lines of semantic.rs
        import random
        random.Random(1).shuffle(todo)
        todo = todo[:limit]
    print("to run:", len(todo), "workers:", jobs, flush=True)
    with ThreadPoolExecutor(max_workers=jobs) as ex:
        ws = list(ex.map(setup_worker, range(jobs)))
    print("workers ready", flush=True)
    import queue
    q = queue.Queue()
    for m in todo:
        q.put(m)
    import threading
    lock = threading.Lock()

    def loop(w):
        while True:
            try:
                m = q.get_nowait()
            except queue.Empty:
                return
            try:
                r = run_one(w, m, props)
            except Exception as e:  # noqa: BLE001
                r = {"id": m["id"], "status": "error", "error": repr(e)[:300]}
            with lock:
                with open(rp, "a") as f:
                    f.write(json.dumps(r) + "\n")
                print(r["id"], r.get("status"), r.get("op"), r.get("file"), r.get("line"), r.get("caught_by", ""), flush=True)

    ts = [threading.Thread(target=loop, args=(w,)) for w in ws]
    for t in ts:
        t.start()
    for t in ts:
        t.join()


def run_seeds(jobs, names):
    """Regression over seeded/<name>/patch.diff in scratch copies: every mutant must still be reported
    with a concrete replay by every check that reported it so when it was recorded (meta.json), every
    refactoring by none.  Nothing is written back to meta.json."""
    import queue
    import threading
    sd = os.path.join(ROOT, "seeded")
    todo = []
    for n in names or sorted(os.listdir(sd)):
        mp, pp = os.path.join(sd, n, "meta.json"), os.path.join(sd, n, "patch.diff")
        if os.path.exists(mp) and os.path.exists(pp):
            todo.append((n, json.load(open(mp)), pp))
    with ThreadPoolExecutor(max_workers=jobs) as ex:
        ws = list(ex.map(setup_worker, range(jobs)))
    q = queue.Queue()
    for t in todo:
        q.put(t)
    lock = threading.Lock()
    bad = []

    def loop(w):
        env = worker_env(w)
        while True:
            try:
                n, meta, pp = q.get_nowait()
            except queue.Empty:
                return
            harmless = meta["breaks_property"].startswith("none")
            props = PROPS if harmless else [meta["breaks_property"]] + [p for p in meta.get("checks", {}) if p != meta["breaks_property"]]
            rc, out = sh("patch -p1 -s < %s" % pp, cwd=w + "/repo")
            res = {}
            try:
                if rc != 0:
                    res = {"patch": "does not apply"}
                else:
                    for p in props:
                        rc, o = sh("./check %s" % p, cwd=w + "/verif", env=env, timeout=1500)
                        line = [l for l in o.splitlines() if l.startswith(("VIOLATION", "OK"))]
                        line = line[-1] if line else o.strip()[-100:]
                        res[p] = ("violation (no-failing-input-found)" if "no-failing-input-found" in line else
                                  "violation with replay" if line.startswith("VIOLATION") else "ok" if line.startswith("OK") else "error: " + line)
            finally:
                sh("patch -p1 -R -s < %s" % pp, cwd=w + "/repo")
            if harmless:
                worse = [p for p, v in res.items() if v != "ok"]
            else:
                worse = [p for p, v in meta.get("checks", {}).items() if v == "violation with replay" and res.get(p) != v]
            with lock:
                print("%-14s %s%s" % (n, " ".join("%s=%s" % (p, v.replace("violation ", "").replace("with replay", "replay")
                                                               .replace("(no-failing-input-found)", "nfi")) for p, v in res.items())
                                      if not harmless else "refactoring: %d ok" % sum(1 for v in res.values() if v == "ok"),
                                      "   <-- WORSE: " + ",".join(worse) if worse else ""), flush=True)
                if worse:
                    bad.append(n)

    ts = [threading.Thread(target=loop, args=(w,)) for w in ws]
    for t in ts:
        t.start()
    for t in ts:
        t.join()
    print("seeded regression:", "all as recorded or better" if not bad else "CHECK %s" % sorted(bad))


def run_seedsweep(jobs, seeds):
    """No change applied: all 20 quick checks under other generator seeds, one seed per worker.
    Any VIOLATION here is a false alarm of the machinery."""
    import queue
    import threading
    with ThreadPoolExecutor(max_workers=jobs) as ex:
        ws = list(ex.map(setup_worker, range(jobs)))
    q = queue.Queue()
    for sd in seeds:
        q.put(sd)
    lock = threading.Lock()
    bad = []

    def loop(w):
        while True:
            try:
                sd = q.get_nowait()
            except queue.Empty:
                return
            env = worker_env(w)
            env["VERIF_SEED"] = str(sd)
            res = {}
            for p in PROPS:
                rc, o = sh("./check %s" % p, cwd=w + "/verif", env=env, timeout=1800)
                line = [l for l in o.splitlines() if l.startswith(("VIOLATION", "OK"))]
                res[p] = "ok" if line and line[-1].startswith("OK") else (line[-1] if line else o.strip()[-200:])
            notok = {p: v for p, v in res.items() if v != "ok"}
            with lock:
                print("seed %d: %d ok %s" % (sd, sum(1 for v in res.values() if v == "ok"), notok or ""), flush=True)
                if notok:
                    bad.append(sd)

    ts = [threading.Thread(target=loop, args=(w,)) for w in ws]
    for t in ts:
        t.start()
    for t in ts:
        t.join()
    print("seed sweep:", "no alarm on the unchanged tree" if not bad else "ALARMS under seeds %s" % bad)


def report():
    import collections
    rs = [json.loads(l) for l in open(os.path.join(OUT, "results.jsonl"))]
    tri = {}
    tp = os.path.join(OUT, "triage.json")
    if os.path.exists(tp):
        tri = json.load(open(tp))
    st = collections.Counter(r["status"] for r in rs)
    surv = [r for r in rs if r["status"] == "survived_tests"]
    caught = [r for r in surv if r["caught_by"]]
    missed = [r for r in surv if not r["caught_by"]]
    per = collections.Counter()
    rep = collections.Counter()
    for r in caught:
        for p in r["caught_by"]:
            per[p] += 1
            if r["checks"][p] == "replay":
                rep[p] += 1
    out = []
    out.append("mutants run: %d — %s" % (len(rs), ", ".join("%s %d" % kv for kv in sorted(st.items()))))
    out.append("survived the repository's tests: %d; reported by at least one check: %d; by none: %d" % (len(surv), len(caught), len(missed)))
    out.append("")
    out.append("| check | survivors it reports | with a concrete failing input |")
    out.append("|---|---|---|")
    for p in PROPS:
        out.append("| %s | %d | %d |" % (p, per[p], rep[p]))
    out.append("")
    out.append("Survivors no check reports (triage in seeded/campaign/triage.json):")
    out.append("")
    out.append("| id | where | edit | triage |")
    out.append("|---|---|---|---|")
    for r in missed:
        out.append("| %s | %s:%d | `%s` → `%s` | %s |" % (r["id"], r["file"], r["line"], r["before"][:70].replace("|", "\\|"),
                                                         r["after"][:70].replace("|", "\\|"), tri.get(r["id"], "untriaged")))
    text = "\n".join(out)
    open(os.path.join(OUT, "SUMMARY.md"), "w").write(text + "\n")
    print(text)


if __name__ == "__main__":
    a = sys.argv[1:]
    if a[0] == "gen":
        gen()
    elif a[0] == "gen2":
        gen2()
    elif a[0] == "run":
        j = int(a[a.index("-j") + 1]) if "-j" in a else 8
        lim = int(a[a.index("--limit") + 1]) if "--limit" in a else 0
        ids = set(a[a.index("--ids") + 1].split(",")) if "--ids" in a else None
        pr = a[a.index("--props") + 1].split(",") if "--props" in a else None
        run(j, lim, ids, pr)
    elif a[0] == "seeds":
        j = int(a[a.index("-j") + 1]) if "-j" in a else 8
        run_seeds(j, [x for x in a[1:] if not x.startswith("-") and not x.isdigit()])
    elif a[0] == "seedsweep":
        j = int(a[a.index("-j") + 1]) if "-j" in a else 8
        run_seedsweep(j, [int(x) for x in a[1:] if x.isdigit() and a[a.index(x) - 1] != "-j"])
    elif a[0] == "report":
        report()
