"""Comparison of an implementation output with a model output (both canonical S-expressions).

The model leaves the `value` of non-identifier error kinds unspecified (printed `_`): that
position is a wildcard.  Everything else must be equal.
"""
from sexp import parse


def eq_tree(impl, model):
    if isinstance(model, list):
        if not isinstance(impl, list) or len(impl) != len(model):
            return False
        if model and model[0] == "err":
            # (err KIND VALUE LINE OFF)
            for k in range(len(model)):
                if k == 2 and type(model[2]) is str and model[2] == "_":
                    continue
                if not eq_tree(impl[k], model[k]):
                    return False
            return True
        return all(eq_tree(a, b) for a, b in zip(impl, model))
    return type(impl) is type(model) and impl == model


def same_output(impl_line, model_line):
    if impl_line == model_line:
        return True
    if impl_line.startswith("(panic") and model_line.startswith("(panic"):
        return True
    try:
        return eq_tree(parse(impl_line), parse(model_line))
    except Exception:
        return False


def first_difference(impl, model, path="out"):
    """Human-readable location of the first difference between two parsed trees."""
    if isinstance(model, list) and isinstance(impl, list):
        if model and model[0] == "err" and len(model) == len(impl) and type(model[2]) is str and model[2] == "_":
            impl = impl[:2] + ["_"] + impl[3:]
        n = min(len(impl), len(model))
        for k in range(n):
            if not eq_tree(impl[k], model[k]):
                head = model[0] if model and isinstance(model[0], str) else "?"
                return first_difference(impl[k], model[k], "%s/%s[%d]" % (path, head, k))
        if len(impl) != len(model):
            return "%s: lengths differ (impl %d, model %d)" % (path, len(impl), len(model))
    return "%s: impl=%r model=%r" % (path, _short(impl), _short(model))


def _short(x):
    from sexp import ser
    s = ser(x)
    return s if len(s) < 160 else s[:160] + "..."
