#!/usr/bin/env python3
"""Prints the markdown table of seeded changes from seeded/*/meta.json (used in DESIGN.md §12)."""
import json
import os
import sys

ROOT = os.path.normpath(os.path.join(os.path.dirname(os.path.abspath(__file__)), ".."))


def main():
    rows = []
    d = os.path.join(ROOT, "seeded")
    for name in sorted(os.listdir(d)):
        mp = os.path.join(d, name, "meta.json")
        if not os.path.exists(mp):
            continue
        m = json.load(open(mp))
        ch = m.get("checks", {})
        replay = sorted(k for k, v in ch.items() if v == "violation with replay")
        tie = sorted(k for k, v in ch.items() if v.startswith("violation (no-"))
        ok = sorted(k for k, v in ch.items() if v == "ok")
        rows.append("| `%s` | %s | %s | %s | %s | %s |" % (
            name, m.get("breaks_property", "?"), m.get("needs_to_manifest", ""),
            " ".join(replay) or "—", " ".join(tie) or "—", " ".join(ok) or "—"))
    print("| seeded change | breaks | needs, to manifest | replay (concrete failing input) | tie (no-failing-input-found) | quiet |")
    print("|---|---|---|---|---|---|")
    print("\n".join(rows))


if __name__ == "__main__":
    main()
