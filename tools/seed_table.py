#!/usr/bin/env python3
"""Prints the markdown table of seeded changes from seeded/*/meta.json (used in DESIGN.md §12)."""
import json
import os
import sys

ROOT = os.path.normpath(os.path.join(os.path.dirname(os.path.abspath(__file__)), ".."))


def main():
    rows = []
    d = os.path.join(ROOT, "seeded")
    for name in sorted(os.listdir(d)):
        mp = os.path.join(d, name, "meta.json")
        if not os.path.exists(mp):
            continue
        m = json.load(open(mp))
        ch = m.get("checks", {})
        if m.get("breaks_property", "").startswith("none"):
            rows.append("| `%s` | — (harmless) | %s | — | — | all 20 |" % (name, m.get("needs_to_manifest", "")))
            continue
        replay = sorted(k for k, v in ch.items() if v == "violation with replay")
        tie = sorted(k for k, v in ch.items() if v.startswith("violation (no-"))
        ok = sorted(k for k, v in ch.items() if v == "ok")
        qp = m.get("quick_pipeline", {})
        mons = " ".join("%s:%d" % kv for kv in sorted(qp.get("programs_rejected_by_monitor_of", {}).items()))
        rows.append("| `%s` | %s | %s | %s | %s | %s |" % (
            name, m.get("breaks_property", "?"), m.get("needs_to_manifest", ""),
            " ".join(replay) or "—", " ".join(tie) or "—", mons or "—"))
    text = ("| seeded change | breaks | needs, to manifest | checks run: VIOLATION with a concrete replay | checks run: no-failing-input-found | programs (of the quick batch) rejected per property's monitor |\n"
            "|---|---|---|---|---|---|\n" + "\n".join(rows))
    if "--update" in sys.argv:
        # replace the table between the two markers of DESIGN.md in place
        dp = os.path.join(ROOT, "DESIGN.md")
        s = open(dp).read()
        b, e = "<!-- SEEDED_TABLE_BEGIN -->\n", "<!-- SEEDED_TABLE_END -->"
        i, j = s.index(b) + len(b), s.index(e)
        open(dp, "w").write(s[:i] + text + "\n" + s[j:])
        print("DESIGN.md: table of %d seeded changes updated" % len(rows))
    else:
        print(text)


if __name__ == "__main__":
    main()
