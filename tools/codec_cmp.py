"""Tree-level comparison of serde_json's output (implementation) with the Coq codec model's.

The model carries floats and chars opaquely (`{"$f32": bits}`, `{"$f64": bits}`, `{"$char": code}`);
the implementation's tree is normalised to the same form before comparing.  Objects are compared
as maps (the only place where order is unspecified is the HashMap of struct attributes).
The body mirror inside FunctionDeclaration is not modelled and is removed from the implementation
side; an error `value` that the model leaves unspecified (null) is a wildcard.
"""
import json
import struct


def _norm_impl(x):
    if isinstance(x, dict):
        t = x.get("type")
        if t in ("F32", "F64", "Char") and "content" in x and set(x) == {"type", "content"}:
            c = x["content"]
            if t == "F32" and isinstance(c, (int, float)):
                return {"type": t, "content": {"$f32": struct.unpack("<I", struct.pack("<f", float(c)))[0]}}
            if t == "F64" and isinstance(c, (int, float)):
                return {"type": t, "content": {"$f64": struct.unpack("<Q", struct.pack("<d", float(c)))[0]}}
            if t == "Char" and isinstance(c, str) and len(c) == 1:
                return {"type": t, "content": {"$char": ord(c)}}
        if t == "FunctionDeclaration" and isinstance(x.get("content"), dict) and "fn_decl" in x["content"]:
            fd = dict(x["content"]["fn_decl"])
            fd.pop("body", None)
            return {"type": t, "content": {"fn_decl": _norm_impl(fd)}}
        return {k: _norm_impl(v) for k, v in x.items()}
    if isinstance(x, list):
        return [_norm_impl(v) for v in x]
    return x


def _eq(impl, model, path):
    """None if equal, else a description of the first difference."""
    if isinstance(model, dict):
        if not isinstance(impl, dict):
            return "%s: impl is not an object" % path
        if set(model) != set(impl):
            return "%s: members differ (impl %s, model %s)" % (path, sorted(impl), sorted(model))
        if set(model) == {"kind", "value", "location"} and model["value"] is None:
            impl = dict(impl)
            impl["value"] = None
        for k in model:
            d = _eq(impl[k], model[k], path + "." + k)
            if d:
                return d
        return None
    if isinstance(model, list):
        if not isinstance(impl, list) or len(impl) != len(model):
            return "%s: array lengths differ" % path
        for k, (a, b) in enumerate(zip(impl, model)):
            d = _eq(a, b, "%s[%d]" % (path, k))
            if d:
                return d
        return None
    if type(impl) is not type(model) or impl != model:
        return "%s: impl=%r model=%r" % (path, impl, model)
    return None


def compare(impl_line, model_line):
    """Returns None when the two JSON trees agree, else a description."""
    try:
        a = _norm_impl(json.loads(impl_line))
        b = json.loads(model_line)
    except Exception as e:
        return "unreadable json: %s" % e
    if a.get("panic") or b.get("panic"):
        return None if a.get("panic") == b.get("panic") and _eq(a.get("ast"), b.get("ast"), "ast") is None else "panic status differs"
    for part in ("ast", "errors", "gstack", "stacks"):
        d = _eq(a.get(part), b.get(part), part)
        if d:
            return d
    return None
