#!/usr/bin/env python3
"""Regenerates MANIFEST.json from tools/props.py (claimed checks) and properties.jsonl."""
import json
import os
import sys

ROOT = os.path.normpath(os.path.join(os.path.dirname(os.path.abspath(__file__)), ".."))
sys.path.insert(0, os.path.join(ROOT, "tools"))
import props  # noqa: E402

NOT_YET = "theorem, projection and monitor for this property are not all green yet in this round; not claimed (the technique applies: see DESIGN.md §7)"


def main():
    ids = [json.loads(l)["id"] for l in open(os.path.join(ROOT, "properties.jsonl"))]
    checks = []
    for pid in ids:
        if pid not in props.PROPS:
            continue
        sp = props.PROPS[pid]
        checks.append({
            "property_id": pid,
            "quick_cmd": "./check %s --tier quick" % pid,
            "thorough_cmd": "./check %s --tier thorough" % pid,
            "evidence_file": "/verif/evidence/%s.json" % pid,
            "replay_cmd_template": "./check %s --replay {path}" % pid,
            "engine": "coq-model+correspondence",
            "level_claimed": {
                "category": "proof",
                "text": sp.get("level_text", "Coq theorem over the executable model of the analyzer, quantified over all programs; "
                               "the model is tied to /repo on every run by the regenerated tables, source lints and a "
                               "differential correspondence check through the property's projection; a verified boolean "
                               "monitor judges the implementation's own output"),
                "design_ref": sp.get("design_ref", "DESIGN.md §5, §7"),
            },
            "level_note": sp.get("level_note", "trusted: Coq kernel, extraction (ExtrOcamlBasic only), translator, harness/driver printers, generator reach; "
                                 "modelled rather than verified: the Rust code itself (see DESIGN.md §10)"),
            "technique": sp.get("technique", "machine-checked proof in Coq over a hand-written executable model + differential correspondence check"),
        })
    na = [{"property_id": pid, "reason": NOT_YET} for pid in ids if pid not in props.PROPS]
    m = {
        "version": 1,
        "setup_cmd": "tools/build.sh all",
        "hooks": {
            "guard": "mrlsd_semantic_analyzer_rs_verif",
            "enable": "no hooks are needed: every observed field of State / BlockState is public (RUSTFLAGS=\"--cfg mrlsd_semantic_analyzer_rs_verif\" is reserved and unused)",
            "baseline_off_cmd": "cd /repo && cargo test --workspace --no-fail-fast --offline",
            "source_commits": [],
            "add_only": True,
        },
        "engines": [{
            "name": "coq-model+correspondence",
            "path": "/verif/check",
            "serves_properties": [c["property_id"] for c in checks],
            "kind_free_text": "Coq 8.16 development (coq/), extracted model + monitors (ocaml/), Rust harness (harness/), generator and orchestration (tools/)",
        }],
        "checks": checks,
        "not_applicable": na,
        "notes": "fix: commits in /repo (F1 F3 F4 F6 F9 F10) are listed in known_findings.json as fixed; known findings F2 F5 F7 F8 are reported as KNOWN-FINDING lines",
    }
    with open(os.path.join(ROOT, "MANIFEST.json"), "w") as f:
        json.dump(m, f, indent=1)
        f.write("\n")
    print("MANIFEST.json: %d checks, %d not claimed" % (len(checks), len(na)))
    import subprocess
    rc = subprocess.run([sys.executable, os.path.join(ROOT, "tools", "check_project.py")]).returncode
    if rc != 0:
        print("WARNING: some cone files are not in coq/_CoqProject: a fresh build would miss them")


if __name__ == "__main__":
    main()
