"""Per-property registry: theorem file, projection, monitor, non-triviality rule, known classes."""
import hashlib
import json
import os
import re
import subprocess

from compare import eq_tree, first_difference
from sexp import parse, ser

ROOT = os.path.normpath(os.path.join(os.path.dirname(os.path.abspath(__file__)), ".."))
REPO = os.environ.get("VERIF_REPO", "/repo")

TRUSTED_BASE = [
    "Coq 8.16.1 kernel (coqc; coqchk in the thorough tier); vm_compute for Examples/witnesses; no native_compute",
    "axioms: none declared; Print Assumptions output of the property theorems is recorded in print_assumptions",
    "translator tools/gen_from_src.py (priority table, enums) re-run on every check",
    "extraction: Coq extraction plugin with ExtrOcamlBasic only (bool, option, unit, list, prod, sumbool, sumor native); no Extract Constant; OCaml 4.13.1 + zarith for boundary conversions in ocaml/driver.ml; cross-checked on every run: a numeric summary of run p computed by vm_compute inside Coq equals the extracted code's on sampled programs (extraction_crosscheck)",
    "correspondence: Rust harness (AST builder + canonical printer), OCaml driver (reader/printer), tools/compare.py; generator reach is measured, not trusted",
    "modelled, not verified: all Rust code of /repo; RefCell borrows, Rc identity, HashMap/HashSet internals, u64 wrap of the register counter, native stack, Debug/Display text inside non-identifier error values are not represented in the model",
]

DEFINING = ("ExpressionValue", "ExpressionConst", "ExpressionStructValue", "ExpressionOperation", "Call",
            "ConditionExpression", "LogicCondition", "Ext")
LABEL_INSTRS = ("SetLabel", "JumpTo", "IfConditionExpression", "IfConditionLogic")


# ------------------------------------------------------------------------------------------------
# projections (on parsed outputs)

def fns_of(t):
    return t[6][1:] if isinstance(t, list) and len(t) > 6 else []


def field(b, name):
    for e in b[1:]:
        if isinstance(e, list) and e and e[0] == name:
            return e
    return [name]


def root_ctx(b):
    return field(b, "ctx")[1:]


def canon_labels(ctxs):
    """Rename labels by first occurrence over a list of instruction lists."""
    m = {}

    def ren(l):
        if l not in m:
            m[l] = "L%d" % len(m)
        return m[l]

    out = []
    for ctx in ctxs:
        c2 = []
        for i in ctx:
            if i[0] in ("SetLabel", "JumpTo"):
                c2.append([i[0], ren(i[1])])
            elif i[0] == "IfConditionExpression":
                c2.append([i[0], i[1], ren(i[2]), ren(i[3])])
            elif i[0] == "IfConditionLogic":
                c2.append([i[0], ren(i[1]), ren(i[2]), i[3]])
            else:
                c2.append(i)
        out.append(c2)
    return out


def def_reg(i):
    k = i[0]
    if k in DEFINING:
        return i[-1]
    return None


def p_panic(t):
    return [t[0] == "panic"]


def p_errors(t):
    return t[1] if t[0] == "out" else t


def p_verdict(t):
    return [t[0], len(t[1]) == 1] if t[0] == "out" else t


def p_first_error(t):
    if t[0] != "out":
        return t
    return t[1][1] if len(t[1]) > 1 else ["no-error"]


def p_globals(t):
    return [t[2], t[3], t[4], t[5], len(fns_of(t))] if t[0] == "out" else t


def p_defs(t):
    if t[0] != "out":
        return t
    return [[def_reg(i) for i in root_ctx(b) if def_reg(i) is not None] + [field(b, "reg")] for b in fns_of(t)]


def p_stacks(t):
    if t[0] != "out":
        return t
    return [canon_labels([root_ctx(b)])[0] for b in fns_of(t)]


def p_stacks_verdict(t):
    if t[0] != "out":
        return t
    return [len(t[1]) == 1, p_stacks(t)]


def p_labels(t):
    if t[0] != "out":
        return t
    return [[i for i in c if i[0] in LABEL_INSTRS] for c in p_stacks(t)]


def p_names(t):
    if t[0] != "out":
        return t
    keep = ("FunctionArg", "LetBinding", "ExpressionValue", "ExpressionStructValue", "Binding")
    return [[i for i in root_ctx(b) if i[0] in keep] for b in fns_of(t)]


def p_returns(t):
    if t[0] != "out":
        return t
    keep = ("ExpressionFunctionReturn", "ExpressionFunctionReturnWithLabel", "JumpFunctionReturn")
    return [len(t[1]) == 1] + [[(k, i[0]) for k, i in enumerate(root_ctx(b)) if i[0] in keep] + [len(root_ctx(b))]
                               for b in fns_of(t)]


def p_tree(t):
    if t[0] != "out":
        return t

    def blk(b):
        return [field(b, "values"), field(b, "parent-ok"), canon_labels([root_ctx(b)])[0],
                [blk(c) for c in field(b, "children")[1:]]]
    return [blk(b) for b in fns_of(t)]


def p_full(t):
    return t


PROJ = {"panic": p_panic, "errors": p_errors, "verdict": p_verdict, "first_error": p_first_error,
        "globals": p_globals, "defs": p_defs, "stacks": p_stacks, "stacks_verdict": p_stacks_verdict,
        "labels": p_labels, "names": p_names, "returns": p_returns, "tree": p_tree, "full": p_full}


# ------------------------------------------------------------------------------------------------
# non-triviality rules (cheap, on the implementation's output text)

def nt_blocks_regs(prog, out, monline=""):
    return out.count("(block ") - out.count("(fns (block") * 0 >= 2 and sum(out.count("(" + k + " ") for k in DEFINING) >= 3


PROPS = {
    "C09": dict(
        title="Result registers are fresh and strictly increasing within a function",
        projection="defs",
        monitor="C09",
        domain="all",
        rule="corpus + generated programs (streams wf / fault / free / known, one PRNG); a case is non-trivial "
             "when the implementation's output has at least two blocks and at least three register-defining "
             "instructions; distinct = distinct program texts",
        nontrivial=nt_blocks_regs,
        assumptions=["the analysis of the program terminates without panic (C13)",
                     "register counter modelled as unbounded N (2^64 allocations needed to wrap)"],
    ),
}


def nt_c07(prog, out, monline=""):
    from verif import mon_field
    j = mon_field(monline, "j07")
    return out.startswith("(out (errors) ") and j is not None and int(j) > 0


PUBLISHED_PRIO = {"Multiply": 9, "ShiftLeft": 9, "ShiftRight": 9, "Divide": 8, "And": 7, "Eq": 7, "NotEq": 7, "Great": 7,
                  "Less": 7, "GreatEq": 7, "LessEq": 7, "Or": 6, "Xor": 6, "Plus": 5, "Minus": 4}


def _published_tree(e):
    """The tree of a source chain (expr VAL (OP VAL)...) over extension leaves and brackets under the
    PUBLISHED table of DESIGN.md 3.3 (written here independently of Coq and of /repo: precedence
    climbing, equal priorities associate to the left); None when a leaf is of another kind."""
    def leaf(v):
        if v[0] == "ext":
            return ("L", int(v[2]))
        if v[0] == "sub":
            return _published_tree(v[1])
        return None
    vals = [leaf(e[1])] + [leaf(l[1]) for l in e[2:]]
    ops = [l[0] for l in e[2:]]
    if any(v is None for v in vals):
        return None
    pos = [0]

    def climb(minp):
        left = vals[pos[0]]
        while pos[0] < len(ops) and PUBLISHED_PRIO[ops[pos[0]]] >= minp:
            op = ops[pos[0]]
            pos[0] += 1
            right = climb(PUBLISHED_PRIO[op] + 1)
            left = ("N", op, left, right)
        return left
    return climb(0)


def extra_C07(prog, impl, monline):
    """Independent of the model: for every let whose initialiser is a chain of extension leaves and
    brackets, the tree read back from the implementation's root stack must be the tree of the
    PUBLISHED priority table."""
    if not impl.startswith("(out (errors) ") or "(ext " not in prog:
        return None
    try:
        tp, ti = parse(prog), parse(impl)
        fns = [t for t in tp[1:] if t[0] == "fn"]
        roots = fns_of(ti)
        for f, root in zip(fns, roots):
            lets = [s for s in f[4][1:] if s[0] == "let"]
            want = [_published_tree(s[4]) for s in lets]
            ctx = [x for x in root[1:] if isinstance(x, list) and x and x[0] == "ctx"][0][1:]
            env, got = {}, []
            for ins in ctx:
                if ins[0] == "Ext":
                    env[int(ins[2])] = ("L", int(ins[1]))
                elif ins[0] == "ExpressionOperation":
                    def opnd(r):
                        return env.get(int(r[2][1])) if isinstance(r[2], list) and r[2][0] == "reg" else None
                    l, rr = opnd(ins[2]), opnd(ins[3])
                    env[int(ins[4])] = ("N", ins[1], l, rr) if l is not None and rr is not None else None
                elif ins[0] == "LetBinding":
                    r = ins[2]
                    got.append(env.get(int(r[2][1])) if isinstance(r[2], list) and r[2][0] == "reg" else None)
            if len(got) != len(want):
                continue
            for k, (w, g) in enumerate(zip(want, got)):
                if w is not None and w[0] == "N" and g != w:
                    return "C07: let #%d: the emitted operations read back as a tree are not the tree of the published priority table" % k
    except Exception:
        return None
    return None


PROPS["C07"] = dict(
    title="Operator chains are bracketed by the documented priority table",
    projection="stacks_verdict",
    extra_files=["C07b", "C07c", "C07p"],
    extra_check=extra_C07,
    monitors=[("C07", "accepted"), ("C07s", "accepted_wf")],
    domain="accepted",
    rule="every accepted well-formed program: at every use site (let, assignment, call argument, return, condition sides) "
         "the shape of the tree read back from the stack is the shape of the source expression bracketed by Spec/Bracket "
         "(chk_C07_shape; with C06 the tree itself); and corpus + generated programs + the chain stream (functions whose lets are operator chains over extension "
         "leaves: all priority-class chains up to the tier's length bound, random longer ones); non-trivial = accepted "
         "program with at least one let initialiser of >= 2 operators whose leaves are extension leaves or bracketed "
         "chains of them (the monitor then reads the emitted operations back as a tree and compares it with the "
         "independently computed well-bracketed tree); distinct = distinct program texts",
    nontrivial=nt_c07,
    assumptions=["priority table and MAX level are regenerated from /repo/src/ast.rs on every run (coq/Gen/Priority.v)",
                 "run_emitted_tree_is_bracket: on accepted runs the emitted operations, read back through their register "
                 "operands, are the independently computed well-bracketed tree (the model always passes chk_C07)",
                 "run_emitted_shape_is_bracket: the same for every leaf kind and every statement position (chk_C07_shape)"],
)


def nt_c12(prog, out, monline=""):
    return out.count("(LetBinding ") + out.count("(FunctionArg ") >= 3 and out.count("(block ") >= 2


PROPS["C12"] = dict(
    title="Internal value names are unique per function and stable at every use",
    projection="names",
    monitor="C12",
    domain="all",
    rule="corpus + generated programs; identifiers come from a 14-name pool with dotted and numerically suffixed "
         "names (x, x.0, x.1, a.b.c, '.', '', y.007, z.+5 ...) to force collisions; non-trivial = the implementation's "
         "output declares at least three values (parameters + lets) and has at least two blocks; distinct = distinct program texts",
    nontrivial=nt_c12,
    assumptions=["the analysis of the program terminates without panic (C13)"],
)


def extra_C15(prog, impl, monline):
    # the harness prints ... 0) when the body mirror of a FunctionDeclaration instruction, printed from
    # the semantic types, is not the source text of a function of the program (harness/src/mirror.rs)
    for m in re.finditer(r"\(FunctionDeclaration ", impl):
        depth, j = 0, m.start()
        while j < len(impl):
            if impl[j] == "(":
                depth += 1
            elif impl[j] == ")":
                depth -= 1
                if depth == 0:
                    break
            j += 1
        if impl[j - 2:j] == " 0":
            return "C15: the body recorded in a FunctionDeclaration instruction is not the declared function's"
    return None


PROPS["C15"] = dict(
    extra_check=extra_C15,
    title="Global symbol tables match the declarations; first declaration wins",
    projection="globals",
    monitor="C15",
    domain="all",
    rule="corpus + generated programs incl. duplicate names and declarations that fail their checks; non-trivial = at "
         "least three top-level declarations and either a duplicate-name or type-not-found diagnostic or >= 2 registered "
         "kinds of entities; distinct = distinct program texts",
    nontrivial=lambda prog, out, monline="": out.count("(FunctionDeclaration ") + out.count("(Constant (") + out.count("(Types (") >= 3,
    assumptions=["the body mirror inside FunctionDeclaration instructions is not in the Coq model: the harness prints it from the semantic types and compares it with the function's source text printed independently (body-ok flag)"],
)


def _fn_names(tree):
    return [str(t[1][1]) for t in tree[1:] if t[0] == "fn"]


def _errs(t):
    return [ser(e) for e in t[1][1:]]


def cross_C16(run):
    """Implementation outputs of a program and of its permutations (constants keep their order)."""
    alarms, pairs, exhaustive_bases = [], 0, set()
    for i, m in enumerate(run.metas):
        if m.get("stream") != "perm":
            continue
        b = m["base"]
        ob, oq = run.impl[b], run.impl[i]
        if not ob.startswith("(out") or not oq.startswith("(out"):
            continue        # a run that panicked or produced nothing is C13's (or the pipeline's) business
        tb, tq = parse(ob), parse(oq)
        pb, pq = parse(run.programs[b]), parse(run.programs[i])
        pairs += 1
        if m.get("all"):
            exhaustive_bases.add(b)
        why = None
        if (len(tb[1]) == 1) != (len(tq[1]) == 1):
            why = "verdict differs"
        elif sorted(_errs(tb)) != sorted(_errs(tq)):
            why = "error multisets differ"
        elif tb[2] != tq[2] or tb[3] != tq[3] or tb[4] != tq[4]:
            why = "global tables differ"
        else:
            fb = dict(zip(_fn_names(pb), fns_of(tb)))
            fq = dict(zip(_fn_names(pq), fns_of(tq)))
            for name in fb:
                if fb[name] != fq.get(name):
                    why = "stack / block tree of function %s differs" % name
                    break
        if why:
            alarms.append((i, "C16: permutation of program #%d: %s" % (b, why)))
    return alarms, {"pairs": pairs, "bases_with_all_permutations": len(exhaustive_bases)}


def _split_stub_errors(errs):
    """errors of v_0 = D ++ S_1 ++ ... ++ S_n, S_j = ArgDup* ++ [ValueNotFound __stub_j; ReturnNotFound]."""
    marks = [k for k, e in enumerate(errs) if e[1] == "ValueNotFound" and str(e[2]).startswith("__stub_")]
    segs = []
    for k in marks:
        st = k
        while st > 0 and errs[st - 1][1] == "FunctionArgumentNameDuplicated" and (not segs or st - 1 >= segs[-1][1]):
            st -= 1
        segs.append((st, k + 2))
    return segs


def cross_C17(run):
    """Every function analysed next to stub bodies: same root block; the program's error list is the
    declaration errors followed by each function's own body errors in source order."""
    alarms, groups = [], 0
    by_base = {}
    for i, m in enumerate(run.metas):
        if m.get("stream") == "stub":
            by_base.setdefault(m["base"], {})[m["keep"]] = i
    for b, var in by_base.items():
        outs = [run.impl[b]] + [run.impl[i] for i in var.values()]
        if any(not o.startswith("(out") for o in outs) or None not in var:
            continue
        groups += 1
        tb = parse(run.impl[b])
        t0 = parse(run.impl[var[None]])
        e0 = t0[1][1:]
        segs = _split_stub_errors(e0)
        nfn = len(fns_of(tb))
        why = None
        if len(segs) != nfn:
            continue  # stub markers not all present (e.g. a parameter named like the marker): not judged
        D = e0[:segs[0][0]] if segs else e0
        bodies = []
        for j in range(nfn):
            if j not in var:
                why = "variant %d missing" % j
                break
            tj = parse(run.impl[var[j]])
            ej = tj[1][1:]
            pre = e0[:segs[j][0]]
            post = e0[segs[j][1]:]
            if ej[:len(pre)] != pre or (post and ej[len(ej) - len(post):] != post) or len(ej) < len(pre) + len(post):
                why = "errors of the other (stub) bodies changed when function %d got its real body" % j
                break
            bodies.append(ej[len(pre):len(ej) - len(post)])
            if fns_of(tj)[j] != fns_of(tb)[j]:
                why = "stack / block tree of function %d depends on the other bodies" % j
                break
            if tj[2] != tb[2] or tj[3] != tb[3] or tj[4] != tb[4] or tj[5] != tb[5]:
                why = "global declarations depend on a body"
                break
        if not why:
            expect = D + [e for bsegs in bodies for e in bsegs]
            if expect != tb[1][1:]:
                why = "error list is not declaration errors ++ per-function body errors in source order"
        if why:
            alarms.append((b, "C17: " + why))
    return alarms, {"groups": groups}


PROPS["C16"] = dict(
    title="Results do not depend on the textual order of top-level declarations",
    projection="full",
    monitor=None,
    cross=cross_C16,
    domain="all",
    rule="programs without duplicate struct/constant/function names, each paired with permutations of its top-level "
         "statements that keep the constants' relative order (sampled; all permutations for programs with <= 5 statements "
         "in the thorough tier); the implementation's outputs are compared pairwise (verdict, error multiset, tables, every "
         "function's stack and block tree); non-trivial = a compared pair; distinct = distinct permuted program texts",
    nontrivial=lambda prog, out, monline="": False,
    assumptions=["C16's theorem relates two ROk runs of the model; panicking runs are not related across reorderings"],
)

PROPS["C17"] = dict(
    title="Each function body is analysed independently of the other bodies",
    projection="full",
    monitor=None,
    cross=cross_C17,
    domain="all",
    rule="programs with 2..5 functions, each run as is, with all bodies replaced by a marker stub, and with all bodies "
         "but one replaced; the implementation's outputs must show the same root block for the kept function and the "
         "error list must split as declaration errors ++ per-function body errors; non-trivial = one such group; "
         "distinct = distinct base programs",
    nontrivial=lambda prog, out, monline="": False,
    assumptions=["source lints: errors only appended through add_error, globals mutated only by the declaration passes"],
)


def stage_C20(run):
    """Real round trips on the implementation (harness `codec` mode) and tree-level comparison of
    serde_json's trees with the Coq codec model's (`json` mode on both sides)."""
    import json as _json
    from verif import run_side, HARNESS, MODEL
    from codec_cmp import compare
    idx = [i for i, m in enumerate(run.metas) if m.get("stream") not in ("perm", "stub")]
    d = run.dir
    done = os.path.join(d, "DONE-codec.json")
    if os.path.exists(done):
        saved = _json.load(open(done))
    else:
        inp = os.path.join(d, "codec.sexp")
        with open(inp, "w") as f:
            f.write("\n".join(run.programs[i] for i in idx) + "\n")
        problems = []
        for binary, mode, ext in ((HARNESS, "codec", ".rt"), (HARNESS, "json", ".jimpl"), (MODEL, "json", ".jmodel")):
            rc, out = run_side(binary, mode, inp, os.path.join(d, "codec" + ext))
            if rc != 0:
                problems.append("%s %s rc=%d %s" % (os.path.basename(binary), mode, rc, out[-200:]))

        def rd(ext):
            try:
                return open(os.path.join(d, "codec" + ext)).read().splitlines()
            except OSError:
                return []
        saved = {"rt": rd(".rt"), "jimpl": rd(".jimpl"), "jmodel": rd(".jmodel"), "problems": problems}
        with open(done, "w") as f:
            _json.dump(saved, f)
    alarms, disagreements, where = [], [], ""
    nt = 0
    for k, i in enumerate(idx):
        rt = saved["rt"][k] if k < len(saved["rt"]) else "(missing)"
        if rt != "(codec ok)":
            alarms.append((i, "C20: real serde round trip failed: " + rt))
        a = saved["jimpl"][k] if k < len(saved["jimpl"]) else ""
        b = saved["jmodel"][k] if k < len(saved["jmodel"]) else ""
        dsc = compare(a, b)
        if dsc:
            disagreements.append(i)
            where = where or dsc
        if len(a) > 1500:
            nt += 1
    return alarms, disagreements, where, {"round_trips": len(idx), "tree_comparisons": len(idx),
                                          "tree_disagreements": len(disagreements), "nontrivial": nt,
                                          "problems": saved.get("problems", [])}


PROPS["C20"] = dict(
    title="Serialised ASTs and instruction stacks round-trip exactly",
    projection="full",
    monitor=None,
    stage=stage_C20,
    domain="all",
    rule="every corpus / generated program (finite float literals only): (1) on the implementation, serde_json "
         "to_string -> from_str -> equality, text idempotence, equal analysis, for the AST, every block's stack, the global "
         "stack and the error list; (2) serde_json's trees compared with the Coq codec model's enc_* trees; non-trivial = "
         "serialised form longer than 1500 bytes; distinct = distinct program texts",
    nontrivial=lambda prog, out, monline="": len(out) > 1500,
    level_text="Coq theorems dec (enc x) = Some x for every codec type at the JSON-tree level (all values, no size bound) and "
               "analysis-after-round-trip by congruence; the tree-level model is tied to serde_json by comparing trees on "
               "every generated program; the real text-level round trip is run on the implementation. PARTIAL: serde_json's "
               "text layer (number/float formatting, string escaping) is outside the theorem.",
    assumptions=["text layer of serde_json not modelled (floats and chars carried as opaque bit patterns / code points)",
                 "HashMap attribute order abstracted: objects compared as maps",
                 "body mirror inside FunctionDeclaration not modelled"],
)


def nt_control(prog, out, monline=""):
    return out.count("(SetLabel ") >= 4


PROPS["C10"] = dict(
    title="Labels are set once and every jump target exists",
    projection="labels",
    extra_files=["C10b"],
    monitors=[("C10u", "all"), ("C10r", "all")],
    domain="all",
    rule="corpus + generated programs with nested and sibling if / else-if / loop constructs; uniqueness is judged on every "
         "output, resolution on accepted ones; non-trivial = at least four labels set in the implementation's output; "
         "distinct = distinct program texts",
    nontrivial=nt_control,
    level_text="Coq theorems over the model for ALL programs: no label is set twice in a function's stack (run_labels_unique) "
               "and every label named by a jump or conditional is registered, i.e. was produced by the label generator "
               "(run_targets_registered). and every named target is SET in that stack (run_targets_resolved), "
               "hence set exactly once; both exact monitors judge the implementation's outputs.",
    assumptions=["the analysis of the program terminates without panic (C13)"],
)

PROPS["C11"] = dict(
    title="Each accepted function ends in one return of the right form",
    projection="returns",
    extra_files=["C11b"],
    monitors=[("C11", "all")],
    domain="accepted_wf",
    rule="accepted programs with returns nested at any depth in if / else-if / else / loop bodies; non-trivial = the "
         "implementation's output contains a JumpFunctionReturn; distinct = distinct program texts",
    nontrivial=lambda prog, out, monline="": out.startswith("(out (errors) ") and "(JumpFunctionReturn " in out,
    level_text="Coq theorems over the model for ALL programs: in every function stack a with-label return is preceded by a "
               "jump-to-return and a plain return by none, and the block's flag equals 'a jump-to-return occurred' "
               "(run_return_form); functions without nested blocks never emit a jump-to-return; and for ACCEPTED programs "
               "the stack ends with exactly one function-return instruction, contains no other one, and has exactly one "
               "jump-to-return per nested return statement of the source (run_single_return: the model always passes the exact "
               "monitor chk_C11, which judges the implementation's outputs).",
    assumptions=["the analysis of the program terminates without panic (C13)"],
)


def extra_C18(prog, impl, monline):
    if "(parent-ok 0)" in impl:
        return "C18: a child's parent link is not the block that lists it"
    return None


PROPS["C18"] = dict(
    title="The block-state tree mirrors the source nesting",
    projection="tree",
    extra_files=["C18b"],
    monitors=[("C18", "all"), ("C18v", "accepted_wf")],
    extra_check=extra_C18,
    domain="all",
    rule="corpus + generated programs with nested blocks; the monitor checks tree shape against the source and the "
         "subsequence relation of every block's stack to its parent's; parent links are checked by the harness with "
         "Rc::ptr_eq; non-trivial = at least three blocks in the implementation's output; distinct = distinct program texts",
    nontrivial=lambda prog, out, monline="": out.count("(block ") >= 3,
    level_text="Coq theorems over the model for ALL programs: the tree of blocks has exactly the shape of the source nesting "
               "(else-if blocks are siblings; an else wins over an else-if), every block's stack is an order-preserving "
               "subsequence of its parent's and of the root's. For ACCEPTED programs each block's value table holds exactly "
               "the names declared directly in it (parameters in the root), each bound to its latest declaration "
               "(run_value_tables). Parent links are positional in the model (a tree has no back pointers); on the implementation "
               "they are checked with Rc::ptr_eq by the harness for every block.",
    assumptions=["parent links: positional in the model, Rc::ptr_eq in the harness"],
)


def known_C01(prog, impl, monline, mname):
    """C01 intended fails while the quirk version holds: inside K_F2 u K_F8 (recorded findings)."""
    from verif import mon_field
    if mname != "C01":
        return None
    if mon_field(monline, "C01q") != "1":
        return None
    iv = mon_field(monline, "iv")
    if iv == "FunctionParameterTypeWrong":
        return "F2: a call with fewer arguments than declared parameters is accepted (class K_F2; witness corpus/F2_too_few_arguments.sexp)"
    if iv == "ConstantNotFound":
        return "F8: unchecked constant reference in a constant's value expression (head position / after a literal) is accepted (class K_F8; witness corpus/F8_const_reference.sexp)"
    return None


PENDING = {}
PENDING["C01"] = dict(
    extra_files=["C07p"],
    title="An accepted program is well-formed (no ill-formed program passes)",
    projection="verdict",
    monitors=[("C01q", "all"), ("C01", "all")],
    known_class=known_C01,
    domain="all",
    rule="corpus + generated programs; the single-fault stream breaks one rule of the rule set at one applicable site of a "
         "well-formed program (19 rule classes); the free stream is mostly ill-formed; non-trivial = a rejected-by-the-spec "
         "program (the implication has content exactly there) ; distinct = distinct program texts",
    nontrivial=lambda prog, out, monline="": " wf:0" in monline,
    level_text="Coq theorem over the model: for every program on which the analysis terminates, an empty error list implies that "
               "the independent rule checker (Spec/FirstViolation, intended rule set) admits the program, or the program lies in "
               "the decidable classes K_F2 / K_F8 of the two recorded findings (with refutation witnesses proved by computation); "
               "the verified monitor chk_C01_quirk judges the implementation's own verdict on every generated program.",
    assumptions=["rule set = DESIGN.md §3.1 as formalised in coq/Spec/FirstViolation.v"],
)
PENDING["C02"] = dict(
    extra_files=["C07p"],
    title="A well-formed program is accepted (no spurious errors)",
    projection="verdict",
    monitors=[("C02", "all")],
    domain="all",
    rule="corpus + generated programs; the wf stream is type-directed and is independently confirmed well-formed by the Coq "
         "rule checker wf_b (fraction reported in monitor.wf_confirmed); non-trivial = a program the rule checker admits with "
         "at least two blocks; distinct = distinct program texts",
    nontrivial=lambda prog, out, monline="": " wf:1" in monline and out.count("(block ") >= 2,
    assumptions=["rule set = DESIGN.md §3.1 as formalised in coq/Spec/FirstViolation.v"],
)
PENDING["C14"] = dict(
    extra_files=["C07p"],
    title="The first reported error is the first violated rule, with kind and name",
    projection="first_error",
    monitors=[("C14", "all")],
    domain="all",
    rule="corpus + generated programs; single-fault stream: one fault per rule class x site; non-trivial = a rejected program "
         "(first error compared with the independent first-violation checker: kind, location, and identifier where the kind "
         "names one); distinct = distinct program texts",
    nontrivial=lambda prog, out, monline="": not out.startswith("(out (errors) ") and not out.startswith("(panic"),
    assumptions=["diagnostics order and identifier-naming kinds = DESIGN.md §3.2 as formalised in coq/Spec/FirstViolation.v"],
)


def known_C08(prog, impl, monline, mname):
    from verif import mon_field
    if mname == "C08i" and mon_field(monline, "C08q") == "1":
        return "F7: a call / struct-field read used as an operand names register n+1 while the instruction wrote n (class K_F7; witness corpus/F7_call_operand.sexp)"
    return None


def stage_C08(run):
    """Instructions pushed by an extension that READ a register (C08's quantifier names them): the
    harness's `extuse` mode analyses three fixed programs with a second extension whose instruction
    has an operand and checks def-before-use on the function stacks directly (harness/src/extuse.rs)."""
    from verif import HARNESS
    out_json = os.path.join(run.dir, "extuse.json")
    if os.path.exists(out_json):
        line = json.load(open(out_json))["line"]
    else:
        try:
            p = subprocess.run([HARNESS, "extuse"], stdout=subprocess.PIPE, stderr=subprocess.STDOUT, text=True, timeout=120)
            line = (p.stdout.strip().splitlines() or ["(extuse fail \"no output\")"])[-1]
        except Exception as e:  # noqa: BLE001
            line = "(extuse fail \"%s\")" % str(e)[:100]
        json.dump({"line": line}, open(out_json, "w"))
    alarms = []
    if not line.startswith("(extuse ok"):
        alarms.append((0, "C08: an instruction pushed by an extension reads a register that no earlier instruction of the "
                          "function stack wrote (fixed programs of harness/src/extuse.rs, not the program below): " + line[:300]))
    return alarms, [], "", {"extension_operand_programs": line}


def stage_C19(run):
    """Extension instructions that can be EQUAL (C19: "appear at that position in the block's stack
    and in every ancestor's stack"): the correspondence check's extension pushes an instruction that
    carries its fresh register, so no two are equal.  The harness's `exttag` mode analyses 18 fixed
    programs with a third extension whose instruction carries only a tag — two leaves back to back
    (operands of one operator, neighbouring arguments, sides of a comparison) at block depth 0, 1, 2
    with different and with equal tags — and checks every block's stack directly
    (harness/src/exttag.rs)."""
    from verif import HARNESS
    out_json = os.path.join(run.dir, "exttag.json")
    if os.path.exists(out_json):
        line = json.load(open(out_json))["line"]
    else:
        try:
            p = subprocess.run([HARNESS, "exttag"], stdout=subprocess.PIPE, stderr=subprocess.STDOUT, text=True, timeout=120)
            line = (p.stdout.strip().splitlines() or ["(exttag fail \"no output\")"])[-1]
        except Exception as e:  # noqa: BLE001
            line = "(exttag fail \"%s\")" % str(e)[:100]
        json.dump({"line": line}, open(out_json, "w"))
    alarms = []
    if not line.startswith("(exttag ok"):
        alarms.append((0, "C19: an instruction pushed by an extension is missing from (or misplaced in) a block's or an ancestor's "
                          "stack (fixed programs of harness/src/exttag.rs, not the program below): " + line[:300]))
    return alarms, [], "", {"equal_extension_instruction_programs": line}


PENDING["C08"] = dict(
    stage=stage_C08,
    title="Every register that is read has been written earlier in the same function",
    projection="stacks",
    extra_files=["C08b"],
    monitors=[("C08q", "accepted_wf"), ("C08i", "accepted_wf")],
    known_class=known_C08,
    domain="accepted_wf",
    rule="accepted, well-formed programs; def-use scan of every operand, logic input and conditional subject of the "
         "implementation's root stacks; non-trivial = at least six register reads; distinct = distinct program texts",
    nontrivial=lambda prog, out, monline="": out.count("(reg ") >= 6,
    assumptions=["F7 is a recorded finding: the quirk monitor accepts exactly the call / field-read shape"],
)


def known_C05(prog, impl, monline, mname):
    from verif import mon_field
    if mname == "C05i" and mon_field(monline, "C05q") == "1":
        return "F5: an if nested in an if/else/else-if body reuses the outermost end label, statements after it are skipped (class K_F5; witness corpus/F5_nested_if.sexp)"
    return None


PENDING["C05"] = dict(
    title="The instruction stack preserves the program's control flow",
    projection="stacks",
    extra_files=["C05b", "C05c", "C05d", "C05e", "C05f", "C05g"],
    monitors=[("C05q", "accepted_wf"), ("C05i", "accepted_wf"), ("C10r", "accepted_wf"), ("C05v", "accepted_wf")],
    known_class=known_C05,
    domain="accepted_wf",
    rule="accepted, well-formed programs; flat execution of the implementation's root stack against structured execution of "
         "the source for ALL 2^k outcome strings (k = 6 quick, 10 thorough) with a step budget; non-trivial = at least two "
         "conditional instructions and one loop or else part; distinct = distinct program texts",
    nontrivial=lambda prog, out, monline="": out.count("(IfCondition") >= 2 and ("loop_begin" in out or "if_else" in out),
    assumptions=["F5 is a recorded finding: the quirk semantics describes it exactly; the monitor is bounded in outcome-string length"],
)


def extra_C13(prog, impl, monline):
    from verif import mon_field
    if impl.startswith("(panic") and mon_field(monline, "dom13") == "1":
        return "C13: the implementation panicked on a program of the domain"
    if impl.startswith("(missing"):
        return "C13: the implementation produced no output for this program (crash or timeout)"
    return None


def stage_C13(run):
    """Runtime behaviours the functional model cannot exhibit: the harness is run under Miri
    (undefined behaviour, invalid borrows of the unsafe Ident constructor, out-of-bounds) on a few small
    programs, and its output must equal the native build's.  Leaks are ignored: the parent/children
    Rc cycle of BlockState leaks by design."""
    import json as _json
    from verif import sh, CACHE, ROOT as VROOT
    n = 150 if run.tier == "thorough" else 14
    out_json = os.path.join(run.dir, "miri-%d.json" % n)
    if os.path.exists(out_json):
        saved = _json.load(open(out_json))
    else:
        idx = [i for i, p in enumerate(run.programs) if len(p) < 1800 and not run.impl[i].startswith("(missing")][:n]
        inp, outp = os.path.join(run.dir, "miri.sexp"), os.path.join(run.dir, "miri.out")
        with open(inp, "w") as f:
            f.write("\n".join(run.programs[i] for i in idx) + "\n")
        rc, log = sh("cd %s/harness && (MIRIFLAGS='-Zmiri-disable-isolation -Zmiri-ignore-leaks' CARGO_TARGET_DIR=%s/miri-target "
                     "timeout 2400 cargo +nightly miri run --offline -- run %s %s; echo MIRI_RC=$?) 2>&1 | tail -25" % (VROOT, CACHE, inp, outp), 2500)
        try:
            lines = open(outp).read().splitlines()
        except OSError:
            lines = []
        available = "no such command" not in log and "is not installed" not in log and "error: toolchain" not in log
        saved = {"idx": idx, "lines": lines, "log": log[-1500:], "available": available}
        with open(out_json, "w") as f:
            _json.dump(saved, f)
    alarms = []
    if not saved["available"]:
        return [], [], "", {"miri": "not available in this sandbox"}
    if "Undefined Behavior" in saved["log"] or "error: unsupported operation" in saved["log"]:
        i = saved["idx"][min(len(saved["lines"]), len(saved["idx"]) - 1)] if saved["idx"] else 0
        alarms.append((i, "C13: Miri reports undefined behaviour: " + saved["log"][-300:].replace("\n", " ")))
    same = 0
    for k, i in enumerate(saved["idx"]):
        if k < len(saved["lines"]):
            if saved["lines"][k] == run.impl[i]:
                same += 1
            elif not alarms:
                from compare import same_output
                if not same_output(saved["lines"][k], run.impl[i]) and not same_output(run.impl[i], saved["lines"][k]):
                    alarms.append((i, "C13: output under Miri differs from the native build's"))
    if not alarms and len(saved["lines"]) < len(saved["idx"]) and "MIRI_RC=124" in saved["log"]:
        # the interpreter ran out of its time limit (a slow or loaded machine): not judged, not an alarm
        return [], [], "", {"miri_programs": len(saved["idx"]), "miri_outputs_equal_native": same,
                            "miri": "timed out after %d programs" % len(saved["lines"])}
    if not alarms and len(saved["lines"]) < len(saved["idx"]):
        i = saved["idx"][len(saved["lines"])]
        alarms.append((i, "C13: the harness stopped under Miri: " + saved["log"][-300:].replace("\n", " ")))
    return alarms, [], "", {"miri_programs": len(saved["idx"]), "miri_outputs_equal_native": same}


PENDING["C13"] = dict(
    stage=stage_C13,
    title="Analysis is total: it terminates without panicking on every AST",
    projection="panic",
    monitors=[],
    extra_check=extra_C13,
    domain="all",
    rule="corpus + generated programs incl. the free stream (arrays, empty names, empty bodies, surplus / missing "
         "arguments, recursion) run under catch_unwind with a 1 GiB stack; non-trivial = a program of the domain "
         "(in_domain_b) that is rejected or has nesting depth >= 3; distinct = distinct program texts",
    nontrivial=lambda prog, out, monline="": " dom13:1" in monline and (not out.startswith("(out (errors) ") or out.count("(block ") >= 4),
    level_text="Coq theorem over the model: for every program of the domain (kinded statements, loop-flavoured if-bodies only "
               "inside loops, numeric suffixes < 2^32, function size < 2^32) run returns ROk: the fuel of every loop suffices "
               "(pigeonhole for the two name probes, a potential argument for the priority folding), no modelled panic is "
               "reachable. PARTIAL by nature: RefCell borrow panics, native stack exhaustion and allocation failure are runtime "
               "behaviours the functional model cannot exhibit; they are covered by exploration only: the implementation runs under "
               "catch_unwind (debug build, overflow checks) on every generated program incl. nesting 200 and 500-operator chains, "
               "and under Miri (undefined behaviour, invalid use of the unsafe Ident constructor) on a sample.",
    assumptions=["runtime panics outside the functional model (borrow state, native stack, allocation) are explored, not proved"],
)


PENDING["C03"] = dict(
    title="Names resolve by lexical scoping and operands keep source order",
    projection="stacks",
    monitors=[("C03", "accepted_wf")],
    domain="accepted_wf",
    rule="accepted, well-formed programs; identifiers from a 14-name pool so that parameters, lets in sibling and nested "
         "blocks and constants share names; the monitor compares the event trace of the implementation's root stack with an "
         "independent lexical resolver over the source; non-trivial = at least one name declared twice in the function and at "
         "least three blocks; distinct = distinct program texts",
    nontrivial=lambda prog, out, monline="": out.count("(block ") >= 3 and re.search(r'\(v "([^"]+)\.[0-9]+"', out) is not None,
    assumptions=["events: declarations, reads, field reads, constant reads, assignments, calls, extension leaves, returns"],
)
PENDING["C04"] = dict(
    extra_files=["C04r"],
    title="The emitted instruction stack is well-typed",
    projection="stacks",
    monitors=[("C04", "accepted_wf")],
    domain="accepted_wf",
    rule="accepted, well-formed programs; one typing pass over the implementation's root stacks against the global tables of "
         "the same run; non-trivial = at least one Call with arguments or one struct field read, and >= 10 instructions; "
         "distinct = distinct program texts",
    nontrivial=lambda prog, out, monline="": ("(ExpressionStructValue " in out or "(Call " in out) and out.count("(reg ") >= 10,
    assumptions=["F7 enters through the operand rule (type of the instruction defining n-1); F2 is outside the domain (wf)"],
)
PENDING["C06"] = dict(
    extra_files=["C06r"],
    title="Every computed value is the value the source expression denotes",
    projection="stacks",
    monitors=[("C06", "accepted_wf")],
    domain="accepted_wf",
    rule="accepted, well-formed programs; register operands expanded through their defining instructions and compared, "
         "modulo bracketing, with the source expression at every let / assignment / call argument / return / condition; "
         "non-trivial = at least one logic condition or a chain of >= 3 operators; distinct = distinct program texts",
    nontrivial=lambda prog, out, monline="": "(LogicCondition " in out or out.count("(ExpressionOperation ") >= 3,
    assumptions=["compared modulo bracketing (C07); F7 through the operand rule"],
)
PENDING["C19"] = dict(
    stage=stage_C19,
    title="Extension expressions are opaque leaves evaluated once, in place",
    projection="stacks",
    monitors=[("C19", "wf")],
    extra_files=["C19b", "C19r"],
    domain="accepted_wf",
    rule="accepted, well-formed programs with extension leaves in every expression position (operand, initialiser, argument, "
         "condition side, return value, inside brackets); non-trivial = at least three extension leaves and two blocks; "
         "distinct = distinct program texts",
    nontrivial=lambda prog, out, monline="": out.count("(Ext ") >= 3 and out.count("(block ") >= 2,
    assumptions=["holds for the fixed harness extension (allocate a register, push one instruction, return a register result)"],
)


def activate_pending():
    for k, v in PENDING.items():
        if k not in PROPS and os.path.exists(os.path.join(ROOT, "coq", "Properties", k + ".v")):
            PROPS[k] = v


# ------------------------------------------------------------------------------------------------
# source lints (DESIGN.md §6.2)

def lints():
    """Syntactic facts about /repo/src that the monadic rendering of the model relies on."""
    res = {"all": [], "failed": [], "summary": {}}

    def add(name, ok, properties, detail=""):
        res["all"].append(name)
        res["summary"][name] = "ok" if ok else "FAILED " + detail
        if not ok:
            res["failed"].append({"name": name, "properties": properties, "detail": detail})

    try:
        # src/semantic.rs, or — when that file has been split into a module directory — every file
        # of src/semantic/ (mod.rs first)
        one = os.path.join(REPO, "src", "semantic.rs")
        if os.path.exists(one):
            src = open(one).read()
        else:
            d = os.path.join(REPO, "src", "semantic")
            names = sorted(os.listdir(d), key=lambda n: (n != "mod.rs", n))
            src = "\n".join(open(os.path.join(d, n)).read() for n in names if n.endswith(".rs"))
    except OSError as e:
        add("semantic.rs (or src/semantic/) readable", False, list(PROPS), str(e))
        return res
    code = re.sub(r"//[^\n]*", "", src)
    # 1. self.errors is touched only by add_error and new
    uses = [m.start() for m in re.finditer(r"self\s*\.\s*errors", code)]
    add("errors written only through add_error", len(uses) == 1 and "fn add_error" in code[:uses[0] + 200][-400:],
        ["C01", "C02", "C14", "C16", "C17"], "self.errors occurs %d times" % len(uses))
    # 2. the global tables are mutated only in types / constant / function_declaration
    fn_spans = [(m.group(1), m.start()) for m in re.finditer(r"\bfn\s+([a-z_0-9]+)\s*[(<]", code)]

    def owner(pos):
        name = None
        for n, st in fn_spans:
            if st <= pos:
                name = n
        return name
    muts = [owner(m.start()) for m in re.finditer(r"self\s*\.\s*global\s*\.\s*(types|constants|functions)\s*\.\s*insert|self\s*\.\s*global\s*\.\s*context\s*\.", code)]
    # a private helper counts as part of a declaration pass when every one of its call sites is in one
    # (or in such a helper): `declare_type` called only from `types` changes nothing
    decl_ok = {"types", "constant", "function_declaration"}
    for _ in range(4):
        for f in set(muts) - decl_ok:
            if f is None or re.search(r"\bpub(?:\([a-z]+\))?\s+fn\s+%s\b" % f, code):
                continue
            callers = [owner(m.start()) for m in re.finditer(r"(?:self\s*\.|Self::)\s*%s\s*\(" % f, code)]
            if callers and set(callers) <= decl_ok:
                decl_ok = decl_ok | {f}
    okm = set(muts) <= decl_ok
    add("globals mutated only by the declaration passes", okm, ["C15", "C16", "C17", "C01", "C02", "C14"],
        "mutations in %s" % sorted(set(str(x) for x in muts)))
    # 3. every body starts from a parentless block
    # (function_body itself, or a private helper it calls before anything else touches a block state)
    def raw3(name):
        m3 = re.search(r"\bfn\s+%s\s*[(<]" % name, code)
        if not m3:
            return ""
        nxt = re.search(r"\n(?:    )?(?:pub(?:\([a-z]+\))? )?(?:const )?fn\s+[a-z_0-9]+\s*[(<]", code[m3.end():])
        return code[m3.end(): m3.end() + (nxt.start() if nxt else len(code))]
    fb3 = raw3("function_body")
    root_pat = r"BlockState::new\((?:None|Option::None|Default::default\(\))\)"
    first_call = re.search(r"(?:self\s*\.|Self::)\s*([a-z_0-9]+)\s*\(", fb3)
    ok3 = re.search(root_pat, fb3[:400]) is not None or (
        first_call is not None and first_call.start() < 400
        and re.search(root_pat, raw3(first_call.group(1))[:600]) is not None
        and not re.search(r"\bpub\s+fn\s+%s\b" % first_call.group(1), code))
    add("function_body starts from BlockState::new(None)", ok3 and "BlockState::new(Some" not in fb3,
        ["C17", "C09", "C12", "C10"])
    # 4. run = three passes over data: imports+types, declarations, bodies (private helpers that
    # run calls are expanded in place, so that splitting run into run_xxx methods changes nothing)
    passes = ("types", "constant", "function_declaration", "function_body", "import")
    all_fns4 = set(re.findall(r"\bfn\s+([a-z_0-9]+)\s*[(<]", code))

    def raw4(name):
        m2 = re.search(r"\bfn\s+%s\s*[(<]" % name, code)
        if not m2:
            return ""
        nxt = re.search(r"\n(?:    )?(?:pub(?:\([a-z]+\))? )?(?:const )?fn\s+[a-z_0-9]+\s*[(<]", code[m2.end():])
        return code[m2.end(): m2.end() + (nxt.start() if nxt else len(code))]

    def expand4(body, depth=0):
        out = []
        for m4 in re.finditer(r"self\s*\.\s*([a-z_0-9]+)\s*\(|for\s+\w+\s+in\s+(?:&\s*)?data\b|data\s*\.\s*iter\(\)", body):
            if m4.group(1) is None:
                out.append("LOOP")
            elif m4.group(1) in passes:
                out.append(m4.group(1))
            elif m4.group(1) in all_fns4 and m4.group(1) != "add_error" and depth < 3:
                out += expand4(raw4(m4.group(1)), depth + 1)
        return out
    order = expand4(raw4("run"))
    add("run makes the three passes in order",
        order == ["LOOP", "import", "types", "LOOP", "constant", "function_declaration", "LOOP", "function_body"],
        ["C15", "C16", "C17", "C14"], "calls: %s" % order)
    # 5./6. per function: the error kinds raised and the instruction kinds emitted in the Rust source
    # are those of the corresponding definitions of coq/Model.v (catches an added / removed site on
    # paths the generated programs may not walk)
    try:
        model = open(os.path.join(ROOT, "coq", "Model.v")).read()
    except OSError:
        model = ""
    model_nc = re.sub(r"\(\*.*?\*\)", "", model, flags=re.S)

    def rust_fn_raw(name):
        m2 = re.search(r"\bfn\s+%s\s*[(<]" % name, code)
        if not m2:
            return ""
        nxt = re.search(r"\n(?:    )?(?:pub(?:\([a-z]+\))? )?(?:const )?fn\s+[a-z_0-9]+\s*[(<]", code[m2.end():])
        return code[m2.start(): m2.end() + (nxt.start() if nxt else len(code))]

    all_rust_fns = set(re.findall(r"\bfn\s+([a-z_0-9]+)\s*[(<]", code))

    def rust_fn(name, seen=None):
        """Body of `name` plus, transitively, the bodies of the private helpers it calls that are not
        themselves analysis functions of the table below (so that factoring code out into a helper
        does not disturb the comparison)."""
        seen = seen if seen is not None else set()
        if name in seen:
            return ""
        seen.add(name)
        body = rust_fn_raw(name)
        out = body
        # (methods called on self / Self, and private free functions called by their bare name)
        for callee in set(re.findall(r"(?:self\s*\.\s*|Self::\s*|(?<![\w.:]))([a-z_0-9]+)\s*\(", body)):
            if callee in all_rust_fns and callee not in entry_fns and callee != name:
                out += rust_fn(callee, seen)
        return out

    def coq_def(name):
        m2 = re.search(r"(?:Definition|Fixpoint|with)\s+%s\b" % name, model_nc)
        if not m2:
            return ""
        nxt = re.search(r"\n\s*(?:Definition|Fixpoint|End|Section|Record|Inductive|with)\s", model_nc[m2.end():])
        return model_nc[m2.start(): m2.end() + (nxt.start() if nxt else len(model_nc))]

    groups = {
        "check_type_exists": ["check_type_exists"],
        "types": ["decl_type"],
        "constant+check_constant_value_expression": ["decl_const", "g_check_type_exists"],
        "function_declaration": ["decl_fn", "g_check_type_exists"],
        "init_func_params": ["init_func_params"],
        "function_body": ["fn_stmt", "fn_stmts", "function_body_m", "check_type_exists"],
        "let_binding": ["let_binding"],
        "binding": ["binding"],
        "function_call": ["function_call", "call_args"],
        "condition_expression": ["condition_expression"],
        "if_condition_calculation": ["if_condition_calculation"],
        "if_condition": ["if_condition_step"],
        # the three nested statement loops are one parameterised loop in the model
        "if_condition_body+if_condition_loop_body+loop_statement": ["code_after_errors", "nested_stmt", "loop_step"],
        "check_return_type": ["check_return_type"],
        "expression_operation": ["expr_value", "expr_chain", "check_type_exists"],
    }
    entry_fns = set(n for k in groups for n in k.split("+")) | {
        "expression", "run", "new", "add_error", "add_state_context", "import", "expression_operations_priority",
        "fetch_op_priority"}
    instr_of_method = {"expression_value": "IExprValue", "expression_const": "IExprConst",
                       "expression_struct_value": "IExprStruct", "expression_operation": "IExprOp", "call": "ICall",
                       "let_binding": "ILet", "binding": "IBind", "expression_function_return": "IFnRet",
                       "expression_function_return_with_label": "IFnRetLabel", "set_label": "ISetLabel",
                       "jump_to": "IJumpTo", "if_condition_expression": "IIfCondExpr",
                       "condition_expression": "ICondExpr", "jump_function_return": "IJumpFnRet",
                       "logic_condition": "ILogic", "if_condition_logic": "IIfCondLogic", "function_arg": "IFnArg"}
    bad_err, bad_ins = [], []
    for rname, cnames in groups.items():
        rsrc = "".join(rust_fn(n) for n in rname.split("+"))
        csrc = "".join(coq_def(n) for n in cnames)
        rk = set(re.findall(r"StateErrorKind::([A-Za-z]+)", rsrc))
        ck = set(x[1:] for x in re.findall(r"\bE[A-Z][A-Za-z]+\b", csrc) if x not in ("Ex", "ERes", "EVName", "EVPrim", "EVCall", "EVField", "EVSub", "EVExt"))
        if rname in ("constant+check_constant_value_expression", "function_declaration"):
            ck |= {"TypeNotFound"}   # raised through (g_)check_type_exists
        if not rk <= ck or not (ck - {"TypeNotFound"}) <= rk | {"TypeNotFound"}:
            if rk != ck and not (rk | {"TypeNotFound"}) == (ck | {"TypeNotFound"}):
                bad_err.append("%s: rust %s / model %s" % (rname, sorted(rk), sorted(ck)))
        # an instruction is pushed by calling its method on a block state: on `x.borrow_mut()` or on a
        # borrow bound to a name first; the analyzer's own methods of the same names (`self.let_binding`,
        # `Self::binding`) are not pushes
        rm = set(instr_of_method[m2] for recv, m2 in re.findall(r"([A-Za-z_0-9]+|\))\s*\.\s*([a-z_]+)\s*\(", rsrc)
                 if m2 in instr_of_method and recv not in ("self", "Self"))
        cm = set(re.findall(r"\b(I(?:ExprValue|ExprConst|ExprStruct|ExprOp|Call|Let|Bind|FnRetLabel|FnRet|SetLabel|JumpTo|IfCondExpr|CondExpr|JumpFnRet|Logic|IfCondLogic|FnArg))\b", csrc))
        if rm != cm:
            bad_ins.append("%s: rust %s / model %s" % (rname, sorted(rm), sorted(cm)))
    every = ["C01", "C02", "C14", "C03", "C04", "C05", "C06", "C08", "C09", "C10", "C11", "C12", "C18", "C19"]
    add("error kinds per function match the model", not bad_err, ["C01", "C02", "C14"], "; ".join(bad_err)[:600])
    add("instruction kinds per function match the model", not bad_ins, every, "; ".join(bad_ins)[:600])
    return res


# ------------------------------------------------------------------------------------------------
# analysis of one pipeline run for one property

def nt_default(prog, out, monline=""):
    return len(out) > 200


def judge(prop, prog, impl, model, monline):
    spec = PROPS[prop]
    agree = True
    where = ""
    if impl.startswith("(notrun"):
        return {"agree": False, "where": "not run: the implementation hangs on other programs of the shard", "monitor": None}
    if impl.startswith("(nobuild"):
        # the harness could not even build the program (the library's codec refuses an identifier):
        # nothing was observed for this program, for any property
        return {"agree": False, "where": "program could not be built: " + impl[:200], "monitor": None}
    if impl.startswith(("(panic", "(missing")) and prop != "C13":
        # a panicking run is outside the domain of every property but C13 ("on which the analysis
        # terminates"); C13 is the property that judges it
        return {"agree": True, "where": "", "monitor": None}
    if impl != model:
        try:
            ti, tm = parse(impl), parse(model)
            pj = PROJ[spec["projection"]]
            a, b = pj(ti), pj(tm)
            agree = eq_tree(a, b)
            if not agree:
                where = first_difference(a, b, spec["projection"])
        except Exception as e:  # unreadable output is a disagreement
            agree = False
            where = "unreadable output: %s" % e
    from verif import mon_get
    cls = spec.get("known_class")
    ms = []
    for m, d in monitors_of(spec):
        if not dom_ok(d, impl, monline):
            continue
        val = mon_get(monline, m)
        if val is False and cls and cls(prog, impl, monline, m):
            val = True      # a recorded finding (the check prints KNOWN-FINDING for it), not an alarm
        ms.append(val)
    return {"agree": agree, "where": where, "monitor": (None if not ms else all(x is not False for x in ms))}


def monitors_of(spec):
    if spec.get("monitors"):
        return spec["monitors"]
    if spec.get("monitor"):
        return [(spec["monitor"], spec.get("domain", "all"))]
    return []


def in_domain(prop, impl, monline):
    return dom_ok(PROPS[prop].get("domain", "all"), impl, monline)


def dom_ok(dom, impl, monline):
    from verif import mon_field
    if dom == "all":
        return True
    if impl.startswith("(panic"):
        return False
    accepted = impl.startswith("(out (errors) ")
    if dom == "accepted":
        return accepted
    if dom == "accepted_wf":
        return accepted and mon_field(monline, "wf") == "1"
    if dom == "wf":
        return mon_field(monline, "wf") == "1"
    return True


def analyse(prop, run):
    from verif import mon_get
    spec = PROPS[prop]
    nt = spec.get("nontrivial", nt_default)
    alarms, known, disagreements = [], [], []
    unreadable = []
    where = ""
    full = 0
    seen_nt = set()
    dist = {}
    mon_true = mon_false = mon_na = 0
    samples = []
    extra = spec.get("extra_check")
    for i, prog in enumerate(run.programs):
        impl, model, monline = run.impl[i], run.model[i], run.mon[i]
        stream = run.metas[i].get("stream", "?")
        dist[stream] = dist.get(stream, 0) + 1
        if impl == model:
            full += 1
        v = judge(prop, prog, impl, model, monline)
        if impl != model and v["agree"]:
            try:
                if eq_tree(parse(impl), parse(model)):
                    full += 1
            except Exception:
                pass
        if not v["agree"]:
            disagreements.append(i)
            if not where:
                where = v["where"]
        if monline.startswith("unreadable") and not impl.startswith(("(panic", "(missing")):
            unreadable.append(i)
        dom = in_domain(prop, impl, monline)
        for mname, mdom in monitors_of(spec):
            val = mon_get(monline, mname)
            if not dom_ok(mdom, impl, monline) or val is None:
                mon_na += 1
            elif val:
                mon_true += 1
            else:
                mon_false += 1
                cls = spec.get("known_class")
                k = cls(prog, impl, monline, mname) if cls else None
                if k:
                    if k not in known:
                        known.append(k)
                else:
                    alarms.append((i, "chk_%s = false on the implementation's output" % mname))
        if extra:
            e = extra(prog, impl, monline)
            if e:
                alarms.append((i, e))
        if dom and nt(prog, impl, monline):
            h = hashlib.sha1(prog.encode()).hexdigest()
            if h not in seen_nt:
                seen_nt.add(h)
                if len(samples) < 3 and len(prog) < 1500:
                    samples.append({"program": prog, "stream": stream,
                                    "projected_output": _short(impl, spec["projection"])})
    stage_stats = {}
    if spec.get("stage"):
        salarms, sdis, swhere, stage_stats = spec["stage"](run)
        alarms += salarms
        for i in sdis:
            if i not in disagreements:
                disagreements.append(i)
        where = where or swhere
    cross_stats = {}
    if spec.get("cross"):
        calarms, cross_stats = spec["cross"](run)
        alarms += calarms
        seen_nt = set(range(cross_stats.get("pairs", 0) + cross_stats.get("groups", 0)))
        for i, m in enumerate(run.metas):
            if len(samples) < 2 and m.get("stream") in ("perm", "stub") and len(run.programs[i]) < 1200:
                samples.append({"derived_program": run.programs[i], "meta": m, "base_program": run.programs[m["base"]][:1200]})
    if not samples and run.programs:
        samples.append({"program": run.programs[0][:1500], "stream": run.metas[0].get("stream", "?")})
    kinds = {}
    for o in run.impl:
        for k in re.findall(r"\(err (\w+)", o):
            kinds[k] = kinds.get(k, 0) + 1
    return {"alarms": alarms, "known": known, "disagreements": disagreements, "disagreement_where": where,
            "unreadable": unreadable,
            "full_agreement": full, "distinct_nontrivial": len(seen_nt), "samples": samples,
            "distribution": {"streams": dist, "accepted": sum(1 for o in run.impl if o.startswith("(out (errors) ")),
                             "panics": sum(1 for o in run.impl if o.startswith("(panic")),
                             "error_kinds": kinds,
                             "mean_output_bytes": int(sum(len(o) for o in run.impl) / max(1, len(run.impl)))},
            "monitor": {"true": mon_true, "false": mon_false, "not_applicable": mon_na}, "cross": cross_stats, "stage": stage_stats}


def _short(impl, proj):
    try:
        s = ser(PROJ[proj](parse(impl)))
    except Exception:
        s = impl
    return s if len(s) < 700 else s[:700] + "..."


def alarm_on(prop, text):
    """True iff the property's monitor rejects the implementation's output for this program."""
    from verif import run_programs, mon_get, CACHE
    spec = PROPS[prop]
    impl, model, mon, problems = run_programs([text], os.path.join(CACHE, "shrink"), shards=1)
    if problems:
        return False
    for mname, mdom in monitors_of(spec):
        if dom_ok(mdom, impl[0], mon[0]) and mon_get(mon[0], mname) is False:
            cls = spec.get("known_class")
            if not (cls and cls(text, impl[0], mon[0], mname)):
                return True
    extra = spec.get("extra_check")
    return bool(extra and extra(text, impl[0], mon[0]))


def cross_alarm_on(prop, base_text, derived_text, meta):
    return False


def search(prop, seed):
    """Enlarged search for a concrete failing input after an obligation or a tie broke."""
    from verif import pipeline
    run = pipeline(seed + 7919, "search")
    st = analyse(prop, run)
    if st["alarms"]:
        i, clause = st["alarms"][0]
        return run.programs[i], clause
    return None


activate_pending()
