#!/bin/sh
# Builds everything the checks need, from files on disk only:
#   translator -> coq/Gen/*.v; full .vo build of the Coq development; extraction; OCaml driver;
#   Rust harness against /repo's working tree.
# Usage: tools/build.sh [coq|ocaml|harness|all]   (default all)
set -e
ROOT=$(cd "$(dirname "$0")/.." && pwd)
WHAT=${1:-all}
export CARGO_NET_OFFLINE=true
JOBS=${VERIF_JOBS:-16}

build_coq() {
  python3 "$ROOT/tools/gen_from_src.py"
  cd "$ROOT/coq"
  if [ ! -f Makefile ] || [ _CoqProject -nt Makefile ]; then
    coq_makefile -f _CoqProject -o Makefile >/dev/null
  fi
  # -k: a proof file that no longer checks (say, because a table regenerated from the source changed)
  # must not keep the model and the monitors from being built: the check of the property whose cone
  # contains that file reports it (tools/verif.py: proof_status); the build fails only when the
  # model / monitors themselves cannot be extracted (build_ocaml).
  timeout 3000 make -k -j"$JOBS" >"$ROOT/.cache/coq-build.log" 2>&1 || echo "build.sh: some Coq files do not check, see .cache/coq-build.log (continuing)"
}

build_ocaml() {
  cd "$ROOT/ocaml"
  # re-extract only when the model is newer than the extracted code
  NEWEST=$(ls -t "$ROOT"/coq/*.vo "$ROOT"/coq/*/*.vo "$ROOT"/coq/Extract.v 2>/dev/null | head -1)
  if [ ! -f model.ml ] || [ "$NEWEST" -nt model.ml ]; then
    timeout 600 coqc -Q "$ROOT/coq" SA "$ROOT/coq/Extract.v" >/dev/null
    rm -f "$ROOT/coq/Extract.vo" "$ROOT/coq/Extract.glob" "$ROOT/coq/.Extract.aux" "$ROOT/coq/Extract.vos" "$ROOT/coq/Extract.vok"
    touch model.ml
  fi
  if [ ! -x verif-model ] || [ model.ml -nt verif-model ] || [ driver.ml -nt verif-model ] || [ main.ml -nt verif-model ] || [ monitors_glue.ml -nt verif-model ]; then
    ocamlfind ocamlopt -package zarith -linkpkg -O2 -w -a model.mli model.ml driver.ml monitors_glue.ml main.ml -o verif-model
  fi
}

build_harness() {
  cd "$ROOT/harness"
  cp /repo/Cargo.lock Cargo.lock 2>/dev/null || true
  timeout 1200 cargo build --offline >"$ROOT/.cache/harness-build.log" 2>&1 || { tail -40 "$ROOT/.cache/harness-build.log"; exit 1; }
}

mkdir -p "$ROOT/.cache"
case "$WHAT" in
  coq) build_coq ;;
  ocaml) build_coq; build_ocaml ;;
  harness) build_harness ;;
  all) build_coq; build_ocaml; build_harness ;;
  *) echo "usage: build.sh [coq|ocaml|harness|all]"; exit 2 ;;
esac
