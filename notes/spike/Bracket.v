From Coq Require Import List Arith Lia Bool.
Import ListNotations.

Section Bracket.
Variable op : Type.
Variable leaf : Type.
Variable prio : op -> nat.

Inductive tree := Leaf (x : leaf) | Node (l : tree) (o : op) (r : tree).
Inductive tok := TL (x : leaf) | TO (o : op).

Fixpoint inorder (t : tree) : list tok :=
  match t with Leaf x => [TL x] | Node l o r => inorder l ++ TO o :: inorder r end.

Definition root_prio (t : tree) : option nat :=
  match t with Leaf _ => None | Node _ o _ => Some (prio o) end.

Fixpoint wb (t : tree) : Prop :=
  match t with
  | Leaf _ => True
  | Node l o r => wb l /\ wb r /\
      (forall q, root_prio l = Some q -> prio o <= q) /\
      (forall q, root_prio r = Some q -> prio o < q)
  end.

(* all operators of a tree satisfy a predicate *)
Fixpoint all_ops (P : nat -> Prop) (t : tree) : Prop :=
  match t with Leaf _ => True | Node l o r => all_ops P l /\ P (prio o) /\ all_ops P r end.

Lemma all_ops_impl (P Q : nat -> Prop) t : (forall n, P n -> Q n) -> all_ops P t -> all_ops Q t.
Proof. intros H; induction t as [|l IHl o r IHr]; simpl; intuition. Qed.

Lemma wb_all_ge t : wb t -> forall m, (forall q, root_prio t = Some q -> m <= q) -> all_ops (fun n => m <= n) t.
Proof.
  induction t as [x|l IHl o r IHr]; simpl; [auto|].
  intros (Hl & Hr & Hlo & Hro) m Hm.
  assert (Hmo : m <= prio o) by (apply Hm; reflexivity).
  split; [|split; [exact Hmo|]].
  - apply IHl; [exact Hl|]. intros q Hq. specialize (Hlo q Hq). lia.
  - apply IHr; [exact Hr|]. intros q Hq. specialize (Hro q Hq). lia.
Qed.

Lemma wb_node_left l o r : wb (Node l o r) -> all_ops (fun n => prio o <= n) l.
Proof. simpl; intros (Hl & _ & Hlo & _). apply wb_all_ge; auto. Qed.

Lemma wb_node_right l o r : wb (Node l o r) -> all_ops (fun n => prio o < n) r.
Proof.
  simpl; intros (_ & Hr & _ & Hro).
  apply (all_ops_impl (fun n => S (prio o) <= n)); [intros; lia|].
  apply wb_all_ge; [exact Hr|]. intros q Hq. specialize (Hro q Hq). lia.
Qed.

(* operators occurring in a token list *)
Definition ops_in (P : nat -> Prop) (ts : list tok) : Prop :=
  forall o, In (TO o) ts -> P (prio o).

Lemma all_ops_inorder P t : all_ops P t -> ops_in P (inorder t).
Proof.
  induction t as [x|l IHl o r IHr]; simpl; intros H o' Hin.
  - destruct Hin as [Hin|[]]; discriminate.
  - destruct H as (Hl & Ho & Hr). apply in_app_or in Hin as [Hin|[Hin|Hin]].
    + apply IHl; auto. + inversion Hin; subst; auto. + apply IHr; auto.
Qed.

Lemma inorder_nonempty t : inorder t <> [].
Proof. destruct t; simpl; [discriminate|]. destruct (inorder t1); discriminate. Qed.

(* token lists of trees alternate: they start and end with a leaf and never have a prefix
   that is itself followed by an operator... we only need: a proper split point is unique *)
Lemma inorder_split_unique :
  forall t1 t2, wb t1 -> wb t2 -> inorder t1 = inorder t2 -> t1 = t2.
Proof.
  induction t1 as [x|l1 IHl o1 r1 IHr]; intros t2 H1 H2 E.
  - destruct t2 as [y|l2 o2 r2]; simpl in E.
    + congruence.
    + exfalso. destruct (inorder l2) as [|a [|b tl]] eqn:El.
      * now apply inorder_nonempty in El.
      * discriminate.
      * discriminate.
  - destruct t2 as [y|l2 o2 r2].
    + exfalso. simpl in E. destruct (inorder l1) as [|a [|b tl]] eqn:El.
      * now apply inorder_nonempty in El.
      * discriminate.
      * discriminate.
    + pose proof (wb_node_left _ _ _ H1) as L1. pose proof (wb_node_right _ _ _ H1) as R1.
      pose proof (wb_node_left _ _ _ H2) as L2. pose proof (wb_node_right _ _ _ H2) as R2.
      apply all_ops_inorder in L1, R1, L2, R2.
      simpl in E. apply app_eq_app in E as [m [[Ea Eb]|[Ea Eb]]].
      * (* inorder l1 = inorder l2 ++ m ; TO o2 :: inorder r2 = m ++ TO o1 :: inorder r1 *)
        destruct m as [|t m'].
        -- rewrite app_nil_r in Ea. simpl in Eb. inversion Eb; subst.
           simpl in H1, H2. f_equal; [apply IHl|apply IHr]; intuition.
        -- exfalso. simpl in Eb. inversion Eb; subst t.
           (* o2 occurs in inorder l1, o1 occurs in inorder r2 *)
           assert (In (TO o2) (inorder l1)) by (rewrite Ea; apply in_or_app; right; left; reflexivity).
           assert (In (TO o1) (inorder r2)) by (rewrite H3; apply in_or_app; right; left; reflexivity).
           specialize (L1 _ H). specialize (R2 _ H0). simpl in *. lia.
      * destruct m as [|t m'].
        -- rewrite app_nil_r in Ea. simpl in Eb. inversion Eb; subst.
           simpl in H1, H2. f_equal; [apply IHl|apply IHr]; intuition.
        -- exfalso. simpl in Eb. inversion Eb; subst t.
           assert (In (TO o1) (inorder l2)) by (rewrite Ea; apply in_or_app; right; left; reflexivity).
           assert (In (TO o2) (inorder r1)) by (rewrite H3; apply in_or_app; right; left; reflexivity).
           specialize (L2 _ H). specialize (R1 _ H0). simpl in *. lia.
Qed.
End Bracket.
