From Coq Require Import List Arith Lia Bool.
Import ListNotations.
Require Import Bracket.

Section Fold.
Variable op : Type.
Variable leaf : Type.
Variable prio : op -> nat.
Notation tree := (tree op leaf).
Notation Node := (Node op leaf).
Notation Leaf := (Leaf op leaf).
Notation wb := (wb op leaf prio).
Notation inorder := (inorder op leaf).
Notation all_ops := (all_ops op leaf prio).
Notation root_prio := (root_prio op leaf prio).

(* one level pass of the repaired fetch_op_priority: head operand, rest of chain *)
Fixpoint pass (p : nat) (h : tree) (rest : list (op * tree)) : tree * list (op * tree) :=
  match rest with
  | [] => (h, [])
  | (o, v) :: r =>
      if Nat.eqb (prio o) p then pass p (Node h o v) r
      else let '(h', r') := pass p v r in (h, (o, h') :: r')
  end.

Fixpoint levels (n : nat) (h : tree) (rest : list (op * tree)) : tree * list (op * tree) :=
  (* processes level n, then n-1, ..., 0 *)
  let '(h1, r1) := pass n h rest in
  match n with 0 => (h1, r1) | S m => levels m h1 r1 end.

Fixpoint flat (h : tree) (rest : list (op * tree)) : list (tok op leaf) :=
  match rest with [] => inorder h | (o, v) :: r => inorder h ++ TO op leaf o :: flat v r end.

(* chain invariant before processing level p: operands are wb with all ops > p;
   spine ops are <= p *)
Definition operand_ok (p : nat) (t : tree) : Prop := wb t /\ all_ops (fun n => p < n) t.
Definition head_ok (p : nat) (t : tree) : Prop := wb t /\ all_ops (fun n => p <= n) t.
Fixpoint spine_ok (p : nat) (rest : list (op * tree)) : Prop :=
  match rest with [] => True | (o, v) :: r => prio o <= p /\ operand_ok p v /\ spine_ok p r end.

Lemma flat_app h o v r : flat h ((o, v) :: r) = inorder h ++ TO op leaf o :: flat v r.
Proof. reflexivity. Qed.

Lemma flat_node h o v r : flat (Node h o v) r = inorder h ++ TO op leaf o :: flat v r.
Proof. destruct r as [|[o' v'] r]; simpl; [reflexivity|]. rewrite <- app_assoc. reflexivity. Qed.

Lemma root_ge (P : nat -> Prop) t : all_ops P t -> forall q, root_prio t = Some q -> P q.
Proof. destruct t; simpl; [discriminate|]. intros (_ & H & _) q E. inversion E; subst; auto. Qed.

(* pass p: the head may already contain level-p operators at its root (accumulated run) *)
Lemma pass_spec p : forall rest h,
  head_ok p h -> spine_ok p rest ->
  let '(h', r') := pass p h rest in
  flat h' r' = flat h rest /\ head_ok p h' /\
  (forall o v, In (o, v) r' -> prio o < p /\ head_ok p v).
Proof.
  induction rest as [|[o v] r IH]; intros h Hh Hs; simpl.
  - split; [reflexivity|]. split; [exact Hh|]. intros o v [].
  - destruct Hs as (Ho & Hv & Hr).
    destruct (Nat.eqb_spec (prio o) p) as [E|NE].
    + (* fold into the head *)
      assert (Hn : head_ok p (Node h o v)).
      { destruct Hh as (Hw & Ha). destruct Hv as (Hvw & Hva). split.
        - simpl. repeat split; auto.
          + intros q Hq. pose proof (root_ge _ _ Ha q Hq). simpl in *. lia.
          + intros q Hq. pose proof (root_ge _ _ Hva q Hq). simpl in *. lia.
        - simpl. repeat split; auto; [lia|].
          eapply all_ops_impl; [|exact Hva]. intros; simpl in *; lia. }
      specialize (IH (Node h o v) Hn Hr).
      destruct (pass p (Node h o v) r) as [h' r'].
      destruct IH as (F & H1 & H2). split; [|split; assumption].
      rewrite F. apply flat_node.
    + assert (Hvh : head_ok p v).
      { destruct Hv as (Hvw & Hva). split; auto.
        eapply all_ops_impl; [|exact Hva]. intros; simpl in *; lia. }
      specialize (IH v Hvh Hr).
      destruct (pass p v r) as [h' r'].
      destruct IH as (F & H1 & H2). split; [|split].
      * simpl. rewrite F. reflexivity.
      * exact Hh.
      * intros o' v' [H|H]; [inversion H; subst; split; [lia|exact H1] | apply H2 in H; exact H].
Qed.

Lemma head_ok_operand p t : head_ok (S p) t -> operand_ok p t.
Proof. intros (H & A). split; [exact H|exact A]. Qed.

Lemma spine_from_list p r' :
  (forall o v, In (o, v) r' -> prio o < S p /\ head_ok (S p) v) -> spine_ok p r'.
Proof.
  induction r' as [|[o v] r IH]; simpl; auto. intros H.
  destruct (H o v (or_introl eq_refl)) as (Ho & Hv).
  split; [lia|]. split; [apply head_ok_operand; exact Hv|]. apply IH; intros; apply H; right; assumption.
Qed.

Lemma levels_spec : forall n rest h,
  head_ok n h -> spine_ok n rest ->
  let '(h', r') := levels n h rest in
  flat h' r' = flat h rest /\ wb h' /\ r' = [].
Proof.
  induction n as [|m IH]; intros rest h Hh Hs; simpl.
  - pose proof (pass_spec 0 rest h Hh Hs) as P.
    destruct (pass 0 h rest) as [h1 r1]. destruct P as (F & H1 & H2).
    repeat split; auto. + apply H1.
    + destruct r1 as [|[o v] r1]; auto. destruct (H2 o v (or_introl eq_refl)); lia.
  - pose proof (pass_spec (S m) rest h Hh Hs) as P.
    destruct (pass (S m) h rest) as [h1 r1]. destruct P as (F & H1 & H2).
    assert (Hh1 : head_ok m h1).
    { destruct H1 as (W & A). split; auto. eapply all_ops_impl; [|exact A]. intros; simpl in *; lia. }
    specialize (IH r1 h1 Hh1 (spine_from_list _ _ H2)).
    destruct (levels m h1 r1) as [h' r']. destruct IH as (F' & W & E).
    repeat split; auto. congruence.
Qed.

(* the theorem: for a flat chain of leaves whose operators all have priority <= maxp,
   the fold yields the (unique) well-bracketed tree of that chain *)
Definition leaf_chain (rest : list (op * leaf)) : list (op * tree) :=
  map (fun '(o, x) => (o, Leaf x)) rest.

Theorem fold_correct maxp x rest :
  (forall o y, In (o, y) rest -> prio o <= maxp) ->
  let '(t, r) := levels maxp (Leaf x) (leaf_chain rest) in
  r = [] /\ wb t /\ inorder t = flat (Leaf x) (leaf_chain rest).
Proof.
  intros Hb.
  assert (Hs : spine_ok maxp (leaf_chain rest)).
  { induction rest as [|[o y] r IH]; simpl; auto.
    split; [apply (Hb o y); left; reflexivity|].
    split; [split; simpl; exact I|].
    apply IH. intros; eapply Hb; right; eauto. }
  assert (Hh : head_ok maxp (Leaf x)) by (split; simpl; auto).
  pose proof (levels_spec maxp _ _ Hh Hs) as L.
  destruct (levels maxp (Leaf x) (leaf_chain rest)) as [t r].
  destruct L as (F & W & E). subst r. simpl in F. auto.
Qed.

Corollary fold_unique maxp x rest t' :
  (forall o y, In (o, y) rest -> prio o <= maxp) ->
  wb t' -> inorder t' = flat (Leaf x) (leaf_chain rest) ->
  fst (levels maxp (Leaf x) (leaf_chain rest)) = t'.
Proof.
  intros Hb W' I'. pose proof (fold_correct maxp x rest Hb) as H.
  destruct (levels maxp (Leaf x) (leaf_chain rest)) as [t r]. destruct H as (_ & W & I).
  simpl. apply (inorder_split_unique op leaf prio); auto. congruence.
Qed.
End Fold.
Print Assumptions fold_unique.
