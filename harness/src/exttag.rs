//! C19 says of the instructions an extension pushes: they "appear at that position in the block's
//! stack and in every ancestor's stack".  The extension of the correspondence check (`Ext` / `Ins`
//! in main.rs) pushes an instruction that carries its fresh register, so two of its instructions
//! are never equal.  This module runs the library with a THIRD extension whose instruction carries
//! only a tag (`Tick { tag }`): two leaves with the same tag push EQUAL instructions.  A few fixed
//! programs hold two such leaves evaluated back to back (the operands of one operator, neighbouring
//! call arguments, the two sides of a comparison) at block depth 0, 1 and 2, with equal and with
//! different tags, and every block's stack is checked directly: the function stack holds the tags
//! of all leaves in evaluation order, and so does every block on the way down to the block that
//! evaluates them.  No model is involved: this is the property itself, decided on the
//! implementation's output.
use semantic_analyzer::ast::{self, Ident};
use semantic_analyzer::semantic::State;
use semantic_analyzer::types::block_state::BlockState;
use semantic_analyzer::types::expression::{ExpressionResult, ExpressionResultValue};
use semantic_analyzer::types::semantic::{
    ExtendedExpression, ExtendedSemanticContext, SemanticContextInstruction, SemanticStackContext,
};
use semantic_analyzer::types::types::{PrimitiveTypes, Type};
use std::cell::RefCell;
use std::rc::Rc;

#[derive(Clone, Debug, PartialEq, serde::Serialize, serde::Deserialize)]
pub struct Tick {
    tag: u64,
}
impl SemanticContextInstruction for Tick {}

#[derive(Clone, Debug, PartialEq, serde::Serialize, serde::Deserialize)]
pub struct TickOf {
    tag: u64,
}

type Expr = ast::Expression<'static, Tick, TickOf>;

impl ExtendedExpression<Tick> for TickOf {
    fn expression(
        &self,
        _state: &mut State<Self, Tick>,
        block_state: &Rc<RefCell<BlockState<Tick>>>,
    ) -> ExpressionResult {
        block_state.borrow_mut().inc_register();
        let register_number = block_state.borrow().last_register_number;
        block_state.borrow_mut().extended_expression(&Tick { tag: self.tag });
        ExpressionResult {
            expr_type: Type::Primitive(PrimitiveTypes::U64),
            expr_value: ExpressionResultValue::Register(register_number),
        }
    }
}

fn id(s: &'static str) -> Ident<'static> {
    Ident::new(s)
}
fn u64t() -> ast::Type<'static> {
    ast::Type::Primitive(ast::PrimitiveTypes::U64)
}
fn tick(tag: u64) -> ast::ExpressionValue<'static, Tick, TickOf> {
    ast::ExpressionValue::ExtendedExpression(Box::new(TickOf { tag }))
}
fn lit(n: u64) -> ast::ExpressionValue<'static, Tick, TickOf> {
    ast::ExpressionValue::PrimitiveValue(ast::PrimitiveValue::U64(n))
}
fn e1(v: ast::ExpressionValue<'static, Tick, TickOf>) -> Expr {
    ast::Expression { expression_value: v, operation: None }
}
fn if_(cond: ast::IfCondition<'static, Tick, TickOf>, body: Vec<ast::IfBodyStatement<'static, Tick, TickOf>>) -> ast::IfStatement<'static, Tick, TickOf> {
    ast::IfStatement { condition: cond, body: ast::IfBodyStatements::If(body), else_statement: None, else_if_statement: None }
}
fn always() -> ast::IfCondition<'static, Tick, TickOf> {
    ast::IfCondition::Single(e1(ast::ExpressionValue::PrimitiveValue(ast::PrimitiveValue::Bool(true))))
}

/// The statement that evaluates the two leaves, as a statement of an if-body.
fn site(kind: &str, t1: u64, t2: u64) -> ast::IfBodyStatement<'static, Tick, TickOf> {
    match kind {
        "op" => ast::IfBodyStatement::LetBinding(ast::LetBinding {
            name: ast::ValueName::new(id("s")),
            mutable: false,
            value_type: None,
            value: Box::new(ast::Expression {
                expression_value: tick(t1),
                operation: Some((ast::ExpressionOperations::Plus, Box::new(e1(tick(t2))))),
            }),
        }),
        "args" => ast::IfBodyStatement::FunctionCall(ast::FunctionCall {
            name: ast::FunctionName::new(id("two")),
            parameters: vec![e1(tick(t1)), e1(tick(t2))],
        }),
        _ => ast::IfBodyStatement::If(if_(
            ast::IfCondition::Logic(ast::ExpressionLogicCondition {
                left: ast::ExpressionCondition { left: e1(tick(t1)), condition: ast::Condition::Eq, right: e1(tick(t2)) },
                right: None,
            }),
            vec![],
        )),
    }
}

fn program(kind: &str, depth: usize, t1: u64, t2: u64) -> ast::Main<'static, Tick, TickOf> {
    let two = ast::MainStatement::Function(ast::FunctionStatement::new(
        ast::FunctionName::new(id("two")),
        vec![
            ast::FunctionParameter { name: ast::ParameterName::new(id("a")), parameter_type: u64t() },
            ast::FunctionParameter { name: ast::ParameterName::new(id("b")), parameter_type: u64t() },
        ],
        u64t(),
        vec![ast::BodyStatement::Return(e1(lit(1)))],
    ));
    let mut st = site(kind, t1, t2);
    for _ in 1..depth {
        st = ast::IfBodyStatement::If(if_(always(), vec![st]));
    }
    let top = if depth == 0 {
        match st {
            ast::IfBodyStatement::LetBinding(l) => ast::BodyStatement::LetBinding(l),
            ast::IfBodyStatement::FunctionCall(c) => ast::BodyStatement::FunctionCall(c),
            ast::IfBodyStatement::If(i) => ast::BodyStatement::If(i),
            _ => unreachable!(),
        }
    } else {
        ast::BodyStatement::If(if_(always(), vec![st]))
    };
    let f = ast::MainStatement::Function(ast::FunctionStatement::new(
        ast::FunctionName::new(id("f")),
        vec![],
        u64t(),
        vec![top, ast::BodyStatement::Return(e1(lit(1)))],
    ));
    vec![two, f]
}

fn ticks(stack: &[SemanticStackContext<Tick>]) -> Vec<u64> {
    stack
        .iter()
        .filter_map(|i| if let SemanticStackContext::ExtendedExpression(t) = i { Some(t.tag) } else { None })
        .collect()
}

fn all_stacks(b: &Rc<RefCell<BlockState<Tick>>>, depth: usize, out: &mut Vec<(usize, Vec<u64>)>) {
    out.push((depth, ticks(&b.borrow().get_context().get())));
    for c in b.borrow().children.iter() {
        all_stacks(c, depth + 1, out);
    }
}

/// One line: `(exttag ok N)` or `(exttag fail "...")`.
pub fn run() -> String {
    let mut checked = 0;
    for kind in ["op", "args", "cmp"] {
        for depth in 0..=2usize {
            for (t1, t2) in [(7u64, 8u64), (7, 7)] {
                let what = format!("{kind} at depth {depth}, tags ({t1}, {t2})");
                let prog = program(kind, depth, t1, t2);
                let r = std::panic::catch_unwind(|| {
                    let mut st: State<TickOf, Tick> = State::new();
                    st.run(&prog);
                    if !st.errors.is_empty() {
                        return Err(format!("the program is rejected: {:?}", st.errors[0].kind));
                    }
                    // context[0] is `two`, context[1] is `f`
                    let mut stacks = vec![];
                    all_stacks(&st.context[1], 0, &mut stacks);
                    let expected = vec![t1, t2];
                    if stacks[0].1 != expected {
                        return Err(format!("the function stack holds the extension instructions {:?}, the source evaluates {:?}", stacks[0].1, expected));
                    }
                    // the leaves are evaluated `depth` blocks down (a comparison: in the block of its if)
                    let need = depth + usize::from(kind == "cmp");
                    for d in 0..=need {
                        if !stacks.iter().any(|(dd, t)| *dd == d && *t == expected) {
                            return Err(format!("no block at depth {d} holds the extension instructions {expected:?}: {stacks:?}"));
                        }
                    }
                    if let Some((d, t)) = stacks.iter().find(|(_, t)| !t.is_empty() && *t != expected) {
                        return Err(format!("a block at depth {d} holds {t:?}, not {expected:?}"));
                    }
                    Ok(())
                });
                match r {
                    Ok(Ok(())) => checked += 1,
                    Ok(Err(e)) => return format!("(exttag fail {})", crate::sx::quote(&format!("{what}: {e}"))),
                    Err(_) => return format!("(exttag fail {})", crate::sx::quote(&format!("{what}: the analysis panicked"))),
                }
            }
        }
    }
    format!("(exttag ok {checked})")
}
