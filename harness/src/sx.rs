//! Minimal S-expression reader/writer shared by the harness modes.
//! Atoms: bare tokens; strings: "..." with the escapes \\ and \".

#[derive(Debug, Clone, PartialEq)]
pub enum Sx {
    Atom(String),
    Str(String),
    List(Vec<Sx>),
}

impl Sx {
    pub fn list(&self) -> &[Sx] {
        match self {
            Sx::List(v) => v,
            _ => panic!("sexp: expected list, got {self:?}"),
        }
    }
    pub fn atom(&self) -> &str {
        match self {
            Sx::Atom(s) => s,
            _ => panic!("sexp: expected atom, got {self:?}"),
        }
    }
    pub fn string(&self) -> &str {
        match self {
            Sx::Str(s) => s,
            _ => panic!("sexp: expected string, got {self:?}"),
        }
    }
    pub fn head(&self) -> &str {
        self.list()[0].atom()
    }
    pub fn args(&self) -> &[Sx] {
        &self.list()[1..]
    }
    pub fn num<T: std::str::FromStr>(&self) -> T
    where
        T::Err: std::fmt::Debug,
    {
        self.atom().parse::<T>().expect("sexp: number")
    }
}

pub fn parse(src: &str) -> Sx {
    let b = src.as_bytes();
    let mut i = 0usize;
    let r = parse_at(b, &mut i);
    r
}

fn skip_ws(b: &[u8], i: &mut usize) {
    while *i < b.len() && (b[*i] == b' ' || b[*i] == b'\n' || b[*i] == b'\t' || b[*i] == b'\r') {
        *i += 1;
    }
}

fn parse_at(b: &[u8], i: &mut usize) -> Sx {
    skip_ws(b, i);
    assert!(*i < b.len(), "sexp: unexpected end");
    match b[*i] {
        b'(' => {
            *i += 1;
            let mut v = vec![];
            loop {
                skip_ws(b, i);
                assert!(*i < b.len(), "sexp: unclosed list");
                if b[*i] == b')' {
                    *i += 1;
                    return Sx::List(v);
                }
                v.push(parse_at(b, i));
            }
        }
        b'"' => {
            *i += 1;
            let mut s = Vec::new();
            loop {
                assert!(*i < b.len(), "sexp: unclosed string");
                match b[*i] {
                    b'"' => {
                        *i += 1;
                        return Sx::Str(String::from_utf8(s).expect("utf8"));
                    }
                    b'\\' => {
                        s.push(b[*i + 1]);
                        *i += 2;
                    }
                    c => {
                        s.push(c);
                        *i += 1;
                    }
                }
            }
        }
        _ => {
            let st = *i;
            while *i < b.len() && !matches!(b[*i], b' ' | b'\n' | b'\t' | b'\r' | b'(' | b')' | b'"')
            {
                *i += 1;
            }
            Sx::Atom(String::from_utf8(b[st..*i].to_vec()).expect("utf8"))
        }
    }
}

/// Quote a string: printable ASCII kept, `\` and `"` escaped, anything else becomes `?`.
pub fn quote(s: &str) -> String {
    let mut o = String::with_capacity(s.len() + 2);
    o.push('"');
    for c in s.chars() {
        match c {
            '\\' => o.push_str("\\\\"),
            '"' => o.push_str("\\\""),
            ' '..='~' => o.push(c),
            _ => o.push('?'),
        }
    }
    o.push('"');
    o
}
