//! Implementation side of the correspondence check.
//!
//! Reads programs (one S-expression per line), builds the `ast::Main` with the public
//! constructors, runs `State::run` from /repo's working tree under `catch_unwind`, and prints one
//! canonical S-expression per program describing everything observable: errors, global tables,
//! global stack and, for every function, the complete block tree.
mod exttag;
mod extuse;
mod mirror;
mod sx;

use semantic_analyzer::ast;
use semantic_analyzer::semantic::State;
use semantic_analyzer::types::block_state::BlockState;
use semantic_analyzer::types::condition::{Condition, LogicCondition};
use semantic_analyzer::types::error::{StateErrorKind, StateErrorResult};
use semantic_analyzer::types::expression::{
    ExpressionOperations, ExpressionResult, ExpressionResultValue,
};
use semantic_analyzer::types::semantic::{
    ExtendedExpression, ExtendedSemanticContext, SemanticContextInstruction, SemanticStack,
    SemanticStackContext,
};
use semantic_analyzer::types::types::{PrimitiveTypes, StructTypes, Type};
use semantic_analyzer::types::{
    Constant, ConstantExpression, ConstantValue, Function, FunctionStatement, PrimitiveValue, Value,
};
use serde::{Deserialize, Serialize};
use std::cell::RefCell;
use std::fmt::Write as _;
use std::io::{BufRead, BufWriter, Write};
use std::rc::Rc;
use sx::{quote, Sx};

/// Custom instruction pushed by the harness extension.
#[derive(Debug, Clone, PartialEq, Serialize, Deserialize)]
#[serde(tag = "type", content = "content")]
pub enum Ins {
    /// adjacently tagged like the library's own enums: a change of the tagging of the enclosing
    /// `SemanticStackContext` (which holds `ExtendedExpression(Box<Ins>)`) is then felt
    Mark { tag: u64, reg: u64 },
}
impl SemanticContextInstruction for Ins {}

/// The fixed harness extension of DESIGN.md §4.5: allocate a register, push one custom
/// instruction, return a register result of the type chosen for this leaf.
#[derive(Debug, Clone, PartialEq, Serialize, Deserialize)]
pub struct Ext {
    /// the leaf's type as written in the source (the semantic type is computed when evaluated)
    #[serde(borrow)]
    pub ty: ast::Type<'static>,
    pub tag: u64,
}
impl ExtendedExpression<Ins> for Ext {
    fn expression(
        &self,
        _state: &mut State<Self, Ins>,
        block_state: &Rc<RefCell<BlockState<Ins>>>,
    ) -> ExpressionResult {
        block_state.borrow_mut().inc_register();
        let reg = block_state.borrow().last_register_number;
        block_state.borrow_mut().extended_expression(&Ins::Mark {
            tag: self.tag,
            reg,
        });
        ExpressionResult {
            expr_type: self.ty.clone().into(),
            expr_value: ExpressionResultValue::Register(reg),
        }
    }
}

type Main = ast::Main<'static, Ins, Ext>;
type Expr = ast::Expression<'static, Ins, Ext>;

fn leak(s: String) -> &'static str {
    Box::leak(s.into_boxed_str())
}

// ------------------------------------------------------------------------------------------------
// Building the AST

/// `(id "name" line offset)`; arbitrary (line, offset) go through the `Ident` deserialiser,
/// which is the only public way to make one.
fn ident(s: &Sx) -> ast::Ident<'static> {
    assert_eq!(s.head(), "id");
    let a = s.args();
    let name = a[0].string();
    let line: u32 = a[1].num();
    let off: usize = a[2].num();
    assert!(
        name.bytes().all(|c| c.is_ascii_alphanumeric() || c == b'_' || c == b'.' || c == b'+'),
        "identifier outside the domain charset"
    );
    if line == 1 && off == 0 {
        return ast::Ident::new(leak(name.to_string()));
    }
    let js = leak(format!(
        "{{\"offset\":{off},\"line\":{line},\"fragment\":\"{name}\",\"extra\":null}}"
    ));
    let id: ast::Ident<'static> = match serde_json::from_str(js) {
        Ok(id) => id,
        Err(e) => {
            // the library's identifier decoder refuses the text the library's encoder writes:
            // the program cannot be built (reported as `(nobuild ..)`; a C20 failure, not a crash
            // of the analysis)
            IDENT_DECODE.with(|c| {
                c.borrow_mut().get_or_insert_with(|| format!("identifier text {js} does not decode: {e}"));
            });
            NOBUILD.with(|c| c.set(true));
            return ast::Ident::new(leak(name.to_string()));
        }
    };
    // an identifier away from (1,0) exists only through the codec: the text just decoded must
    // give back the location and fragment it states (C20, checked in `codec` mode)
    if id.location_line() != line || id.location_offset() != off || id.fragment() != name {
        IDENT_DECODE.with(|c| {
            c.borrow_mut().get_or_insert_with(|| {
                format!(
                    "identifier text {js} decodes to fragment {:?} line {} offset {}",
                    id.fragment(),
                    id.location_line(),
                    id.location_offset()
                )
            });
        });
    }
    id
}

thread_local! {
    static SOURCE_FNS: RefCell<Vec<String>> = const { RefCell::new(Vec::new()) };
    static IDENT_DECODE: RefCell<Option<String>> = const { RefCell::new(None) };
    static NOBUILD: std::cell::Cell<bool> = const { std::cell::Cell::new(false) };
}

fn prim_ty(a: &str) -> ast::PrimitiveTypes {
    use ast::PrimitiveTypes as P;
    match a {
        "u8" => P::U8,
        "u16" => P::U16,
        "u32" => P::U32,
        "u64" => P::U64,
        "i8" => P::I8,
        "i16" => P::I16,
        "i32" => P::I32,
        "i64" => P::I64,
        "f32" => P::F32,
        "f64" => P::F64,
        "bool" => P::Bool,
        "char" => P::Char,
        "ptr" => P::Ptr,
        "none" => P::None,
        _ => panic!("prim type {a}"),
    }
}

fn struct_types(s: &Sx) -> ast::StructTypes<'static> {
    // (struct ID (attr ID TY)...)
    assert_eq!(s.head(), "struct");
    let a = s.args();
    ast::StructTypes {
        name: ident(&a[0]),
        attributes: a[1..]
            .iter()
            .map(|at| {
                assert_eq!(at.head(), "attr");
                ast::StructType {
                    attr_name: ident(&at.args()[0]),
                    attr_type: ty(&at.args()[1]),
                }
            })
            .collect(),
    }
}

fn ty(s: &Sx) -> ast::Type<'static> {
    match s.head() {
        "prim" => ast::Type::Primitive(prim_ty(s.args()[0].atom())),
        "struct" => ast::Type::Struct(struct_types(s)),
        "array" => ast::Type::Array(Box::new(ty(&s.args()[0])), s.args()[1].num()),
        h => panic!("type {h}"),
    }
}

fn prim_val(s: &Sx) -> ast::PrimitiveValue {
    // (pv TY N): floats and chars by bit pattern / code point
    use ast::PrimitiveValue as V;
    assert_eq!(s.head(), "pv");
    let t = s.args()[0].atom();
    let n = &s.args()[1];
    match t {
        "u8" => V::U8(n.num()),
        "u16" => V::U16(n.num()),
        "u32" => V::U32(n.num()),
        "u64" => V::U64(n.num()),
        "i8" => V::I8(n.num()),
        "i16" => V::I16(n.num()),
        "i32" => V::I32(n.num()),
        "i64" => V::I64(n.num()),
        "f32" => V::F32(f32::from_bits(n.num())),
        "f64" => V::F64(f64::from_bits(n.num())),
        "bool" => V::Bool(n.num::<u8>() != 0),
        "char" => V::Char(char::from_u32(n.num()).expect("char")),
        "ptr" => V::Ptr,
        "none" => V::None,
        _ => panic!("prim value {t}"),
    }
}

fn binop(a: &str) -> ast::ExpressionOperations {
    use ast::ExpressionOperations as O;
    match a {
        "Plus" => O::Plus,
        "Minus" => O::Minus,
        "Multiply" => O::Multiply,
        "Divide" => O::Divide,
        "ShiftLeft" => O::ShiftLeft,
        "ShiftRight" => O::ShiftRight,
        "And" => O::And,
        "Or" => O::Or,
        "Xor" => O::Xor,
        "Eq" => O::Eq,
        "NotEq" => O::NotEq,
        "Great" => O::Great,
        "Less" => O::Less,
        "GreatEq" => O::GreatEq,
        "LessEq" => O::LessEq,
        _ => panic!("binop {a}"),
    }
}

fn cval(s: &Sx) -> ast::ConstantValue<'static> {
    match s.head() {
        "cconst" => ast::ConstantValue::Constant(ast::ConstantName::new(ident(&s.args()[0]))),
        "cval" => ast::ConstantValue::Value(prim_val(&s.args()[0])),
        h => panic!("cval {h}"),
    }
}

/// `(cexpr CVAL (OP CVAL)...)` — a flat chain, nested to the right as the AST is.
fn cexpr(s: &Sx) -> ast::ConstantExpression<'static> {
    assert_eq!(s.head(), "cexpr");
    let a = s.args();
    let mut tail: Option<(ast::ExpressionOperations, Box<ast::ConstantExpression<'static>>)> = None;
    for link in a[1..].iter().rev() {
        let l = link.list();
        let e = ast::ConstantExpression {
            value: cval(&l[1]),
            operation: tail.take(),
        };
        tail = Some((binop(l[0].atom()), Box::new(e)));
    }
    ast::ConstantExpression {
        value: cval(&a[0]),
        operation: tail,
    }
}

fn expr_val(s: &Sx) -> ast::ExpressionValue<'static, Ins, Ext> {
    use ast::ExpressionValue as V;
    match s.head() {
        "name" => V::ValueName(ast::ValueName::new(ident(&s.args()[0]))),
        "prim" => V::PrimitiveValue(prim_val(&s.args()[0])),
        "call" => V::FunctionCall(call(s)),
        "field" => V::StructValue(ast::ExpressionStructValue {
            name: ast::ValueName::new(ident(&s.args()[0])),
            attribute: ast::ValueName::new(ident(&s.args()[1])),
        }),
        "sub" => V::Expression(Box::new(expr(&s.args()[0]))),
        "ext" => V::ExtendedExpression(Box::new(Ext {
            ty: ty(&s.args()[0]),
            tag: s.args()[1].num(),
        })),
        h => panic!("expr value {h}"),
    }
}

/// `(expr VAL (OP VAL)...)`
fn expr(s: &Sx) -> Expr {
    assert_eq!(s.head(), "expr");
    let a = s.args();
    let mut tail: Option<(ast::ExpressionOperations, Box<Expr>)> = None;
    for link in a[1..].iter().rev() {
        let l = link.list();
        let e = ast::Expression {
            expression_value: expr_val(&l[1]),
            operation: tail.take(),
        };
        tail = Some((binop(l[0].atom()), Box::new(e)));
    }
    ast::Expression {
        expression_value: expr_val(&a[0]),
        operation: tail,
    }
}

fn call(s: &Sx) -> ast::FunctionCall<'static, Ins, Ext> {
    // (call ID EXPR...)
    let a = s.args();
    ast::FunctionCall {
        name: ast::FunctionName::new(ident(&a[0])),
        parameters: a[1..].iter().map(expr).collect(),
    }
}

fn let_binding(s: &Sx) -> ast::LetBinding<'static, Ins, Ext> {
    // (let ID MUT (ty TY)|(noty) EXPR)
    let a = s.args();
    ast::LetBinding {
        name: ast::ValueName::new(ident(&a[0])),
        mutable: a[1].num::<u8>() != 0,
        value_type: match a[2].head() {
            "ty" => Some(ty(&a[2].args()[0])),
            "noty" => None,
            h => panic!("let type {h}"),
        },
        value: Box::new(expr(&a[3])),
    }
}

fn binding(s: &Sx) -> ast::Binding<'static, Ins, Ext> {
    let a = s.args();
    ast::Binding {
        name: ast::ValueName::new(ident(&a[0])),
        value: Box::new(expr(&a[1])),
    }
}

fn cmp(a: &str) -> ast::Condition {
    use ast::Condition as C;
    match a {
        "Great" => C::Great,
        "Less" => C::Less,
        "Eq" => C::Eq,
        "GreatEq" => C::GreatEq,
        "LessEq" => C::LessEq,
        "NotEq" => C::NotEq,
        _ => panic!("cmp {a}"),
    }
}

fn logic_cond(s: &Sx) -> ast::ExpressionLogicCondition<'static, Ins, Ext> {
    // (lc EXPR CMP EXPR) | (lc EXPR CMP EXPR LOGICOP LC)
    assert_eq!(s.head(), "lc");
    let a = s.args();
    ast::ExpressionLogicCondition {
        left: ast::ExpressionCondition {
            left: expr(&a[0]),
            condition: cmp(a[1].atom()),
            right: expr(&a[2]),
        },
        right: if a.len() > 3 {
            let op = match a[3].atom() {
                "And" => ast::LogicCondition::And,
                "Or" => ast::LogicCondition::Or,
                o => panic!("logic op {o}"),
            };
            Some((op, Box::new(logic_cond(&a[4]))))
        } else {
            None
        },
    }
}

fn if_bodies(s: &Sx) -> ast::IfBodyStatements<'static, Ins, Ext> {
    match s.head() {
        "ifbody" => ast::IfBodyStatements::If(s.args().iter().map(if_body_stmt).collect()),
        "loopbody" => ast::IfBodyStatements::Loop(s.args().iter().map(if_loop_body_stmt).collect()),
        h => panic!("if body {h}"),
    }
}

fn if_stmt(s: &Sx) -> ast::IfStatement<'static, Ins, Ext> {
    // (ifs COND BODY ELSE ELIF)
    assert_eq!(s.head(), "ifs");
    let a = s.args();
    ast::IfStatement {
        condition: match a[0].head() {
            "single" => ast::IfCondition::Single(expr(&a[0].args()[0])),
            "logic" => ast::IfCondition::Logic(logic_cond(&a[0].args()[0])),
            h => panic!("cond {h}"),
        },
        body: if_bodies(&a[1]),
        else_statement: match a[2].head() {
            "noelse" => None,
            "else" => Some(if_bodies(&a[2].args()[0])),
            h => panic!("else {h}"),
        },
        else_if_statement: match a[3].head() {
            "noelif" => None,
            "elif" => Some(Box::new(if_stmt(&a[3].args()[0]))),
            h => panic!("elif {h}"),
        },
    }
}

fn body_stmt(s: &Sx) -> ast::BodyStatement<'static, Ins, Ext> {
    use ast::BodyStatement as B;
    match s.head() {
        "let" => B::LetBinding(let_binding(s)),
        "bind" => B::Binding(binding(s)),
        "call" => B::FunctionCall(call(s)),
        "if" => B::If(if_stmt(&s.args()[0])),
        "loop" => B::Loop(s.args().iter().map(loop_body_stmt).collect()),
        "exprstmt" => B::Expression(expr(&s.args()[0])),
        "ret" => B::Return(expr(&s.args()[0])),
        h => panic!("body statement {h}"),
    }
}

fn if_body_stmt(s: &Sx) -> ast::IfBodyStatement<'static, Ins, Ext> {
    use ast::IfBodyStatement as B;
    match s.head() {
        "let" => B::LetBinding(let_binding(s)),
        "bind" => B::Binding(binding(s)),
        "call" => B::FunctionCall(call(s)),
        "if" => B::If(if_stmt(&s.args()[0])),
        "loop" => B::Loop(s.args().iter().map(loop_body_stmt).collect()),
        "ret" => B::Return(expr(&s.args()[0])),
        h => panic!("if-body statement {h}"),
    }
}

fn if_loop_body_stmt(s: &Sx) -> ast::IfLoopBodyStatement<'static, Ins, Ext> {
    use ast::IfLoopBodyStatement as B;
    match s.head() {
        "let" => B::LetBinding(let_binding(s)),
        "bind" => B::Binding(binding(s)),
        "call" => B::FunctionCall(call(s)),
        "if" => B::If(if_stmt(&s.args()[0])),
        "loop" => B::Loop(s.args().iter().map(loop_body_stmt).collect()),
        "ret" => B::Return(expr(&s.args()[0])),
        "break" => B::Break,
        "continue" => B::Continue,
        h => panic!("if-loop-body statement {h}"),
    }
}

fn loop_body_stmt(s: &Sx) -> ast::LoopBodyStatement<'static, Ins, Ext> {
    use ast::LoopBodyStatement as B;
    match s.head() {
        "let" => B::LetBinding(let_binding(s)),
        "bind" => B::Binding(binding(s)),
        "call" => B::FunctionCall(call(s)),
        "if" => B::If(if_stmt(&s.args()[0])),
        "loop" => B::Loop(s.args().iter().map(loop_body_stmt).collect()),
        "ret" => B::Return(expr(&s.args()[0])),
        "break" => B::Break,
        "continue" => B::Continue,
        h => panic!("loop-body statement {h}"),
    }
}

fn program(s: &Sx) -> Main {
    assert_eq!(s.head(), "program");
    s.args()
        .iter()
        .map(|t| match t.head() {
            "import" => ast::MainStatement::Import(
                t.args().iter().map(|i| ast::ImportName::new(ident(i))).collect(),
            ),
            "struct" => ast::MainStatement::Types(struct_types(t)),
            "const" => {
                let a = t.args();
                ast::MainStatement::Constant(ast::Constant {
                    name: ast::ConstantName::new(ident(&a[0])),
                    constant_type: ty(&a[1]),
                    constant_value: cexpr(&a[2]),
                })
            }
            "fn" => {
                // (fn ID (params (ID TY)...) TY (body STMT...))
                let a = t.args();
                assert_eq!(a[1].head(), "params");
                assert_eq!(a[3].head(), "body");
                ast::MainStatement::Function(ast::FunctionStatement::new(
                    ast::FunctionName::new(ident(&a[0])),
                    a[1].args()
                        .iter()
                        .map(|p| ast::FunctionParameter {
                            name: ast::ParameterName::new(ident(&p.list()[0])),
                            parameter_type: ty(&p.list()[1]),
                        })
                        .collect(),
                    ty(&a[2]),
                    a[3].args().iter().map(body_stmt).collect(),
                ))
            }
            h => panic!("top-level {h}"),
        })
        .collect()
}

// ------------------------------------------------------------------------------------------------
// Canonical dump

fn d_prim_ty(p: &PrimitiveTypes) -> &'static str {
    use PrimitiveTypes as P;
    match p {
        P::U8 => "u8",
        P::U16 => "u16",
        P::U32 => "u32",
        P::U64 => "u64",
        P::I8 => "i8",
        P::I16 => "i16",
        P::I32 => "i32",
        P::I64 => "i64",
        P::F32 => "f32",
        P::F64 => "f64",
        P::Bool => "bool",
        P::Char => "char",
        P::Ptr => "ptr",
        P::None => "none",
    }
}

fn d_struct(o: &mut String, st: &StructTypes) {
    write!(o, "(s {}", quote(&st.name)).unwrap();
    let mut attrs: Vec<_> = st.attributes.iter().collect();
    attrs.sort_by_key(|(_, a)| a.attr_index);
    for (k, a) in attrs {
        if k != &a.attr_name {
            o.push_str(" (keymismatch)");
        }
        write!(o, " (a {} {} ", quote(&a.attr_name.to_string()), a.attr_index).unwrap();
        d_ty(o, &a.attr_type);
        o.push(')');
    }
    if !st.methods.is_empty() {
        o.push_str(" (methods)");
    }
    o.push(')');
}

pub(crate) fn d_ty(o: &mut String, t: &Type) {
    match t {
        Type::Primitive(p) => write!(o, "(p {})", d_prim_ty(p)).unwrap(),
        Type::Struct(st) => d_struct(o, st),
        Type::Array(t, n) => {
            o.push_str("(arr ");
            d_ty(o, t);
            write!(o, " {n})").unwrap();
        }
    }
}

pub(crate) fn d_pv(o: &mut String, v: &PrimitiveValue) {
    use PrimitiveValue as V;
    match v {
        V::U8(n) => write!(o, "(pv u8 {n})"),
        V::U16(n) => write!(o, "(pv u16 {n})"),
        V::U32(n) => write!(o, "(pv u32 {n})"),
        V::U64(n) => write!(o, "(pv u64 {n})"),
        V::I8(n) => write!(o, "(pv i8 {n})"),
        V::I16(n) => write!(o, "(pv i16 {n})"),
        V::I32(n) => write!(o, "(pv i32 {n})"),
        V::I64(n) => write!(o, "(pv i64 {n})"),
        V::F32(n) => write!(o, "(pv f32 {})", n.to_bits()),
        V::F64(n) => write!(o, "(pv f64 {})", n.to_bits()),
        V::Bool(b) => write!(o, "(pv bool {})", u8::from(*b)),
        V::Char(c) => write!(o, "(pv char {})", u32::from(*c)),
        V::Ptr => write!(o, "(pv ptr 0)"),
        V::None => write!(o, "(pv none 0)"),
    }
    .unwrap();
}

fn d_value(o: &mut String, v: &Value) {
    write!(o, "(v {} ", quote(&v.inner_name.to_string())).unwrap();
    d_ty(o, &v.inner_type);
    write!(
        o,
        " {} {} {})",
        u8::from(v.mutable),
        u8::from(v.alloca),
        u8::from(v.malloc)
    )
    .unwrap();
}

fn d_eres(o: &mut String, r: &ExpressionResult) {
    o.push_str("(r ");
    d_ty(o, &r.expr_type);
    o.push(' ');
    match &r.expr_value {
        ExpressionResultValue::Register(n) => write!(o, "(reg {n})").unwrap(),
        ExpressionResultValue::PrimitiveValue(v) => d_pv(o, v),
    }
    o.push(')');
}

fn d_op(op: &ExpressionOperations) -> String {
    format!("{op:?}")
}

fn d_cexpr(o: &mut String, e: &ConstantExpression) {
    fn cv(o: &mut String, v: &ConstantValue) {
        match v {
            ConstantValue::Constant(n) => write!(o, "(cc {})", quote(&n.to_string())).unwrap(),
            ConstantValue::Value(v) => {
                o.push_str("(cv ");
                d_pv(o, v);
                o.push(')');
            }
        }
    }
    o.push_str("(ce ");
    cv(o, &e.value);
    let mut cur = &e.operation;
    while let Some((op, next)) = cur {
        write!(o, " ({} ", d_op(op)).unwrap();
        cv(o, &next.value);
        o.push(')');
        cur = &next.operation;
    }
    o.push(')');
}

fn d_const(o: &mut String, c: &Constant) {
    write!(o, "(c {} ", quote(&c.name.to_string())).unwrap();
    d_ty(o, &c.constant_type);
    o.push(' ');
    d_cexpr(o, &c.constant_value);
    o.push(')');
}

fn d_func(o: &mut String, f: &Function) {
    write!(o, "(f {} ", quote(&f.inner_name.to_string())).unwrap();
    d_ty(o, &f.inner_type);
    o.push_str(" (");
    for (i, p) in f.parameters.iter().enumerate() {
        if i > 0 {
            o.push(' ');
        }
        d_ty(o, p);
    }
    o.push_str("))");
}

fn d_cond(c: &Condition) -> String {
    format!("{c:?}")
}

fn d_instr(o: &mut String, i: &SemanticStackContext<Ins>, prog: &Main) {
    use SemanticStackContext as S;
    match i {
        S::ExpressionValue {
            expression,
            register_number,
        } => {
            o.push_str("(ExpressionValue ");
            d_value(o, expression);
            write!(o, " {register_number})").unwrap();
        }
        S::ExpressionConst {
            expression,
            register_number,
        } => {
            o.push_str("(ExpressionConst ");
            d_const(o, expression);
            write!(o, " {register_number})").unwrap();
        }
        S::ExpressionStructValue {
            expression,
            index,
            register_number,
        } => {
            o.push_str("(ExpressionStructValue ");
            d_value(o, expression);
            write!(o, " {index} {register_number})").unwrap();
        }
        S::ExpressionOperation {
            operation,
            left_value,
            right_value,
            register_number,
        } => {
            write!(o, "(ExpressionOperation {} ", d_op(operation)).unwrap();
            d_eres(o, left_value);
            o.push(' ');
            d_eres(o, right_value);
            write!(o, " {register_number})").unwrap();
        }
        S::Call {
            call,
            params,
            register_number,
        } => {
            o.push_str("(Call ");
            d_func(o, call);
            o.push_str(" (");
            for (k, p) in params.iter().enumerate() {
                if k > 0 {
                    o.push(' ');
                }
                d_eres(o, p);
            }
            write!(o, ") {register_number})").unwrap();
        }
        S::LetBinding {
            let_decl,
            expr_result,
        } => {
            o.push_str("(LetBinding ");
            d_value(o, let_decl);
            o.push(' ');
            d_eres(o, expr_result);
            o.push(')');
        }
        S::Binding { val, expr_result } => {
            o.push_str("(Binding ");
            d_value(o, val);
            o.push(' ');
            d_eres(o, expr_result);
            o.push(')');
        }
        S::FunctionDeclaration { fn_decl } => {
            write!(o, "(FunctionDeclaration {} (", quote(&fn_decl.name.to_string())).unwrap();
            for (k, p) in fn_decl.parameters.iter().enumerate() {
                if k > 0 {
                    o.push(' ');
                }
                write!(o, "(param {} ", quote(&p.to_string())).unwrap();
                d_ty(o, &p.parameter_type);
                o.push(')');
            }
            o.push_str(") ");
            d_ty(o, &fn_decl.result_type);
            // the body mirror is compared in place: printed from the semantic types, it must be
            // the text of a function of the program (printed independently from the source; a
            // comparison with `FunctionStatement::from(f)` would hide a wrong conversion)
            let m = mirror::mirror_fn(fn_decl);
            let ok = SOURCE_FNS.with(|c| c.borrow().iter().any(|s| s == &m))
                && prog.iter().any(|m| match m {
                    ast::MainStatement::Function(f) => &FunctionStatement::from(f.clone()) == fn_decl,
                    _ => false,
                });
            write!(o, " {})", u8::from(ok)).unwrap();
        }
        S::Constant { const_decl } => {
            o.push_str("(Constant ");
            d_const(o, const_decl);
            o.push(')');
        }
        S::Types { type_decl } => {
            o.push_str("(Types ");
            d_struct(o, type_decl);
            o.push(')');
        }
        S::ExpressionFunctionReturn { expr_result } => {
            o.push_str("(ExpressionFunctionReturn ");
            d_eres(o, expr_result);
            o.push(')');
        }
        S::ExpressionFunctionReturnWithLabel { expr_result } => {
            o.push_str("(ExpressionFunctionReturnWithLabel ");
            d_eres(o, expr_result);
            o.push(')');
        }
        S::SetLabel { label } => write!(o, "(SetLabel {})", quote(&label.to_string())).unwrap(),
        S::JumpTo { label } => write!(o, "(JumpTo {})", quote(&label.to_string())).unwrap(),
        S::IfConditionExpression {
            expr_result,
            label_if_begin,
            label_if_end,
        } => {
            o.push_str("(IfConditionExpression ");
            d_eres(o, expr_result);
            write!(
                o,
                " {} {})",
                quote(&label_if_begin.to_string()),
                quote(&label_if_end.to_string())
            )
            .unwrap();
        }
        S::ConditionExpression {
            left_result,
            right_result,
            condition,
            register_number,
        } => {
            o.push_str("(ConditionExpression ");
            d_eres(o, left_result);
            o.push(' ');
            d_eres(o, right_result);
            write!(o, " {} {register_number})", d_cond(condition)).unwrap();
        }
        S::JumpFunctionReturn { expr_result } => {
            o.push_str("(JumpFunctionReturn ");
            d_eres(o, expr_result);
            o.push(')');
        }
        S::LogicCondition {
            logic_condition,
            left_register_result,
            right_register_result,
            register_number,
        } => {
            let op = match logic_condition {
                LogicCondition::And => "And",
                LogicCondition::Or => "Or",
            };
            write!(
                o,
                "(LogicCondition {op} {left_register_result} {right_register_result} {register_number})"
            )
            .unwrap();
        }
        S::IfConditionLogic {
            label_if_begin,
            label_if_end,
            result_register,
        } => write!(
            o,
            "(IfConditionLogic {} {} {result_register})",
            quote(&label_if_begin.to_string()),
            quote(&label_if_end.to_string())
        )
        .unwrap(),
        S::FunctionArg { value, func_arg } => {
            o.push_str("(FunctionArg ");
            d_value(o, value);
            write!(o, " (param {} ", quote(&func_arg.to_string())).unwrap();
            d_ty(o, &func_arg.parameter_type);
            o.push_str("))");
        }
        S::ExtendedExpression(ins) => {
            let Ins::Mark { tag, reg } = ins.as_ref();
            write!(o, "(Ext {tag} {reg})").unwrap();
        }
        // an instruction kind added to the library after this harness was written: printed by
        // its debug name (it disagrees with the model wherever it is emitted)
        #[allow(unreachable_patterns)]
        other => {
            let dbg = format!("{other:?}");
            let name = dbg.split(|c: char| !c.is_ascii_alphanumeric()).next().unwrap_or("");
            write!(o, "(Unknown {name})").unwrap();
        }
    }
}

fn d_stack(o: &mut String, head: &str, st: SemanticStack<Ins>, prog: &Main) {
    write!(o, "({head}").unwrap();
    for i in st.get() {
        o.push(' ');
        d_instr(o, &i, prog);
    }
    o.push(')');
}

fn d_block(
    o: &mut String,
    b: &Rc<RefCell<BlockState<Ins>>>,
    lister: Option<&Rc<RefCell<BlockState<Ins>>>>,
    prog: &Main,
) {
    let bs = b.borrow();
    o.push_str("(block (values");
    let mut vals: Vec<(String, &Value)> = bs.values.iter().map(|(k, v)| (k.to_string(), v)).collect();
    vals.sort_by(|a, b| a.0.cmp(&b.0));
    for (k, v) in vals {
        write!(o, " (val {} ", quote(&k)).unwrap();
        d_value(o, v);
        o.push(')');
    }
    o.push_str(") (inner");
    let mut names: Vec<String> = bs.inner_values_name.iter().map(ToString::to_string).collect();
    names.sort();
    for n in names {
        write!(o, " {}", quote(&n)).unwrap();
    }
    o.push_str(") (labels");
    let mut labels: Vec<String> = bs.labels.iter().map(ToString::to_string).collect();
    labels.sort();
    for n in labels {
        write!(o, " {}", quote(&n)).unwrap();
    }
    let parent_ok = match (&bs.parent, lister) {
        (None, None) => true,
        (Some(p), Some(l)) => Rc::ptr_eq(p, l),
        _ => false,
    };
    write!(
        o,
        ") (reg {}) (mret {}) (parent-ok {}) ",
        bs.last_register_number,
        u8::from(bs.manual_return),
        u8::from(parent_ok)
    )
    .unwrap();
    d_stack(o, "ctx", bs.get_context(), prog);
    o.push_str(" (children");
    for c in &bs.children {
        o.push(' ');
        d_block(o, c, Some(b), prog);
    }
    o.push_str("))");
}

fn d_kind(k: &StateErrorKind) -> String {
    format!("{k:?}")
}

fn d_errors(o: &mut String, errs: &[StateErrorResult]) {
    o.push_str("(errors");
    for e in errs {
        write!(
            o,
            " (err {} {} {} {})",
            d_kind(&e.kind),
            quote(&e.value),
            e.location.0.line(),
            e.location.0.offset()
        )
        .unwrap();
    }
    o.push(')');
}

fn dump(state: &State<Ext, Ins>, prog: &Main) -> String {
    let mut o = String::new();
    o.push_str("(out ");
    d_errors(&mut o, &state.errors);
    o.push_str(" (types");
    let mut tys: Vec<_> = state.global.types.iter().map(|(k, v)| (k.to_string(), v)).collect();
    tys.sort_by(|a, b| a.0.cmp(&b.0));
    for (k, t) in tys {
        write!(o, " (T {} ", quote(&k)).unwrap();
        d_ty(&mut o, t);
        o.push(')');
    }
    o.push_str(") (constants");
    let mut cs: Vec<_> = state
        .global
        .constants
        .iter()
        .map(|(k, v)| (k.to_string(), v))
        .collect();
    cs.sort_by(|a, b| a.0.cmp(&b.0));
    for (k, c) in cs {
        write!(o, " (C {} ", quote(&k)).unwrap();
        d_const(&mut o, c);
        o.push(')');
    }
    o.push_str(") (functions");
    let mut fs: Vec<_> = state
        .global
        .functions
        .iter()
        .map(|(k, v)| (k.to_string(), v))
        .collect();
    fs.sort_by(|a, b| a.0.cmp(&b.0));
    for (k, f) in fs {
        write!(o, " (F {} ", quote(&k)).unwrap();
        d_func(&mut o, f);
        o.push(')');
    }
    o.push_str(") ");
    d_stack(&mut o, "gstack", state.global.context.clone(), prog);
    o.push_str(" (fns");
    for b in &state.context {
        o.push(' ');
        d_block(&mut o, b, None, prog);
    }
    o.push_str("))");
    o
}

fn analyse(prog: &Main) -> Option<String> {
    let r = std::panic::catch_unwind(std::panic::AssertUnwindSafe(|| {
        let mut state: State<Ext, Ins> = State::new();
        state.run(prog);
        dump(&state, prog)
    }));
    r.ok()
}

// ------------------------------------------------------------------------------------------------
// C20: codec round trips on the real serde implementation

fn from_str_unbounded<'a, T: serde::Deserialize<'a>>(s: &'a str) -> Result<T, serde_json::Error> {
    let mut de = serde_json::Deserializer::from_str(s);
    de.disable_recursion_limit();
    let v = T::deserialize(&mut de)?;
    de.end()?;
    Ok(v)
}

fn codec_check(prog: &Main) -> Result<(), String> {
    // AST
    let js = serde_json::to_string(prog).map_err(|e| format!("ast to_string: {e}"))?;
    let js: &'static str = leak(js);
    // serde_json's default recursion limit (128) is a property of that crate's reader, not of the
    // library's codec: deep ASTs are read with the limit disabled (the harness runs on a 1 GiB stack)
    let prog2: Main = from_str_unbounded(js).map_err(|e| format!("ast from_str: {e}"))?;
    if &prog2 != prog {
        return Err("ast: decoded value differs".into());
    }
    let js2 = serde_json::to_string(&prog2).map_err(|e| format!("ast re-encode: {e}"))?;
    if js2 != js {
        return Err("ast: re-encoded text differs".into());
    }
    // analysis of the decoded AST
    let mut s1: State<Ext, Ins> = State::new();
    s1.run(prog);
    let mut s2: State<Ext, Ins> = State::new();
    s2.run(&prog2);
    // error texts that are debug dumps are not part of the property (kinds, identifiers, locations)
    let blank = |st: &mut State<Ext, Ins>| {
        for e in &mut st.errors {
            if matches!(
                e.kind,
                StateErrorKind::ConditionIsEmpty
                    | StateErrorKind::ForbiddenCodeAfterReturnDeprecated
                    | StateErrorKind::ForbiddenCodeAfterBreakDeprecated
                    | StateErrorKind::ForbiddenCodeAfterContinueDeprecated
            ) {
                e.value = String::new();
            }
        }
    };
    let errors1 = s1.errors.clone();
    blank(&mut s1);
    blank(&mut s2);
    let (d1, d2) = (dump(&s1, prog), dump(&s2, &prog2));
    s1.errors = errors1;
    if d1 != d2 {
        let k = d1.bytes().zip(d2.bytes()).take_while(|(a, b)| a == b).count();
        let lo = k.saturating_sub(60);
        return Err(format!(
            "analysis of the decoded ast differs at byte {k}: {} | {}",
            d1.get(lo..(k + 60).min(d1.len())).unwrap_or("?"),
            d2.get(lo..(k + 60).min(d2.len())).unwrap_or("?")
        ));
    }
    // every produced stack
    let mut stacks: Vec<SemanticStack<Ins>> = vec![s1.global.context.clone()];
    fn collect(b: &Rc<RefCell<BlockState<Ins>>>, out: &mut Vec<SemanticStack<Ins>>) {
        out.push(b.borrow().get_context());
        for c in &b.borrow().children {
            collect(c, out);
        }
    }
    for b in &s1.context {
        collect(b, &mut stacks);
    }
    for (k, st) in stacks.iter().enumerate() {
        let t = serde_json::to_string(st).map_err(|e| format!("stack {k} to_string: {e}"))?;
        let back: SemanticStack<Ins> =
            from_str_unbounded(&t).map_err(|e| format!("stack {k} from_str: {e}"))?;
        if &back != st {
            return Err(format!("stack {k}: decoded value differs"));
        }
        let t2 = serde_json::to_string(&back).map_err(|e| format!("stack {k} re-encode: {e}"))?;
        if t2 != t {
            return Err(format!("stack {k}: re-encoded text differs"));
        }
    }
    // error list
    let t = serde_json::to_string(&s1.errors).map_err(|e| format!("errors to_string: {e}"))?;
    let back: Vec<StateErrorResult> =
        serde_json::from_str(&t).map_err(|e| format!("errors from_str: {e}"))?;
    if back != s1.errors {
        return Err("errors: decoded value differs".into());
    }
    let t2 = serde_json::to_string(&back).map_err(|e| format!("errors re-encode: {e}"))?;
    if t2 != t {
        return Err("errors: re-encoded text differs".into());
    }
    Ok(())
}

/// JSON trees (serde_json) of the AST, the produced stacks and the error list, for the
/// tree-level comparison with the Coq codec model.
fn codec_tree(prog: &Main) -> String {
    let ast = serde_json::to_string(prog).unwrap_or_else(|e| format!("\"ERROR {e}\""));
    let r = std::panic::catch_unwind(std::panic::AssertUnwindSafe(|| {
        let mut state: State<Ext, Ins> = State::new();
        state.run(prog);
        let errors = serde_json::to_string(&state.errors).expect("errors json");
        let gstack = serde_json::to_string(&state.global.context).expect("gstack json");
        let stacks: Vec<String> = state
            .context
            .iter()
            .map(|b| serde_json::to_string(&b.borrow().get_context()).expect("stack json"))
            .collect();
        format!(
            "{{\"ast\":{ast},\"errors\":{errors},\"gstack\":{gstack},\"stacks\":[{}]}}",
            stacks.join(",")
        )
    }));
    r.unwrap_or_else(|_| format!("{{\"ast\":{ast},\"panic\":true}}"))
}

fn work(mode: &str, input: &str, output: &str) {
    let inp = std::io::BufReader::new(std::fs::File::open(input).expect("open input"));
    let mut out = BufWriter::new(std::fs::File::create(output).expect("create output"));
    for (lineno, line) in inp.lines().enumerate() {
        let line = line.expect("read");
        if line.trim().is_empty() {
            continue;
        }
        IDENT_DECODE.with(|c| *c.borrow_mut() = None);
        NOBUILD.with(|c| c.set(false));
        let built = std::panic::catch_unwind(|| {
            let tree = sx::parse(&line);
            SOURCE_FNS.with(|c| *c.borrow_mut() = mirror::source_fns(&tree));
            program(&tree)
        });
        let Ok(prog) = built else {
            eprintln!("harness: malformed input at line {}", lineno + 1);
            std::process::exit(3);
        };
        let nobuild = NOBUILD.with(std::cell::Cell::get);
        let res = match mode {
            "run" | "json" if nobuild => format!(
                "(nobuild {})",
                quote(&IDENT_DECODE.with(|c| c.borrow().clone()).unwrap_or_default())
            ),
            "run" => analyse(&prog).unwrap_or_else(|| "(panic)".to_string()),
            "codec" => {
                let r = std::panic::catch_unwind(std::panic::AssertUnwindSafe(|| codec_check(&prog)));
                let r = match IDENT_DECODE.with(|c| c.borrow().clone()) {
                    Some(e) => Ok(Err(e)),
                    None => r,
                };
                match r {
                    Ok(Ok(())) => "(codec ok)".to_string(),
                    Ok(Err(e)) => format!("(codec fail {})", quote(&e)),
                    Err(_) => "(codec panic)".to_string(),
                }
            }
            "json" => codec_tree(&prog),
            _ => panic!("mode {mode}"),
        };
        writeln!(out, "{res}").expect("write");
    }
    out.flush().expect("flush");
}

fn main() {
    let args: Vec<String> = std::env::args().collect();
    if args.len() == 2 && args[1] == "extuse" {
        std::panic::set_hook(Box::new(|_| {}));
        println!("{}", extuse::run());
        return;
    }
    if args.len() == 2 && args[1] == "exttag" {
        std::panic::set_hook(Box::new(|_| {}));
        println!("{}", exttag::run());
        return;
    }
    if args.len() != 4 {
        eprintln!("usage: verif-harness run|codec|json <programs.sexp> <out>");
        std::process::exit(2);
    }
    std::panic::set_hook(Box::new(|_| {}));
    let (mode, input, output) = (args[1].clone(), args[2].clone(), args[3].clone());
    // deep nesting recurses deeply in the analyzer: give it room so that a native stack
    // overflow is not mistaken for a finding on moderately nested inputs
    let t = std::thread::Builder::new()
        .stack_size(1 << 30)
        .spawn(move || work(&mode, &input, &output))
        .expect("spawn");
    if t.join().is_err() {
        eprintln!("harness: malformed input (reader panicked)");
        std::process::exit(3);
    }
}
