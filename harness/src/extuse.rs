//! C08 speaks of "every operand of every instruction (including instructions pushed by an
//! extension)".  The extension of the correspondence check (`Ext` / `Ins` in main.rs, the one C19
//! prescribes) pushes an instruction that writes a register and reads none.  This module runs the
//! library with a SECOND extension whose instruction does read a register: the leaf `neg(v)`
//! lets the library analyse the read of `v` (`State::expression`), then pushes
//! `Neg { operand, register_number }`.  A few fixed programs are analysed and every function
//! stack AND every block's own stack is checked directly: each register read (core operands,
//! logic inputs, conditional subjects, the extension instruction's operand) was written by an
//! earlier instruction of the same stack.  No model is involved: this is the property itself,
//! decided on the implementation's output.  (No calls or field reads in these programs: the
//! recorded finding F7 — an operand naming the register after a call — is kept out.)
use semantic_analyzer::ast::{self, Ident};
use semantic_analyzer::semantic::State;
use semantic_analyzer::types::block_state::BlockState;
use semantic_analyzer::types::expression::{ExpressionResult, ExpressionResultValue};
use semantic_analyzer::types::semantic::{
    ExtendedExpression, ExtendedSemanticContext, SemanticContextInstruction, SemanticStackContext,
};
use std::cell::RefCell;
use std::collections::HashSet;
use std::rc::Rc;

#[derive(Clone, Debug, PartialEq, serde::Serialize, serde::Deserialize)]
pub struct Neg {
    operand: ExpressionResult,
    register_number: u64,
}
impl SemanticContextInstruction for Neg {}

#[derive(Clone, Debug, PartialEq, serde::Serialize, serde::Deserialize)]
pub struct NegOf {
    value: String,
}

type Expr = ast::Expression<'static, Neg, NegOf>;

impl ExtendedExpression<Neg> for NegOf {
    fn expression(
        &self,
        state: &mut State<Self, Neg>,
        block_state: &Rc<RefCell<BlockState<Neg>>>,
    ) -> ExpressionResult {
        let name: &'static str = Box::leak(self.value.clone().into_boxed_str());
        let operand_ast: Expr = ast::Expression {
            expression_value: ast::ExpressionValue::ValueName(ast::ValueName::new(Ident::new(name))),
            operation: None,
        };
        let operand = state
            .expression(&operand_ast, block_state)
            .expect("operand should be analysed");
        block_state.borrow_mut().inc_register();
        let register_number = block_state.borrow().last_register_number;
        block_state.borrow_mut().extended_expression(&Neg {
            operand: operand.clone(),
            register_number,
        });
        ExpressionResult {
            expr_type: operand.expr_type,
            expr_value: ExpressionResultValue::Register(register_number),
        }
    }
}

fn violations(stack: &[SemanticStackContext<Neg>]) -> Vec<String> {
    fn read_reg(w: &HashSet<u64>, reg: u64, idx: usize, v: &mut Vec<String>) {
        if !w.contains(&reg) {
            v.push(format!("instruction #{idx} reads register {reg} that no earlier instruction wrote"));
        }
    }
    fn read(w: &HashSet<u64>, r: &ExpressionResult, idx: usize, v: &mut Vec<String>) {
        if let ExpressionResultValue::Register(reg) = r.expr_value {
            read_reg(w, reg, idx, v);
        }
    }
    use SemanticStackContext as S;
    let mut w: HashSet<u64> = HashSet::new();
    let mut out = vec![];
    for (idx, i) in stack.iter().enumerate() {
        let v = &mut out;
        match i {
            S::ExpressionValue { register_number, .. }
            | S::ExpressionConst { register_number, .. }
            | S::ExpressionStructValue { register_number, .. } => {
                w.insert(*register_number);
            }
            S::ExpressionOperation { left_value, right_value, register_number, .. } => {
                read(&w, left_value, idx, v);
                read(&w, right_value, idx, v);
                w.insert(*register_number);
            }
            S::ConditionExpression { left_result, right_result, register_number, .. } => {
                read(&w, left_result, idx, v);
                read(&w, right_result, idx, v);
                w.insert(*register_number);
            }
            S::Call { params, register_number, .. } => {
                for p in params {
                    read(&w, p, idx, v);
                }
                w.insert(*register_number);
            }
            S::LetBinding { expr_result, .. }
            | S::Binding { expr_result, .. }
            | S::ExpressionFunctionReturn { expr_result }
            | S::ExpressionFunctionReturnWithLabel { expr_result }
            | S::JumpFunctionReturn { expr_result }
            | S::IfConditionExpression { expr_result, .. } => read(&w, expr_result, idx, v),
            S::LogicCondition { left_register_result, right_register_result, register_number, .. } => {
                read_reg(&w, *left_register_result, idx, v);
                read_reg(&w, *right_register_result, idx, v);
                w.insert(*register_number);
            }
            S::IfConditionLogic { result_register, .. } => read_reg(&w, *result_register, idx, v),
            S::ExtendedExpression(n) => {
                read(&w, &n.operand, idx, v);
                w.insert(n.register_number);
            }
            _ => (),
        }
    }
    out
}

// ------------------------------------------------------------------------------------ AST helpers
fn id(s: &'static str) -> Ident<'static> {
    Ident::new(s)
}
fn u64t() -> ast::Type<'static> {
    ast::Type::Primitive(ast::PrimitiveTypes::U64)
}
fn var(s: &'static str) -> ast::ExpressionValue<'static, Neg, NegOf> {
    ast::ExpressionValue::ValueName(ast::ValueName::new(id(s)))
}
fn neg(s: &'static str) -> ast::ExpressionValue<'static, Neg, NegOf> {
    ast::ExpressionValue::ExtendedExpression(Box::new(NegOf { value: s.to_string() }))
}
fn lit(n: u64) -> ast::ExpressionValue<'static, Neg, NegOf> {
    ast::ExpressionValue::PrimitiveValue(ast::PrimitiveValue::U64(n))
}
fn e1(v: ast::ExpressionValue<'static, Neg, NegOf>) -> Expr {
    ast::Expression { expression_value: v, operation: None }
}
fn e2(
    a: ast::ExpressionValue<'static, Neg, NegOf>,
    op: ast::ExpressionOperations,
    b: ast::ExpressionValue<'static, Neg, NegOf>,
) -> Expr {
    ast::Expression { expression_value: a, operation: Some((op, Box::new(e1(b)))) }
}
fn let_(n: &'static str, e: Expr) -> ast::LetBinding<'static, Neg, NegOf> {
    ast::LetBinding { name: ast::ValueName::new(id(n)), mutable: false, value_type: None, value: Box::new(e) }
}
fn func(
    n: &'static str,
    body: Vec<ast::BodyStatement<'static, Neg, NegOf>>,
) -> ast::MainStatement<'static, Neg, NegOf> {
    ast::MainStatement::Function(ast::FunctionStatement::new(
        ast::FunctionName::new(id(n)),
        vec![ast::FunctionParameter { name: ast::ParameterName::new(id("x")), parameter_type: u64t() }],
        u64t(),
        body,
    ))
}

fn programs() -> Vec<(&'static str, ast::Main<'static, Neg, NegOf>)> {
    use ast::ExpressionOperations as O;
    let cond = |v: &'static str| {
        ast::IfCondition::Logic(ast::ExpressionLogicCondition {
            left: ast::ExpressionCondition { left: e1(var(v)), condition: ast::Condition::Great, right: e1(lit(1)) },
            right: None,
        })
    };
    vec![
        // fn f(x) { return neg(x) + x }
        ("operand of an operation", vec![func("f", vec![ast::BodyStatement::Return(e2(neg("x"), O::Plus, var("x")))])]),
        // fn g(x) { let y = neg(x); if y > 1 { let z = neg(y); return z } return y }
        (
            "nested block",
            vec![func(
                "g",
                vec![
                    ast::BodyStatement::LetBinding(let_("y", e1(neg("x")))),
                    ast::BodyStatement::If(ast::IfStatement {
                        condition: cond("y"),
                        body: ast::IfBodyStatements::If(vec![
                            ast::IfBodyStatement::LetBinding(let_("z", e1(neg("y")))),
                            ast::IfBodyStatement::Return(e1(var("z"))),
                        ]),
                        else_statement: None,
                        else_if_statement: None,
                    }),
                    ast::BodyStatement::Return(e1(var("y"))),
                ],
            )],
        ),
        // fn h(x) { loop { let a = neg(x) * neg(x); if a > 1 { break } } return neg(x) }
        (
            "loop body and return value",
            vec![func(
                "h",
                vec![
                    ast::BodyStatement::Loop(vec![
                        ast::LoopBodyStatement::LetBinding(let_("a", e2(neg("x"), O::Multiply, neg("x")))),
                        ast::LoopBodyStatement::If(ast::IfStatement {
                            condition: cond("a"),
                            body: ast::IfBodyStatements::Loop(vec![ast::IfLoopBodyStatement::Break]),
                            else_statement: None,
                            else_if_statement: None,
                        }),
                    ]),
                    ast::BodyStatement::Return(e1(neg("x"))),
                ],
            )],
        ),
    ]
}

fn all_stacks(b: &Rc<RefCell<BlockState<Neg>>>, path: String, out: &mut Vec<(String, Vec<SemanticStackContext<Neg>>)>) {
    out.push((path.clone(), b.borrow().get_context().get()));
    for (k, c) in b.borrow().children.iter().enumerate() {
        all_stacks(c, format!("{path}/{k}"), out);
    }
}

/// One line: `(extuse ok N)` or `(extuse fail "...")`.
pub fn run() -> String {
    let mut checked = 0;
    for (what, prog) in programs() {
        let r = std::panic::catch_unwind(|| {
            let mut st: State<NegOf, Neg> = State::new();
            st.run(&prog);
            if !st.errors.is_empty() {
                return Err(format!("{what}: the program is rejected: {:?}", st.errors[0].kind));
            }
            let mut stacks = vec![];
            for (k, root) in st.context.iter().enumerate() {
                all_stacks(root, format!("fn{k}"), &mut stacks);
            }
            let mut n = 0;
            for (path, stack) in &stacks {
                if path.matches('/').count() == 0
                    && !stack.iter().any(|i| matches!(i, SemanticStackContext::ExtendedExpression(_)))
                {
                    return Err(format!("{what}: the extension instruction is missing from the function stack"));
                }
                // a block's own stack starts in the middle of the function: only the function stack
                // (the root) must be closed under def-use
                if path.matches('/').count() == 0 {
                    let v = violations(stack);
                    if !v.is_empty() {
                        return Err(format!("{what}: {path}: {}", v[0]));
                    }
                    n += 1;
                }
            }
            Ok(n)
        });
        match r {
            Ok(Ok(n)) => checked += n,
            Ok(Err(e)) => return format!("(extuse fail {})", crate::sx::quote(&e)),
            Err(_) => return format!("(extuse fail {})", crate::sx::quote(&format!("{what}: the analysis panicked"))),
        }
    }
    format!("(extuse ok {checked})")
}
