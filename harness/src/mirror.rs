//! The body mirror: `FunctionDeclaration { fn_decl }` on the global stack carries a copy of the
//! whole function in the library's semantic types, produced by the library's `From<ast::…>`
//! conversions.  It is printed here from the semantic types (`mirror_fn`) and, independently,
//! from the text of the source function (`source_fn`); the two strings must be equal.  Names
//! only (the semantic types keep no positions); extension leaves are opaque on both sides.
use crate::sx::{quote, Sx};
use semantic_analyzer::types::condition::{
    Condition, ExpressionLogicCondition, IfBodyStatement, IfBodyStatements, IfCondition,
    IfLoopBodyStatement, IfStatement, LogicCondition, LoopBodyStatement,
};
use semantic_analyzer::types::expression::{Expression, ExpressionOperations, ExpressionValue};
use semantic_analyzer::types::{
    Binding, BodyStatement, FunctionCall, FunctionStatement, LetBinding,
};
use std::fmt::Write as _;

// ------------------------------------------------------------------------- from the semantic types
fn m_op(o: &ExpressionOperations) -> &'static str {
    use ExpressionOperations as O;
    match o {
        O::Plus => "Plus",
        O::Minus => "Minus",
        O::Multiply => "Multiply",
        O::Divide => "Divide",
        O::ShiftLeft => "ShiftLeft",
        O::ShiftRight => "ShiftRight",
        O::And => "And",
        O::Or => "Or",
        O::Xor => "Xor",
        O::Eq => "Eq",
        O::NotEq => "NotEq",
        O::Great => "Great",
        O::Less => "Less",
        O::GreatEq => "GreatEq",
        O::LessEq => "LessEq",
    }
}

fn m_val(o: &mut String, v: &ExpressionValue) {
    match v {
        ExpressionValue::ValueName(n) => write!(o, "(name {})", quote(&n.to_string())).unwrap(),
        ExpressionValue::PrimitiveValue(p) => {
            o.push_str("(prim ");
            crate::d_pv(o, p);
            o.push(')');
        }
        ExpressionValue::StructValue(s) => write!(
            o,
            "(field {} {})",
            quote(&s.name.to_string()),
            quote(&s.attribute.to_string())
        )
        .unwrap(),
        ExpressionValue::FunctionCall(c) => m_call(o, c),
        ExpressionValue::Expression(e) => {
            o.push_str("(sub ");
            m_expr(o, e);
            o.push(')');
        }
        ExpressionValue::ExtendedExpression(_) => o.push_str("(ext)"),
    }
}

fn m_expr(o: &mut String, e: &Expression) {
    o.push_str("(expr ");
    m_val(o, &e.expression_value);
    let mut cur = &e.operation;
    while let Some((op, next)) = cur {
        write!(o, " ({} ", m_op(op)).unwrap();
        m_val(o, &next.expression_value);
        o.push(')');
        cur = &next.operation;
    }
    o.push(')');
}

fn m_call(o: &mut String, c: &FunctionCall) {
    write!(o, "(call {}", quote(&c.name.to_string())).unwrap();
    for p in &c.parameters {
        o.push(' ');
        m_expr(o, p);
    }
    o.push(')');
}

fn m_let(o: &mut String, l: &LetBinding) {
    write!(o, "(let {} {} ", quote(&l.name.to_string()), u8::from(l.mutable)).unwrap();
    match &l.value_type {
        None => o.push_str("(noty)"),
        Some(t) => {
            o.push_str("(ty ");
            crate::d_ty(o, t);
            o.push(')');
        }
    }
    o.push(' ');
    m_expr(o, &l.value);
    o.push(')');
}

fn m_bind(o: &mut String, b: &Binding) {
    write!(o, "(bind {} ", quote(&b.name.to_string())).unwrap();
    m_expr(o, &b.value);
    o.push(')');
}

fn m_cmp(c: &Condition) -> &'static str {
    match c {
        Condition::Great => "Great",
        Condition::Less => "Less",
        Condition::Eq => "Eq",
        Condition::GreatEq => "GreatEq",
        Condition::LessEq => "LessEq",
        Condition::NotEq => "NotEq",
    }
}

fn m_lc(o: &mut String, c: &ExpressionLogicCondition) {
    o.push_str("(lc ");
    m_expr(o, &c.left.left);
    write!(o, " {} ", m_cmp(&c.left.condition)).unwrap();
    m_expr(o, &c.left.right);
    if let Some((l, next)) = &c.right {
        o.push_str(match l {
            LogicCondition::And => " And ",
            LogicCondition::Or => " Or ",
        });
        m_lc(o, next);
    }
    o.push(')');
}

fn m_ifbodies(o: &mut String, b: &IfBodyStatements) {
    match b {
        IfBodyStatements::If(v) => {
            o.push_str("(ifbody");
            for s in v {
                o.push(' ');
                match s {
                    IfBodyStatement::LetBinding(x) => m_let(o, x),
                    IfBodyStatement::Binding(x) => m_bind(o, x),
                    IfBodyStatement::FunctionCall(x) => m_call(o, x),
                    IfBodyStatement::If(x) => m_if(o, x),
                    IfBodyStatement::Loop(x) => m_loop(o, x),
                    IfBodyStatement::Return(x) => m_ret(o, x),
                }
            }
            o.push(')');
        }
        IfBodyStatements::Loop(v) => {
            o.push_str("(loopbody");
            for s in v {
                o.push(' ');
                match s {
                    IfLoopBodyStatement::LetBinding(x) => m_let(o, x),
                    IfLoopBodyStatement::Binding(x) => m_bind(o, x),
                    IfLoopBodyStatement::FunctionCall(x) => m_call(o, x),
                    IfLoopBodyStatement::If(x) => m_if(o, x),
                    IfLoopBodyStatement::Loop(x) => m_loop(o, x),
                    IfLoopBodyStatement::Return(x) => m_ret(o, x),
                    IfLoopBodyStatement::Break => o.push_str("(break)"),
                    IfLoopBodyStatement::Continue => o.push_str("(continue)"),
                }
            }
            o.push(')');
        }
    }
}

fn m_ifs(o: &mut String, i: &IfStatement) {
    o.push_str("(ifs ");
    match &i.condition {
        IfCondition::Single(e) => {
            o.push_str("(single ");
            m_expr(o, e);
            o.push(')');
        }
        IfCondition::Logic(l) => {
            o.push_str("(logic ");
            m_lc(o, l);
            o.push(')');
        }
    }
    o.push(' ');
    m_ifbodies(o, &i.body);
    match &i.else_statement {
        None => o.push_str(" (noelse)"),
        Some(b) => {
            o.push_str(" (else ");
            m_ifbodies(o, b);
            o.push(')');
        }
    }
    match &i.else_if_statement {
        None => o.push_str(" (noelif)"),
        Some(n) => {
            o.push_str(" (elif ");
            m_ifs(o, n);
            o.push(')');
        }
    }
    o.push(')');
}

fn m_if(o: &mut String, i: &IfStatement) {
    o.push_str("(if ");
    m_ifs(o, i);
    o.push(')');
}

fn m_ret(o: &mut String, e: &Expression) {
    o.push_str("(ret ");
    m_expr(o, e);
    o.push(')');
}

fn m_loop(o: &mut String, v: &[LoopBodyStatement]) {
    o.push_str("(loop");
    for s in v {
        o.push(' ');
        match s {
            LoopBodyStatement::LetBinding(x) => m_let(o, x),
            LoopBodyStatement::Binding(x) => m_bind(o, x),
            LoopBodyStatement::FunctionCall(x) => m_call(o, x),
            LoopBodyStatement::If(x) => m_if(o, x),
            LoopBodyStatement::Loop(x) => m_loop(o, x),
            LoopBodyStatement::Return(x) => m_ret(o, x),
            LoopBodyStatement::Break => o.push_str("(break)"),
            LoopBodyStatement::Continue => o.push_str("(continue)"),
        }
    }
    o.push(')');
}

/// The function as the semantic-type copy has it.
pub fn mirror_fn(f: &FunctionStatement) -> String {
    let mut o = String::new();
    write!(o, "(fn {} (params", quote(&f.name.to_string())).unwrap();
    for p in &f.parameters {
        write!(o, " ({} ", quote(&p.to_string())).unwrap();
        crate::d_ty(&mut o, &p.parameter_type);
        o.push(')');
    }
    o.push_str(") ");
    crate::d_ty(&mut o, &f.result_type);
    o.push_str(" (body");
    for s in &f.body {
        o.push(' ');
        match s {
            BodyStatement::LetBinding(x) => m_let(&mut o, x),
            BodyStatement::Binding(x) => m_bind(&mut o, x),
            BodyStatement::FunctionCall(x) => m_call(&mut o, x),
            BodyStatement::If(x) => m_if(&mut o, x),
            BodyStatement::Loop(x) => m_loop(&mut o, x),
            BodyStatement::Expression(x) => {
                o.push_str("(exprstmt ");
                m_expr(&mut o, x);
                o.push(')');
            }
            BodyStatement::Return(x) => m_ret(&mut o, x),
        }
    }
    o.push_str("))");
    o
}

// ------------------------------------------------------------------------- from the source text
fn id_name(s: &Sx) -> String {
    // (id "name" line offset)
    quote(s.args()[0].string())
}

fn s_ty(o: &mut String, t: &Sx) {
    match t.head() {
        "prim" => write!(o, "(p {})", t.args()[0].atom()).unwrap(),
        "array" => {
            o.push_str("(arr ");
            s_ty(o, &t.args()[0]);
            write!(o, " {})", t.args()[1].atom()).unwrap();
        }
        "struct" => {
            // attributes live in a map keyed by name: the last one of a name wins, with its index
            let a = t.args();
            let mut attrs: Vec<(String, usize, String)> = vec![];
            for (k, at) in a[1..].iter().enumerate() {
                let l = at.args();
                let name = id_name(&l[0]);
                let mut ts = String::new();
                s_ty(&mut ts, &l[1]);
                attrs.retain(|(n, _, _)| n != &name);
                attrs.push((name, k, ts));
            }
            attrs.sort_by_key(|(_, k, _)| *k);
            write!(o, "(s {}", id_name(&a[0])).unwrap();
            for (n, k, ts) in attrs {
                write!(o, " (a {n} {k} {ts})").unwrap();
            }
            o.push(')');
        }
        h => panic!("type {h}"),
    }
}

fn s_pv(o: &mut String, p: &Sx) {
    let t = p.args()[0].atom();
    let n = p.args()[1].atom();
    match t {
        "bool" => write!(o, "(pv bool {})", u8::from(n != "0")).unwrap(),
        "ptr" | "none" => write!(o, "(pv {t} 0)").unwrap(),
        _ => write!(o, "(pv {t} {n})").unwrap(),
    }
}

fn s_val(o: &mut String, v: &Sx) {
    let a = v.args();
    match v.head() {
        "name" => write!(o, "(name {})", id_name(&a[0])).unwrap(),
        "prim" => {
            o.push_str("(prim ");
            s_pv(o, &a[0]);
            o.push(')');
        }
        "field" => write!(o, "(field {} {})", id_name(&a[0]), id_name(&a[1])).unwrap(),
        "call" => s_call(o, v),
        "sub" => {
            o.push_str("(sub ");
            s_expr(o, &a[0]);
            o.push(')');
        }
        "ext" => o.push_str("(ext)"),
        h => panic!("value {h}"),
    }
}

fn s_expr(o: &mut String, e: &Sx) {
    let a = e.args();
    o.push_str("(expr ");
    s_val(o, &a[0]);
    for link in &a[1..] {
        let l = link.list();
        write!(o, " ({} ", l[0].atom()).unwrap();
        s_val(o, &l[1]);
        o.push(')');
    }
    o.push(')');
}

fn s_call(o: &mut String, c: &Sx) {
    let a = c.args();
    write!(o, "(call {}", id_name(&a[0])).unwrap();
    for p in &a[1..] {
        o.push(' ');
        s_expr(o, p);
    }
    o.push(')');
}

fn s_lc(o: &mut String, c: &Sx) {
    let a = c.args();
    o.push_str("(lc ");
    s_expr(o, &a[0]);
    write!(o, " {} ", a[1].atom()).unwrap();
    s_expr(o, &a[2]);
    if a.len() > 3 {
        write!(o, " {} ", a[3].atom()).unwrap();
        s_lc(o, &a[4]);
    }
    o.push(')');
}

fn s_body(o: &mut String, b: &Sx) {
    write!(o, "({}", b.head()).unwrap();
    for s in b.args() {
        o.push(' ');
        s_stmt(o, s);
    }
    o.push(')');
}

fn s_ifs(o: &mut String, i: &Sx) {
    let a = i.args();
    o.push_str("(ifs ");
    match a[0].head() {
        "single" => {
            o.push_str("(single ");
            s_expr(o, &a[0].args()[0]);
            o.push(')');
        }
        _ => {
            o.push_str("(logic ");
            s_lc(o, &a[0].args()[0]);
            o.push(')');
        }
    }
    o.push(' ');
    s_body(o, &a[1]);
    match a[2].head() {
        "noelse" => o.push_str(" (noelse)"),
        _ => {
            o.push_str(" (else ");
            s_body(o, &a[2].args()[0]);
            o.push(')');
        }
    }
    match a[3].head() {
        "noelif" => o.push_str(" (noelif)"),
        _ => {
            o.push_str(" (elif ");
            s_ifs(o, &a[3].args()[0]);
            o.push(')');
        }
    }
    o.push(')');
}

fn s_stmt(o: &mut String, s: &Sx) {
    let a = s.args();
    match s.head() {
        "let" => {
            write!(o, "(let {} {} ", id_name(&a[0]), u8::from(a[1].atom() != "0")).unwrap();
            match a[2].head() {
                "noty" => o.push_str("(noty)"),
                _ => {
                    o.push_str("(ty ");
                    s_ty(o, &a[2].args()[0]);
                    o.push(')');
                }
            }
            o.push(' ');
            s_expr(o, &a[3]);
            o.push(')');
        }
        "bind" => {
            write!(o, "(bind {} ", id_name(&a[0])).unwrap();
            s_expr(o, &a[1]);
            o.push(')');
        }
        "call" => s_call(o, s),
        "if" => {
            o.push_str("(if ");
            s_ifs(o, &a[0]);
            o.push(')');
        }
        "loop" => {
            o.push_str("(loop");
            for x in a {
                o.push(' ');
                s_stmt(o, x);
            }
            o.push(')');
        }
        "ret" | "exprstmt" => {
            write!(o, "({} ", s.head()).unwrap();
            s_expr(o, &a[0]);
            o.push(')');
        }
        "break" => o.push_str("(break)"),
        "continue" => o.push_str("(continue)"),
        h => panic!("statement {h}"),
    }
}

/// The function as the source text has it, in the same notation.
pub fn source_fn(f: &Sx) -> String {
    let a = f.args();
    let mut o = String::new();
    write!(o, "(fn {} (params", id_name(&a[0])).unwrap();
    for p in a[1].args() {
        write!(o, " ({} ", id_name(&p.list()[0])).unwrap();
        s_ty(&mut o, &p.list()[1]);
        o.push(')');
    }
    o.push_str(") ");
    s_ty(&mut o, &a[2]);
    s_body_named(&mut o, &a[3]);
    o.push(')');
    o
}

fn s_body_named(o: &mut String, b: &Sx) {
    o.push_str(" (body");
    for s in b.args() {
        o.push(' ');
        s_stmt(o, s);
    }
    o.push(')');
}

/// All functions of a program, as the source text has them.
pub fn source_fns(p: &Sx) -> Vec<String> {
    p.args().iter().filter(|t| t.head() == "fn").map(source_fn).collect()
}
