(* Model side of the correspondence check: reads the same program S-expressions as the Rust
   harness, runs the extracted Coq model and prints the same canonical output form.
   Only conversions at the boundary live here (OCaml string/int <-> extracted string/N/Z). *)
module M = Model

(* ---------------------------------------------------------------------------------------------- *)
(* S-expressions *)
type sx = Atom of string | Str of string | List of sx list

exception Bad of string

let parse (s : string) : sx =
  let n = String.length s in
  let i = ref 0 in
  let rec skip () =
    if !i < n && (s.[!i] = ' ' || s.[!i] = '\n' || s.[!i] = '\t' || s.[!i] = '\r') then (incr i; skip ())
  in
  let rec go () : sx =
    skip ();
    if !i >= n then raise (Bad "unexpected end");
    match s.[!i] with
    | '(' ->
        incr i;
        let acc = ref [] in
        let rec loop () =
          skip ();
          if !i >= n then raise (Bad "unclosed list");
          if s.[!i] = ')' then incr i else (acc := go () :: !acc; loop ())
        in
        loop ();
        List (List.rev !acc)
    | '"' ->
        incr i;
        let b = Buffer.create 16 in
        let rec loop () =
          if !i >= n then raise (Bad "unclosed string");
          match s.[!i] with
          | '"' -> incr i
          | '\\' -> Buffer.add_char b s.[!i + 1]; i := !i + 2; loop ()
          | c -> Buffer.add_char b c; incr i; loop ()
        in
        loop ();
        Str (Buffer.contents b)
    | _ ->
        let st = !i in
        while !i < n && not (List.mem s.[!i] [' '; '\n'; '\t'; '\r'; '('; ')'; '"']) do incr i done;
        Atom (String.sub s st (!i - st))
  in
  go ()

let list_of = function List l -> l | _ -> raise (Bad "expected list")
let atom_of = function Atom a -> a | _ -> raise (Bad "expected atom")
let str_of = function Str a -> a | _ -> raise (Bad "expected string")
let head x = atom_of (List.hd (list_of x))
let args x = List.tl (list_of x)

(* ---------------------------------------------------------------------------------------------- *)
(* boundary conversions *)
let ascii_of (c : char) : M.ascii =
  let k = Char.code c in
  let b j = (k lsr j) land 1 = 1 in
  M.Ascii (b 0, b 1, b 2, b 3, b 4, b 5, b 6, b 7)

let char_of (a : M.ascii) : char =
  match a with
  | M.Ascii (b0, b1, b2, b3, b4, b5, b6, b7) ->
      let v b j = if b then 1 lsl j else 0 in
      Char.chr (v b0 0 + v b1 1 + v b2 2 + v b3 3 + v b4 4 + v b5 5 + v b6 6 + v b7 7)

let cstr (s : string) : M.string =
  let r = ref M.EmptyString in
  for i = String.length s - 1 downto 0 do r := M.String (ascii_of s.[i], !r) done;
  !r

let ostr (s : M.string) : string =
  let b = Buffer.create 16 in
  let rec go = function M.EmptyString -> () | M.String (a, r) -> Buffer.add_char b (char_of a); go r in
  go s;
  Buffer.contents b

let rec pos_of_z (z : Z.t) : M.positive =
  if Z.equal z Z.one then M.XH
  else
    let h = Z.shift_right z 1 in
    if Z.testbit z 0 then M.XI (pos_of_z h) else M.XO (pos_of_z h)

let n_of_z (z : Z.t) : M.n =
  if Z.sign z < 0 then raise (Bad "negative N") else if Z.sign z = 0 then M.N0 else M.Npos (pos_of_z z)

let z_of_z (z : Z.t) : M.z =
  if Z.sign z = 0 then M.Z0 else if Z.sign z > 0 then M.Zpos (pos_of_z z) else M.Zneg (pos_of_z (Z.neg z))

let rec z_of_pos (p : M.positive) : Z.t =
  match p with
  | M.XH -> Z.one
  | M.XO q -> Z.shift_left (z_of_pos q) 1
  | M.XI q -> Z.succ (Z.shift_left (z_of_pos q) 1)

let z_of_n = function M.N0 -> Z.zero | M.Npos p -> z_of_pos p
let z_of_cz = function M.Z0 -> Z.zero | M.Zpos p -> z_of_pos p | M.Zneg p -> Z.neg (z_of_pos p)
let n_of_atom x = n_of_z (Z.of_string (atom_of x))
let z_of_atom x = z_of_z (Z.of_string (atom_of x))
let rec nat_to_int = function M.O -> 0 | M.S k -> 1 + nat_to_int k

(* ---------------------------------------------------------------------------------------------- *)
(* programs *)
let ident x : M.ident =
  match list_of x with
  | [ Atom "id"; Str name; l; o ] -> { M.iname = cstr name; iline = n_of_atom l; ioff = n_of_atom o }
  | _ -> raise (Bad "ident")

let prim_ty = function
  | "u8" -> M.PU8 | "u16" -> M.PU16 | "u32" -> M.PU32 | "u64" -> M.PU64
  | "i8" -> M.PI8 | "i16" -> M.PI16 | "i32" -> M.PI32 | "i64" -> M.PI64
  | "f32" -> M.PF32 | "f64" -> M.PF64 | "bool" -> M.PBool | "char" -> M.PChar
  | "ptr" -> M.PPtr | "none" -> M.PNone
  | s -> raise (Bad ("prim type " ^ s))

let prim_ty_str = function
  | M.PU8 -> "u8" | M.PU16 -> "u16" | M.PU32 -> "u32" | M.PU64 -> "u64"
  | M.PI8 -> "i8" | M.PI16 -> "i16" | M.PI32 -> "i32" | M.PI64 -> "i64"
  | M.PF32 -> "f32" | M.PF64 -> "f64" | M.PBool -> "bool" | M.PChar -> "char"
  | M.PPtr -> "ptr" | M.PNone -> "none"

let rec ty x : M.ast_ty =
  match head x with
  | "prim" -> M.TPrim (prim_ty (atom_of (List.hd (args x))))
  | "struct" ->
      let a = args x in
      M.TStruct (ident (List.hd a), List.map attr (List.tl a))
  | "array" -> (match args x with [ t; n ] -> M.TArray (ty t, n_of_atom n) | _ -> raise (Bad "array"))
  | h -> raise (Bad ("type " ^ h))

and attr x = match list_of x with [ Atom "attr"; i; t ] -> (ident i, ty t) | _ -> raise (Bad "attr")

let prim_val x : M.prim_val =
  match list_of x with
  | [ Atom "pv"; Atom t; n ] ->
      let pt = prim_ty t in
      let bits = match pt with M.PPtr | M.PNone -> M.Z0 | _ -> z_of_atom n in
      { M.pv_ty = pt; pv_bits = bits }
  | _ -> raise (Bad "pv")

let binop_tbl =
  [ ("Plus", M.OPlus); ("Minus", M.OMinus); ("Multiply", M.OMultiply); ("Divide", M.ODivide);
    ("ShiftLeft", M.OShiftLeft); ("ShiftRight", M.OShiftRight); ("And", M.OAnd); ("Or", M.OOr);
    ("Xor", M.OXor); ("Eq", M.OEq); ("NotEq", M.ONotEq); ("Great", M.OGreat); ("Less", M.OLess);
    ("GreatEq", M.OGreatEq); ("LessEq", M.OLessEq) ]

let binop s = try List.assoc s binop_tbl with Not_found -> raise (Bad ("binop " ^ s))

let cmp_tbl =
  [ ("Great", M.CGreat); ("Less", M.CLess); ("Eq", M.CEq); ("GreatEq", M.CGreatEq);
    ("LessEq", M.CLessEq); ("NotEq", M.CNotEq) ]

let cmp s = try List.assoc s cmp_tbl with Not_found -> raise (Bad ("cmp " ^ s))

let cval x : M.cval =
  match head x with
  | "cconst" -> M.CConst (ident (List.hd (args x)))
  | "cval" -> M.CVal (prim_val (List.hd (args x)))
  | h -> raise (Bad ("cval " ^ h))

let cexpr x : M.cexpr =
  match list_of x with
  | Atom "cexpr" :: h :: rest ->
      { M.ce_head = cval h;
        ce_rest = List.map (fun l -> match list_of l with [ Atom op; v ] -> (binop op, cval v) | _ -> raise (Bad "clink")) rest }
  | _ -> raise (Bad "cexpr")

let rec expr x : M.expr =
  match list_of x with
  | Atom "expr" :: h :: rest ->
      M.Expr (expr_val h,
              List.map (fun l -> match list_of l with [ Atom op; v ] -> (binop op, expr_val v) | _ -> raise (Bad "link")) rest)
  | _ -> raise (Bad "expr")

and expr_val x : M.expr_val =
  let a = args x in
  match head x with
  | "name" -> M.EVName (ident (List.hd a))
  | "prim" -> M.EVPrim (prim_val (List.hd a))
  | "call" -> M.EVCall (ident (List.hd a), List.map expr (List.tl a))
  | "field" -> (match a with [ v; f ] -> M.EVField (ident v, ident f) | _ -> raise (Bad "field"))
  | "sub" -> M.EVSub (expr (List.hd a))
  | "ext" -> (match a with [ t; n ] -> M.EVExt (ty t, n_of_atom n) | _ -> raise (Bad "ext"))
  | h -> raise (Bad ("expr value " ^ h))

let rec lcond x : M.lcond =
  match list_of x with
  | [ Atom "lc"; l; Atom c; r ] -> M.LC (expr l, cmp c, expr r, None)
  | [ Atom "lc"; l; Atom c; r; Atom op; next ] ->
      let o = match op with "And" -> M.LAnd | "Or" -> M.LOr | _ -> raise (Bad "logic op") in
      M.LC (expr l, cmp c, expr r, Some (o, lcond next))
  | _ -> raise (Bad "lc")

let rec stmt x : M.stmt =
  let a = args x in
  match head x with
  | "let" ->
      (match a with
       | [ i; Atom m; t; e ] ->
           let t' = match head t with "ty" -> Some (ty (List.hd (args t))) | "noty" -> None | _ -> raise (Bad "let ty") in
           M.SLet (ident i, m <> "0", t', expr e)
       | _ -> raise (Bad "let"))
  | "bind" -> (match a with [ i; e ] -> M.SBind (ident i, expr e) | _ -> raise (Bad "bind"))
  | "call" -> M.SCall (ident (List.hd a), List.map expr (List.tl a))
  | "if" -> M.SIf (ifs (List.hd a))
  | "loop" -> M.SLoop (List.map stmt a)
  | "ret" -> M.SRet (expr (List.hd a))
  | "exprstmt" -> M.SExprStmt (expr (List.hd a))
  | "break" -> M.SBreak
  | "continue" -> M.SContinue
  | h -> raise (Bad ("stmt " ^ h))

and ifs x : M.ifstmt =
  match list_of x with
  | [ Atom "ifs"; c; b; e; ei ] ->
      let c' =
        match head c with
        | "single" -> M.CSingle (expr (List.hd (args c)))
        | "logic" -> M.CLogic (lcond (List.hd (args c)))
        | _ -> raise (Bad "cond")
      in
      let e' = match head e with "noelse" -> None | "else" -> Some (ifbody (List.hd (args e))) | _ -> raise (Bad "else") in
      let ei' = match head ei with "noelif" -> None | "elif" -> Some (ifs (List.hd (args ei))) | _ -> raise (Bad "elif") in
      M.IfS (c', ifbody b, e', ei')
  | _ -> raise (Bad "ifs")

and ifbody x : M.ifbody =
  match head x with
  | "ifbody" -> M.IBIf (List.map stmt (args x))
  | "loopbody" -> M.IBLoop (List.map stmt (args x))
  | h -> raise (Bad ("ifbody " ^ h))

let top x : M.top =
  let a = args x in
  match head x with
  | "import" -> M.TImport (List.map ident a)
  | "struct" -> M.TStructDecl (ident (List.hd a), List.map attr (List.tl a))
  | "const" -> (match a with [ i; t; v ] -> M.TConst (ident i, ty t, cexpr v) | _ -> raise (Bad "const"))
  | "fn" ->
      (match a with
       | [ i; ps; t; b ] ->
           M.TFn
             { M.fn_name = ident i;
               fn_params = List.map (fun p -> match list_of p with [ pi; pt ] -> (ident pi, ty pt) | _ -> raise (Bad "param")) (args ps);
               fn_result = ty t;
               fn_body = List.map stmt (args b) }
       | _ -> raise (Bad "fn"))
  | h -> raise (Bad ("top " ^ h))

let program x : M.program =
  match list_of x with Atom "program" :: tops -> List.map top tops | _ -> raise (Bad "program")

(* ---------------------------------------------------------------------------------------------- *)
(* canonical output *)
let quote (s : string) : string =
  let b = Buffer.create (String.length s + 2) in
  Buffer.add_char b '"';
  String.iter
    (fun c ->
      match c with
      | '\\' -> Buffer.add_string b "\\\\"
      | '"' -> Buffer.add_string b "\\\""
      | ' ' .. '~' -> Buffer.add_char b c
      | _ -> Buffer.add_char b '?')
    s;
  Buffer.add_char b '"';
  Buffer.contents b

let q (s : M.string) = quote (ostr s)
let pn (n : M.n) = Z.to_string (z_of_n n)
let bit b = if b then "1" else "0"

let rec p_ty (t : M.sem_ty) : string =
  match t with
  | M.SPrim p -> "(p " ^ prim_ty_str p ^ ")"
  | M.SStruct (n, attrs) ->
      "(s " ^ q n
      ^ String.concat "" (List.map (fun ((a, i), t') -> " (a " ^ q a ^ " " ^ pn i ^ " " ^ p_ty t' ^ ")") attrs)
      ^ ")"
  | M.SArray (t', n) -> "(arr " ^ p_ty t' ^ " " ^ pn n ^ ")"

let p_pv (v : M.prim_val) = "(pv " ^ prim_ty_str v.M.pv_ty ^ " " ^ Z.to_string (z_of_cz v.M.pv_bits) ^ ")"

let p_value (v : M.value) = "(v " ^ q v.M.v_inner ^ " " ^ p_ty v.M.v_ty ^ " " ^ bit v.M.v_mut ^ " 0 0)"

let p_eres (r : M.eres) =
  "(r " ^ p_ty r.M.r_ty ^ " " ^ (match r.M.r_val with M.RReg n -> "(reg " ^ pn n ^ ")" | M.RPrim v -> p_pv v) ^ ")"

let p_op (o : M.binop) = ostr (M.binop_name o)

let p_cv = function M.CCs n -> "(cc " ^ q n ^ ")" | M.CVs v -> "(cv " ^ p_pv v ^ ")"

let p_const (c : M.const_sem) =
  "(c " ^ q c.M.c_name ^ " " ^ p_ty c.M.c_ty ^ " (ce " ^ p_cv c.M.c_head
  ^ String.concat "" (List.map (fun (o, v) -> " (" ^ p_op o ^ " " ^ p_cv v ^ ")") c.M.c_rest)
  ^ "))"

let p_func (f : M.func_sem) =
  "(f " ^ q f.M.f_name ^ " " ^ p_ty f.M.f_ty ^ " (" ^ String.concat " " (List.map p_ty f.M.f_params) ^ "))"

let p_instr (i : M.instr) : string =
  match i with
  | M.IExprValue (v, r) -> "(ExpressionValue " ^ p_value v ^ " " ^ pn r ^ ")"
  | M.IExprConst (c, r) -> "(ExpressionConst " ^ p_const c ^ " " ^ pn r ^ ")"
  | M.IExprStruct (v, i, r) -> "(ExpressionStructValue " ^ p_value v ^ " " ^ pn i ^ " " ^ pn r ^ ")"
  | M.IExprOp (o, l, r, n) -> "(ExpressionOperation " ^ p_op o ^ " " ^ p_eres l ^ " " ^ p_eres r ^ " " ^ pn n ^ ")"
  | M.ICall (f, a, n) -> "(Call " ^ p_func f ^ " (" ^ String.concat " " (List.map p_eres a) ^ ") " ^ pn n ^ ")"
  | M.ILet (v, e) -> "(LetBinding " ^ p_value v ^ " " ^ p_eres e ^ ")"
  | M.IBind (v, e) -> "(Binding " ^ p_value v ^ " " ^ p_eres e ^ ")"
  | M.IFnRet e -> "(ExpressionFunctionReturn " ^ p_eres e ^ ")"
  | M.IFnRetLabel e -> "(ExpressionFunctionReturnWithLabel " ^ p_eres e ^ ")"
  | M.ISetLabel l -> "(SetLabel " ^ q l ^ ")"
  | M.IJumpTo l -> "(JumpTo " ^ q l ^ ")"
  | M.IIfCondExpr (e, a, b) -> "(IfConditionExpression " ^ p_eres e ^ " " ^ q a ^ " " ^ q b ^ ")"
  | M.ICondExpr (l, r, c, n) ->
      "(ConditionExpression " ^ p_eres l ^ " " ^ p_eres r ^ " " ^ ostr (M.cmpop_name c) ^ " " ^ pn n ^ ")"
  | M.IJumpFnRet e -> "(JumpFunctionReturn " ^ p_eres e ^ ")"
  | M.ILogic (o, l, r, n) ->
      "(LogicCondition " ^ ostr (M.logicop_name o) ^ " " ^ pn l ^ " " ^ pn r ^ " " ^ pn n ^ ")"
  | M.IIfCondLogic (a, b, n) -> "(IfConditionLogic " ^ q a ^ " " ^ q b ^ " " ^ pn n ^ ")"
  | M.IFnArg (v, pname, pty) -> "(FunctionArg " ^ p_value v ^ " (param " ^ q pname ^ " " ^ p_ty pty ^ "))"
  | M.IExt (t, r) -> "(Ext " ^ pn t ^ " " ^ pn r ^ ")"

let p_ginstr (g : M.ginstr) : string =
  match g with
  | M.GTypes t -> "(Types " ^ p_ty t ^ ")"
  | M.GConst c -> "(Constant " ^ p_const c ^ ")"
  | M.GFnDecl (n, ps, r) ->
      "(FunctionDeclaration " ^ q n ^ " ("
      ^ String.concat " " (List.map (fun (pn', pt) -> "(param " ^ q pn' ^ " " ^ p_ty pt ^ ")") ps)
      ^ ") " ^ p_ty r ^ " 1)"

let sp l = String.concat "" (List.map (fun s -> " " ^ s) l)
let sort_fst l = List.sort (fun (a, _) (b, _) -> compare a b) l

let rec p_block (b : M.block) : string =
  let vals = sort_fst (List.map (fun (k, v) -> (ostr k, v)) b.M.b_values) in
  "(block (values"
  ^ sp (List.map (fun (k, v) -> "(val " ^ quote k ^ " " ^ p_value v ^ ")") vals)
  ^ ") (inner"
  ^ sp (List.map quote (List.sort compare (List.map ostr b.M.b_inner)))
  ^ ") (labels"
  ^ sp (List.map quote (List.sort compare (List.map ostr b.M.b_labels)))
  ^ ") (reg " ^ pn b.M.b_reg ^ ") (mret " ^ bit b.M.b_mret ^ ") (parent-ok 1) (ctx"
  ^ sp (List.map p_instr b.M.b_ctx)
  ^ ") (children"
  ^ sp (List.map p_block b.M.b_kids)
  ^ "))"

let p_err (e : M.err) =
  let l, o = e.M.e_loc in
  "(err " ^ ostr (M.err_kind_name e.M.e_kind) ^ " "
  ^ (match e.M.e_val with Some v -> q v | None -> "_")
  ^ " " ^ pn l ^ " " ^ pn o ^ ")"

let p_output (o : M.output) : string =
  let g = o.M.o_globals in
  let tys = sort_fst (List.map (fun (k, v) -> (ostr k, v)) g.M.g_types) in
  let cs = sort_fst (List.map (fun (k, v) -> (ostr k, v)) g.M.g_consts) in
  let fs = sort_fst (List.map (fun (k, v) -> (ostr k, v)) g.M.g_funcs) in
  "(out (errors" ^ sp (List.map p_err o.M.o_errors) ^ ") (types"
  ^ sp (List.map (fun (k, t) -> "(T " ^ quote k ^ " " ^ p_ty t ^ ")") tys)
  ^ ") (constants"
  ^ sp (List.map (fun (k, c) -> "(C " ^ quote k ^ " " ^ p_const c ^ ")") cs)
  ^ ") (functions"
  ^ sp (List.map (fun (k, f) -> "(F " ^ quote k ^ " " ^ p_func f ^ ")") fs)
  ^ ") (gstack" ^ sp (List.map p_ginstr o.M.o_gstack) ^ ") (fns" ^ sp (List.map p_block o.M.o_fns) ^ "))"

let p_panic = function
  | M.PLoopLabel -> "LoopLabel"
  | M.PSuffixOverflow -> "SuffixOverflow"
  | M.PIllKinded -> "IllKinded"
  | M.PNoFrame -> "NoFrame"

let p_result (r : M.run_result) : string =
  match r with
  | M.ROk o -> p_output o
  | M.RPanic k -> "(panic " ^ p_panic k ^ ")"
  | M.ROutOfFuel -> "(outoffuel)"

(* ---------------------------------------------------------------------------------------------- *)
(* reading an output back (the implementation's), for the extracted monitors *)
let rec r_ty x : M.sem_ty =
  match list_of x with
  | [ Atom "p"; Atom p ] -> M.SPrim (prim_ty p)
  | Atom "s" :: Str n :: attrs ->
      M.SStruct
        ( cstr n,
          List.map
            (fun a ->
              match list_of a with
              | [ Atom "a"; Str an; i; t ] -> ((cstr an, n_of_atom i), r_ty t)
              | _ -> raise (Bad "attr (output)"))
            (* the markers `(methods)` / `(keymismatch)` (a struct type carrying something the
               model's types cannot carry) are left to the correspondence; the monitors judge
               the rest of the output *)
            (List.filter (fun a -> match list_of a with [ Atom ("methods" | "keymismatch") ] -> false | _ -> true) attrs) )
  | [ Atom "arr"; t; n ] -> M.SArray (r_ty t, n_of_atom n)
  | _ -> raise (Bad "type (output)")

let r_pv x : M.prim_val =
  match list_of x with
  | [ Atom "pv"; Atom t; n ] -> { M.pv_ty = prim_ty t; pv_bits = z_of_atom n }
  | _ -> raise (Bad "pv (output)")

let r_value x : M.value =
  match list_of x with
  | [ Atom "v"; Str n; t; Atom m; _; _ ] -> { M.v_inner = cstr n; v_ty = r_ty t; v_mut = m <> "0" }
  | _ -> raise (Bad "value (output)")

let r_eres x : M.eres =
  match list_of x with
  | [ Atom "r"; t; v ] ->
      let rv =
        match list_of v with
        | [ Atom "reg"; n ] -> M.RReg (n_of_atom n)
        | _ -> M.RPrim (r_pv v)
      in
      { M.r_ty = r_ty t; r_val = rv }
  | _ -> raise (Bad "eres (output)")

let r_cv x : M.cval_sem =
  match list_of x with
  | [ Atom "cc"; Str n ] -> M.CCs (cstr n)
  | [ Atom "cv"; v ] -> M.CVs (r_pv v)
  | _ -> raise (Bad "cv (output)")

let r_const x : M.const_sem =
  match list_of x with
  | [ Atom "c"; Str n; t; ce ] ->
      (match list_of ce with
       | Atom "ce" :: h :: rest ->
           { M.c_name = cstr n; c_ty = r_ty t; c_head = r_cv h;
             c_rest = List.map (fun l -> match list_of l with [ Atom op; v ] -> (binop op, r_cv v) | _ -> raise (Bad "ce link")) rest }
       | _ -> raise (Bad "ce (output)"))
  | _ -> raise (Bad "const (output)")

let r_func x : M.func_sem =
  match list_of x with
  | [ Atom "f"; Str n; t; ps ] -> { M.f_name = cstr n; f_ty = r_ty t; f_params = List.map r_ty (list_of ps) }
  | _ -> raise (Bad "func (output)")

let logicop = function "And" -> M.LAnd | "Or" -> M.LOr | s -> raise (Bad ("logic op " ^ s))

let r_instr x : M.instr =
  match list_of x with
  | [ Atom "ExpressionValue"; v; r ] -> M.IExprValue (r_value v, n_of_atom r)
  | [ Atom "ExpressionConst"; c; r ] -> M.IExprConst (r_const c, n_of_atom r)
  | [ Atom "ExpressionStructValue"; v; i; r ] -> M.IExprStruct (r_value v, n_of_atom i, n_of_atom r)
  | [ Atom "ExpressionOperation"; Atom op; l; r; n ] -> M.IExprOp (binop op, r_eres l, r_eres r, n_of_atom n)
  | [ Atom "Call"; f; a; n ] -> M.ICall (r_func f, List.map r_eres (list_of a), n_of_atom n)
  | [ Atom "LetBinding"; v; e ] -> M.ILet (r_value v, r_eres e)
  | [ Atom "Binding"; v; e ] -> M.IBind (r_value v, r_eres e)
  | [ Atom "ExpressionFunctionReturn"; e ] -> M.IFnRet (r_eres e)
  | [ Atom "ExpressionFunctionReturnWithLabel"; e ] -> M.IFnRetLabel (r_eres e)
  | [ Atom "SetLabel"; Str l ] -> M.ISetLabel (cstr l)
  | [ Atom "JumpTo"; Str l ] -> M.IJumpTo (cstr l)
  | [ Atom "IfConditionExpression"; e; Str a; Str b ] -> M.IIfCondExpr (r_eres e, cstr a, cstr b)
  | [ Atom "ConditionExpression"; l; r; Atom c; n ] -> M.ICondExpr (r_eres l, r_eres r, cmp c, n_of_atom n)
  | [ Atom "JumpFunctionReturn"; e ] -> M.IJumpFnRet (r_eres e)
  | [ Atom "LogicCondition"; Atom o; l; r; n ] -> M.ILogic (logicop o, n_of_atom l, n_of_atom r, n_of_atom n)
  | [ Atom "IfConditionLogic"; Str a; Str b; n ] -> M.IIfCondLogic (cstr a, cstr b, n_of_atom n)
  | [ Atom "FunctionArg"; v; p ] ->
      (match list_of p with
       | [ Atom "param"; Str pn'; pt ] -> M.IFnArg (r_value v, cstr pn', r_ty pt)
       | _ -> raise (Bad "param (output)"))
  | [ Atom "Ext"; t; r ] -> M.IExt (n_of_atom t, n_of_atom r)
  | _ -> raise (Bad "instr (output)")

let r_ginstr x : M.ginstr =
  match list_of x with
  | [ Atom "Types"; t ] -> M.GTypes (r_ty t)
  | [ Atom "Constant"; c ] -> M.GConst (r_const c)
  | [ Atom "FunctionDeclaration"; Str n; ps; r; _ ] ->
      M.GFnDecl
        ( cstr n,
          List.map (fun p -> match list_of p with [ Atom "param"; Str pn'; pt ] -> (cstr pn', r_ty pt) | _ -> raise (Bad "param")) (list_of ps),
          r_ty r )
  | _ -> raise (Bad "ginstr (output)")

let rec r_block x : M.block =
  match list_of x with
  | [ Atom "block"; vals; inner; labels; reg; mret; _parent; ctx; kids ] ->
      { M.b_values =
          List.map (fun v -> match list_of v with [ Atom "val"; Str k; vv ] -> (cstr k, r_value vv) | _ -> raise (Bad "val")) (args vals);
        b_inner = List.map (fun s -> cstr (str_of s)) (args inner);
        b_labels = List.map (fun s -> cstr (str_of s)) (args labels);
        b_reg = n_of_atom (List.hd (args reg));
        b_mret = atom_of (List.hd (args mret)) <> "0";
        b_ctx = List.map r_instr (args ctx);
        b_kids = List.map r_block (args kids) }
  | _ -> raise (Bad "block (output)")

let err_kind_tbl = List.map (fun k -> (ostr (M.err_kind_name k), k)) M.all_err_kind

let r_err x : M.err =
  match list_of x with
  | [ Atom "err"; Atom k; v; l; o ] ->
      { M.e_kind = (try List.assoc k err_kind_tbl with Not_found -> raise (Bad ("error kind " ^ k)));
        e_val = (match v with Str s -> Some (cstr s) | _ -> None);
        e_loc = (n_of_atom l, n_of_atom o) }
  | _ -> raise (Bad "err (output)")

(* [None]: the implementation panicked *)
let r_output x : M.output option =
  match list_of x with
  | Atom "panic" :: _ -> None
  | [ Atom "out"; errs; tys; cs; fs; gstack; fns ] ->
      Some
        { M.o_errors = List.map r_err (args errs);
          o_globals =
            { M.g_types = List.map (fun t -> match list_of t with [ Atom "T"; Str k; v ] -> (cstr k, r_ty v) | _ -> raise (Bad "T")) (args tys);
              g_consts = List.map (fun t -> match list_of t with [ Atom "C"; Str k; v ] -> (cstr k, r_const v) | _ -> raise (Bad "C")) (args cs);
              g_funcs = List.map (fun t -> match list_of t with [ Atom "F"; Str k; v ] -> (cstr k, r_func v) | _ -> raise (Bad "F")) (args fs) };
          o_gstack = List.map r_ginstr (args gstack);
          o_fns = List.map r_block (args fns) }
  | _ -> raise (Bad "output")


(* ---------------------------------------------------------------------------------------------- *)
(* JSON trees of the Coq codec model, printed as JSON text.  Floats and chars are carried
   opaquely by the model: they are printed as tagged objects and compared bit for bit. *)
let json_quote (s : string) : string =
  let b = Buffer.create (String.length s + 2) in
  Buffer.add_char b '"';
  String.iter
    (fun c ->
      match c with
      | '"' -> Buffer.add_string b "\\\""
      | '\\' -> Buffer.add_string b "\\\\"
      | c when Char.code c < 32 -> Buffer.add_string b (Printf.sprintf "\\u%04x" (Char.code c))
      | c -> Buffer.add_char b c)
    s;
  Buffer.add_char b '"';
  Buffer.contents b

let rec p_json (j : M.json) : string =
  match j with
  | M.JNull -> "null"
  | M.JBool b -> if b then "true" else "false"
  | M.JNum z -> Z.to_string (z_of_cz z)
  | M.JFloat32 z -> "{\"$f32\":" ^ Z.to_string (z_of_cz z) ^ "}"
  | M.JFloat64 z -> "{\"$f64\":" ^ Z.to_string (z_of_cz z) ^ "}"
  | M.JStr s -> json_quote (ostr s)
  | M.JChar z -> "{\"$char\":" ^ Z.to_string (z_of_cz z) ^ "}"
  | M.JArr l -> "[" ^ String.concat "," (List.map p_json l) ^ "]"
  | M.JObj fs -> "{" ^ String.concat "," (List.map (fun (k, v) -> json_quote (ostr k) ^ ":" ^ p_json v) fs) ^ "}"

let p_codec (p : M.program) : string =
  let ast = p_json (M.enc_program p) in
  match M.run p with
  | M.ROk o ->
      "{\"ast\":" ^ ast ^ ",\"errors\":" ^ p_json (M.enc_errors o.M.o_errors) ^ ",\"gstack\":"
      ^ p_json (M.enc_gstack o.M.o_gstack) ^ ",\"stacks\":["
      ^ String.concat "," (List.map (fun b -> p_json (M.enc_stack b.M.b_ctx)) o.M.o_fns)
      ^ "]}"
  | _ -> "{\"ast\":" ^ ast ^ ",\"panic\":true}"
