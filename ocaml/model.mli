
val implb : bool -> bool -> bool

val negb : bool -> bool

type nat =
| O
| S of nat

type ('a, 'b) sum =
| Inl of 'a
| Inr of 'b

val fst : ('a1 * 'a2) -> 'a1

val snd : ('a1 * 'a2) -> 'a2

val length : 'a1 list -> nat

val app : 'a1 list -> 'a1 list -> 'a1 list

type comparison =
| Eq
| Lt
| Gt

type uint =
| Nil
| D0 of uint
| D1 of uint
| D2 of uint
| D3 of uint
| D4 of uint
| D5 of uint
| D6 of uint
| D7 of uint
| D8 of uint
| D9 of uint

val revapp : uint -> uint -> uint

val rev : uint -> uint

module Little :
 sig
  val double : uint -> uint

  val succ_double : uint -> uint
 end

val add : nat -> nat -> nat

val eqb : bool -> bool -> bool

module Nat :
 sig
  val eqb : nat -> nat -> bool

  val leb : nat -> nat -> bool
 end

type positive =
| XI of positive
| XO of positive
| XH

type n =
| N0
| Npos of positive

type z =
| Z0
| Zpos of positive
| Zneg of positive

module Pos :
 sig
  type mask =
  | IsNul
  | IsPos of positive
  | IsNeg
 end

module Coq_Pos :
 sig
  val succ : positive -> positive

  val add : positive -> positive -> positive

  val add_carry : positive -> positive -> positive

  val pred_double : positive -> positive

  type mask = Pos.mask =
  | IsNul
  | IsPos of positive
  | IsNeg

  val succ_double_mask : mask -> mask

  val double_mask : mask -> mask

  val double_pred_mask : positive -> mask

  val sub_mask : positive -> positive -> mask

  val sub_mask_carry : positive -> positive -> mask

  val mul : positive -> positive -> positive

  val compare_cont : comparison -> positive -> positive -> comparison

  val compare : positive -> positive -> comparison

  val eqb : positive -> positive -> bool

  val iter_op : ('a1 -> 'a1 -> 'a1) -> positive -> 'a1 -> 'a1

  val to_nat : positive -> nat

  val of_succ_nat : nat -> positive

  val of_uint_acc : uint -> positive -> positive

  val of_uint : uint -> n

  val to_little_uint : positive -> uint

  val to_uint : positive -> uint
 end

module N :
 sig
  val add : n -> n -> n

  val sub : n -> n -> n

  val compare : n -> n -> comparison

  val eqb : n -> n -> bool

  val leb : n -> n -> bool

  val ltb : n -> n -> bool

  val to_nat : n -> nat

  val of_nat : nat -> n

  val of_uint : uint -> n

  val to_uint : n -> uint
 end

val hd_error : 'a1 list -> 'a1 option

val nth_error : 'a1 list -> nat -> 'a1 option

val rev0 : 'a1 list -> 'a1 list

val concat : 'a1 list list -> 'a1 list

val map : ('a1 -> 'a2) -> 'a1 list -> 'a2 list

val flat_map : ('a1 -> 'a2 list) -> 'a1 list -> 'a2 list

val fold_left : ('a1 -> 'a2 -> 'a1) -> 'a2 list -> 'a1 -> 'a1

val fold_right : ('a2 -> 'a1 -> 'a1) -> 'a1 -> 'a2 list -> 'a1

val existsb : ('a1 -> bool) -> 'a1 list -> bool

val forallb : ('a1 -> bool) -> 'a1 list -> bool

val filter : ('a1 -> bool) -> 'a1 list -> 'a1 list

val seq : nat -> nat -> nat list

module Z :
 sig
  val eqb : z -> z -> bool

  val of_N : n -> z
 end

type ascii =
| Ascii of bool * bool * bool * bool * bool * bool * bool * bool

val eqb0 : ascii -> ascii -> bool

type string =
| EmptyString
| String of ascii * string

val eqb1 : string -> string -> bool

val append : string -> string -> string

val uint_of_char : ascii -> uint option -> uint option

module NilEmpty :
 sig
  val string_of_uint : uint -> string

  val uint_of_string : string -> uint option
 end

type ident = { iname : string; iline : n; ioff : n }

type loc = n * n

val iloc : ident -> loc

val alookup : string -> (string * 'a1) list -> 'a1 option

val ainsert : string -> 'a1 -> (string * 'a1) list -> (string * 'a1) list

val amem : string -> (string * 'a1) list -> bool

val smem : string -> string list -> bool

val sadd : string -> string list -> string list

val two64 : n

val dec : n -> string

val parse_u64_or_0 : string -> n

val split_dot_aux : string -> string -> string list

val split_dot : string -> string list

val set_attr_counter : string -> string option

val debug_escape : string -> string

val debug_string : string -> string

type binop =
| OPlus
| OMinus
| OMultiply
| ODivide
| OShiftLeft
| OShiftRight
| OAnd
| OOr
| OXor
| OEq
| ONotEq
| OGreat
| OLess
| OGreatEq
| OLessEq

val binop_name : binop -> string

type prim_ty =
| PU8
| PU16
| PU32
| PU64
| PI8
| PI16
| PI32
| PI64
| PF32
| PF64
| PBool
| PChar
| PPtr
| PNone

val prim_ty_name : prim_ty -> string

type cmpop =
| CGreat
| CLess
| CEq
| CGreatEq
| CLessEq
| CNotEq

val cmpop_name : cmpop -> string

type logicop =
| LAnd
| LOr

val logicop_name : logicop -> string

type err_kind =
| ECommon
| EConstantAlreadyExist
| EConstantNotFound
| EWrongLetType
| EWrongExpressionType
| ETypeAlreadyExist
| EFunctionAlreadyExist
| EValueNotFound
| EValueNotStruct
| EValueNotStructField
| EValueIsNotMutable
| EFunctionNotFound
| EFunctionParameterTypeWrong
| EReturnNotFound
| EReturnAlreadyCalled
| EIfElseDuplicated
| ETypeNotFound
| EWrongReturnType
| EConditionExpressionWrongType
| EConditionIsEmpty
| EConditionExpressionNotSupported
| EForbiddenCodeAfterReturnDeprecated
| EForbiddenCodeAfterContinueDeprecated
| EForbiddenCodeAfterBreakDeprecated
| EFunctionArgumentNameDuplicated

val err_kind_name : err_kind -> string

val all_err_kind : err_kind list

val max_prio : n

val prio : binop -> n

type ast_ty =
| TPrim of prim_ty
| TStruct of ident * (ident * ast_ty) list
| TArray of ast_ty * n

type prim_val = { pv_ty : prim_ty; pv_bits : z }

type cval =
| CConst of ident
| CVal of prim_val

type cexpr = { ce_head : cval; ce_rest : (binop * cval) list }

type expr =
| Expr of expr_val * (binop * expr_val) list
and expr_val =
| EVName of ident
| EVPrim of prim_val
| EVCall of ident * expr list
| EVField of ident * ident
| EVSub of expr
| EVExt of ast_ty * n

type lcond =
| LC of expr * cmpop * expr * (logicop * lcond) option

type cond =
| CSingle of expr
| CLogic of lcond

type stmt =
| SLet of ident * bool * ast_ty option * expr
| SBind of ident * expr
| SCall of ident * expr list
| SIf of ifstmt
| SLoop of stmt list
| SRet of expr
| SExprStmt of expr
| SBreak
| SContinue
and ifstmt =
| IfS of cond * ifbody * ifbody option * ifstmt option
and ifbody =
| IBIf of stmt list
| IBLoop of stmt list

type fn_decl = { fn_name : ident; fn_params : (ident * ast_ty) list;
                 fn_result : ast_ty; fn_body : stmt list }

type top =
| TImport of ident list
| TStructDecl of ident * (ident * ast_ty) list
| TConst of ident * ast_ty * cexpr
| TFn of fn_decl

type program = top list

val size_expr : expr -> nat

val size_val : expr_val -> nat

val size_exprs : expr list -> nat

val size_lcond : lcond -> nat

val size_cond : cond -> nat

val size_stmt : stmt -> nat

val size_if : ifstmt -> nat

val size_ifbody : ifbody -> nat

val size_stmts : stmt list -> nat

val size_fn : fn_decl -> nat

type sem_ty =
| SPrim of prim_ty
| SStruct of string * ((string * n) * sem_ty) list
| SArray of sem_ty * n

val prim_ty_eqb : prim_ty -> prim_ty -> bool

val sem_ty_eqb : sem_ty -> sem_ty -> bool

val norm_attrs : n -> (string * 'a1) list -> ((string * n) * 'a1) list

val sem_of_ty : ast_ty -> sem_ty

val struct_of_decl : ident -> (ident * ast_ty) list -> sem_ty

val prim_ty_display : prim_ty -> string

val type_name : sem_ty -> string

val is_prim : sem_ty -> bool

val attr_lookup :
  string -> ((string * n) * sem_ty) list -> (n * sem_ty) option

type value = { v_inner : string; v_ty : sem_ty; v_mut : bool }

type eres_val =
| RReg of n
| RPrim of prim_val

type eres = { r_ty : sem_ty; r_val : eres_val }

type cval_sem =
| CCs of string
| CVs of prim_val

type const_sem = { c_name : string; c_ty : sem_ty; c_head : cval_sem;
                   c_rest : (binop * cval_sem) list }

type func_sem = { f_name : string; f_ty : sem_ty; f_params : sem_ty list }

type instr =
| IExprValue of value * n
| IExprConst of const_sem * n
| IExprStruct of value * n * n
| IExprOp of binop * eres * eres * n
| ICall of func_sem * eres list * n
| ILet of value * eres
| IBind of value * eres
| IFnRet of eres
| IFnRetLabel of eres
| ISetLabel of string
| IJumpTo of string
| IIfCondExpr of eres * string * string
| ICondExpr of eres * eres * cmpop * n
| IJumpFnRet of eres
| ILogic of logicop * n * n * n
| IIfCondLogic of string * string * n
| IFnArg of value * string * sem_ty
| IExt of n * n

type ginstr =
| GTypes of sem_ty
| GConst of const_sem
| GFnDecl of string * (string * sem_ty) list * sem_ty

type block = { b_values : (string * value) list; b_inner : string list;
               b_labels : string list; b_reg : n; b_mret : bool;
               b_ctx : instr list; b_kids : block list }

type err = { e_kind : err_kind; e_val : string option; e_loc : loc }

type globals = { g_types : (string * sem_ty) list;
                 g_consts : (string * const_sem) list;
                 g_funcs : (string * func_sem) list }

type output = { o_errors : err list; o_globals : globals;
                o_gstack : ginstr list; o_fns : block list }

type panic_kind =
| PLoopLabel
| PSuffixOverflow
| PIllKinded
| PNoFrame

type bst = { frames : block list; errs : err list }

type 'a res =
| Ok of 'a * bst
| Panic of panic_kind
| OutOfFuel

type 'a m = bst -> 'a res

val ret : 'a1 -> 'a1 m

val bind : 'a1 m -> ('a1 -> 'a2 m) -> 'a2 m

val panic : panic_kind -> 'a1 m

val out_of_fuel : 'a1 m

val gets : (block list -> 'a1) -> 'a1 m

val upd_frames : (block list -> block list) -> unit m

val when0 : bool -> unit m -> unit m

val set_reg : n -> block -> block

val push_ctx : instr -> block -> block

val add_inner : string -> block -> block

val add_label : string -> block -> block

val set_mret : block -> block

val set_value : string -> value -> block -> block

val add_kid : block -> block -> block

val set_kids : block list -> block -> block

val empty_block : block

val head_reg : block list -> n

val head_mret : block list -> bool

val head_ctx : block list -> instr list

val inc_register : unit m

val get_reg : n m

val alloc_emit : (n -> instr) -> n m

val bump : n m

val emit : instr -> unit m

val set_inner_name : string -> unit m

val set_label_name : string -> unit m

val set_return : unit m

val insert_value : string -> value -> unit m

val lookup_frames : string -> block list -> value option

val lookup_value : string -> value option m

val inner_exists : string -> block list -> bool

val label_exists : string -> block list -> bool

val add_error : err -> unit m

val new_child : block list -> block

val push_child : unit m

val pop_child : nat m

val update_nth : nat -> ('a1 -> 'a1) -> 'a1 list -> 'a1 list

val emit_kid : nat -> instr -> unit m

val next_inner_name : nat -> string -> string m

val inner_probe_fuel : block list -> nat

val label_probe : nat -> string -> string m

val label_probe_fuel : block list -> nat

val gen_label : string -> string m

type links = (binop * expr_val) list

val fetch : n -> expr_val -> links -> expr_val * links

val levels : n list

val fold_priority : expr -> expr

val loc10 : loc

val loc11 : loc

val cval_sem_of : cval -> cval_sem

val const_of : ident -> ast_ty -> cexpr -> const_sem

val check_type_exists : globals -> sem_ty -> string option -> loc -> bool m

val call_args :
  (expr -> eres option m) -> ident -> sem_ty list -> nat -> expr list -> eres
  list -> eres list option m

val function_call :
  globals -> (expr -> eres option m) -> ident -> expr list -> sem_ty option m

val expr_value :
  globals -> (expr -> eres option m) -> expr_val -> eres option m

val expr_chain :
  globals -> (expr -> eres option m) -> eres -> links -> eres option m

val expression_body :
  globals -> (expr -> eres option m) -> expr -> eres option m

val expression : globals -> nat -> expr -> eres option m

val let_binding :
  globals -> nat -> ident -> bool -> ast_ty option -> expr -> unit m

val binding : globals -> nat -> ident -> expr -> unit m

val call_stmt : globals -> nat -> ident -> expr list -> unit m

val condition_expression : globals -> nat -> lcond -> n m

val if_condition_calculation :
  globals -> nat -> cond -> string -> string -> string -> bool -> unit m

val check_return_type : sem_ty -> eres -> unit m

type flags = { fl_ret : bool; fl_brk : bool; fl_cont : bool }

val flags0 : flags

type bkind =
| KIf
| KIfLoop
| KLoop

val code_after_errors : bkind -> flags -> unit m

val nested_stmt :
  globals -> nat -> sem_ty -> (ifstmt -> string option -> (string * string)
  option -> unit m) -> (stmt list -> unit m) -> bkind -> string ->
  (string * string) option -> flags -> stmt -> flags m

val run_body :
  globals -> nat -> sem_ty -> (ifstmt -> string option -> (string * string)
  option -> unit m) -> (stmt list -> unit m) -> bkind -> string ->
  (string * string) option -> flags -> stmt list -> flags m

val if_body :
  globals -> nat -> sem_ty -> (ifstmt -> string option -> (string * string)
  option -> unit m) -> (stmt list -> unit m) -> ifbody -> string ->
  (string * string) option -> bool m

val is_some : 'a1 option -> bool

val if_condition_step :
  globals -> nat -> sem_ty -> (ifstmt -> string option -> (string * string)
  option -> unit m) -> (stmt list -> unit m) -> ifstmt -> string option ->
  (string * string) option -> unit m

val is_jump_to : string -> instr -> bool

val loop_step :
  globals -> nat -> sem_ty -> (ifstmt -> string option -> (string * string)
  option -> unit m) -> (stmt list -> unit m) -> stmt list -> unit m

val if_condition :
  globals -> nat -> sem_ty -> nat -> ifstmt -> string option ->
  (string * string) option -> unit m

val loop_statement : globals -> nat -> sem_ty -> nat -> stmt list -> unit m

val init_func_params : (ident * ast_ty) list -> unit m

val fn_stmt : globals -> nat -> sem_ty -> bool -> stmt -> bool m

val fn_stmts : globals -> nat -> sem_ty -> bool -> stmt list -> bool m

val fuel_of : fn_decl -> nat

val function_body_m : globals -> fn_decl -> unit m

type gstate = { gs_globals : globals; gs_stack : ginstr list;
                gs_errs : err list }

val gstate0 : gstate

val g_add_error : err -> gstate -> gstate

val decl_type : gstate -> ident -> (ident * ast_ty) list -> gstate

val check_const_links : globals -> (binop * cval) list -> ident option

val g_check_type_exists : gstate -> sem_ty -> string -> loc -> gstate * bool

val decl_const : gstate -> ident -> ast_ty -> cexpr -> gstate

val decl_fn_params :
  gstate -> bool -> loc -> (ident * ast_ty) list -> gstate * bool

val decl_fn : gstate -> fn_decl -> gstate

val pass_types : gstate -> top -> gstate

val pass_decls : gstate -> top -> gstate

val declarations : program -> gstate

val functions_of : program -> fn_decl list

type run_result =
| ROk of output
| RPanic of panic_kind
| ROutOfFuel

val function_body : globals -> err list -> fn_decl -> unit res

val bodies :
  globals -> err list -> block list -> fn_decl list -> (run_result, err
  list * block list) sum

val run : program -> run_result

val def_reg : instr -> n option

val defs : instr list -> n list

val eres_reg : eres -> n list

val use_regs : instr -> n list

val set_label_of : instr -> string list

val set_labels : instr list -> string list

val target_labels : instr -> string list

val increasing_from : n -> n list -> bool

val chk_C09_root : block -> bool

val chk_C09 : output -> bool

type tree =
| Leaf of expr_val
| Node of tree * binop * tree

val insert : tree -> binop -> expr_val -> tree

val bracket : expr_val -> links -> tree

type ttree =
| TLeaf of n
| TNode of ttree * binop * ttree

val binop_eqb : binop -> binop -> bool

val ttree_eqb : ttree -> ttree -> bool

val ref_tree_of : nat -> tree -> ttree option

val ref_of_expr : expr -> ttree option

val env_lookup : n -> (n * ttree) list -> ttree option

val operand_tree : eres -> (n * ttree) list -> ttree option

val let_trees : instr list -> (n * ttree) list -> ttree option list

val lets_of_stmt : stmt -> expr list

val lets_of_if : ifstmt -> expr list

val lets_of_ifbody : ifbody -> expr list

val lets_of_fn : fn_decl -> expr list

val match_lets : expr list -> ttree option list -> bool

val chk_C07_fn : fn_decl -> block -> bool

val chk_C07_fns : fn_decl list -> block list -> bool

val chk_C07 : program -> output -> bool

val ttree_ops : ttree -> nat

val judged_C07 : program -> nat

val decl_value : instr -> value option

val decl_values : instr list -> value list

val decl_names : instr list -> string list

val read_values : instr -> value list

val reads : instr list -> value list

val value_eqb : value -> value -> bool

val nodup_strings : string list -> bool

val chk_C12_root : block -> bool

val chk_C12 : output -> bool

type event =
| EvLet
| EvAssign
| EvCall of string
| EvRet

type status =
| Returned
| OutOfOutcomes
| OutOfFuel0
| FellOff
| BadLabel of string

type trace = event list * status

val event_eqb : event -> event -> bool

val events_eqb : event list -> event list -> bool

val prefixb : event list -> event list -> bool

val find_label : string -> instr list -> nat option

type action =
| Next of event list * nat * bool list
| Halt of event list * status

val goto : instr list -> string -> bool list -> action

val branch : instr list -> string -> string -> bool list -> action

val instr_step : instr list -> instr -> nat -> bool list -> action

val flat_step : instr list -> nat -> bool list -> action

val prepend_trace : event list -> trace -> trace

val flat_run : instr list -> nat -> nat -> bool list -> trace

val flat_exec : instr list -> bool list -> nat -> trace

val expr_events : expr -> event list

val val_events : expr_val -> event list

val exprs_events : expr list -> event list

val lcond_events : lcond -> event list

val cond_events : cond -> event list

type completion =
| Normal
| Brk
| Cont
| JumpOuterEnd
| Stop of status

type sres = (event list * completion) * bool list

val prepend : event list -> sres -> sres

val seq0 : sres -> (bool list -> sres) -> sres

val ifbody_stmts : ifbody -> stmt list

val if_exit : bool -> bool -> sres -> sres

val loop_exit : sres -> (bool list -> sres) -> sres

val out_of_fuel_res : bool list -> sres

val exec_stmts : bool -> nat -> bool -> stmt list -> bool list -> sres

val finish : sres -> trace

val struct_exec : bool -> stmt list -> bool list -> nat -> trace

val agree : trace -> trace -> bool

val flat_ok : status -> bool

val all_outcomes : nat -> bool list list

val forallb2 : ('a1 -> 'a2 -> bool) -> 'a1 list -> 'a2 list -> bool

val chk_C05_word : bool -> nat -> fn_decl -> block -> bool list -> bool

val chk_C05_fn : bool -> nat -> nat -> fn_decl -> block -> bool

val chk_C05 : bool -> nat -> nat -> program -> output -> bool

val nodupb : string list -> bool

val chk_C10_unique_root : block -> bool

val chk_C10_unique : output -> bool

val chk_C10_resolve_root : block -> bool

val chk_C10_resolve : output -> bool

val is_fn_ret : instr -> bool

val is_fn_ret_label : instr -> bool

val is_jump_fn_ret : instr -> bool

val count_instr : (instr -> bool) -> instr list -> nat

val rets_stmt : stmt -> nat

val rets_if : ifstmt -> nat

val rets_ifbody : ifbody -> nat

val nested_rets_stmt : stmt -> nat

val nested_rets : stmt list -> nat

val chk_C11_fn : fn_decl -> block -> bool

val chk_C11 : program -> output -> bool

type outcome =
| Registers of ginstr
| Reports of err

val registered : outcome list -> ginstr list

val types_of : ginstr list -> (string * sem_ty) list

val consts_of : ginstr list -> (string * const_sem) list

val funcs_of : ginstr list -> (string * func_sem) list

val pass1 : string list -> program -> outcome list

val spec_cval : cval -> cval_sem

val spec_const : ident -> ast_ty -> cexpr -> const_sem

val spec_fn_instr : fn_decl -> ginstr

val missing_const : string list -> (binop * cval) list -> ident option

val bad_param : (sem_ty -> bool) -> (ident * ast_ty) list -> ident option

val const_outcome :
  (sem_ty -> bool) -> string list -> ident -> ast_ty -> cexpr -> outcome

val fn_outcome : (sem_ty -> bool) -> string list -> fn_decl -> outcome

val is_reg : outcome -> bool

val pass2 :
  (sem_ty -> bool) -> string list -> string list -> program -> outcome list

val spec_pass1 : program -> outcome list

val spec_types : program -> (string * sem_ty) list

val type_ok : (string * sem_ty) list -> sem_ty -> bool

val spec_pass2 : program -> outcome list

val spec_consts : program -> (string * const_sem) list

val spec_funcs : program -> (string * func_sem) list

val spec_gstack : program -> ginstr list

val spec_fns : program -> fn_decl list

val list_eqb : ('a1 -> 'a1 -> bool) -> 'a1 list -> 'a1 list -> bool

val binop_eqb0 : binop -> binop -> bool

val prim_val_eqb : prim_val -> prim_val -> bool

val cval_sem_eqb : cval_sem -> cval_sem -> bool

val const_sem_eqb : const_sem -> const_sem -> bool

val func_sem_eqb : func_sem -> func_sem -> bool

val ginstr_eqb : ginstr -> ginstr -> bool

val table_eqb :
  ('a1 -> 'a1 -> bool) -> (string * 'a1) list -> (string * 'a1) list -> bool

val chk_C15 : program -> output -> bool

val cmpop_eqb : cmpop -> cmpop -> bool

val logicop_eqb : logicop -> logicop -> bool

val eres_val_eqb : eres_val -> eres_val -> bool

val eres_eqb : eres -> eres -> bool

val instr_eqb : instr -> instr -> bool

val subseqb : ('a1 -> 'a1 -> bool) -> 'a1 list -> 'a1 list -> bool

val chk_tree_sub : block -> bool

val chk_C18_sub : output -> bool

type shape =
| Sh of shape list

val shape_of_block : block -> shape

val shapes_stmt : stmt -> shape list

val shapes_if : ifstmt -> shape list

val shapes_body : ifbody -> shape list

val shape_of_stmts : stmt list -> shape list

val shape_eqb : shape -> shape -> bool

val chk_C18_shape : program -> output -> bool

val chk_C18 : program -> output -> bool

val is_call_or_field : instr -> bool

type seen = (n * bool) list

val written : n -> seen -> bool

val written_by_f7 : n -> seen -> bool

val reg_ok : bool -> seen -> n -> bool

val scan : bool -> seen -> instr list -> bool

val chk_C08_root : bool -> block -> bool

val chk_C08 : bool -> output -> bool

val f7_reads : seen -> instr list -> nat

val f7_count : output -> nat

type viol = { vi_kind : err_kind; vi_val : string option; vi_loc : loc }

type 'a outcome0 =
| Pass of 'a
| Fail of viol
| Stuck

val andthen : 'a1 outcome0 -> ('a1 -> 'a2 outcome0) -> 'a2 outcome0

val require : bool -> err_kind -> string option -> loc -> unit outcome0

val at_1_0 : loc

val at_1_1 : loc

type tables = { tb_types : (string * sem_ty) list;
                tb_consts : (string * sem_ty) list;
                tb_funcs : (string * (sem_ty list * sem_ty)) list }

type scope = (string * (sem_ty * bool)) list

type scopes = scope list

val lookup_scopes : string -> scopes -> (sem_ty * bool) option

val declare : string -> sem_ty -> bool -> scopes -> scopes

val type_known : tables -> sem_ty -> bool

val is_some0 : 'a1 option -> bool

val check_args :
  bool -> (expr -> sem_ty outcome0) -> ident -> sem_ty list -> expr list ->
  unit outcome0

val check_call :
  bool -> tables -> (expr -> sem_ty outcome0) -> ident -> expr list -> sem_ty
  outcome0

val check_name : tables -> scopes -> ident -> sem_ty outcome0

val check_field : tables -> scopes -> ident -> ident -> sem_ty outcome0

val check_operand :
  bool -> tables -> scopes -> (expr -> sem_ty outcome0) -> expr_val -> sem_ty
  outcome0

val check_links :
  bool -> tables -> scopes -> (expr -> sem_ty outcome0) -> sem_ty ->
  (binop * expr_val) list -> sem_ty outcome0

val check_expr_step :
  bool -> tables -> scopes -> (expr -> sem_ty outcome0) -> expr -> sem_ty
  outcome0

val check_expr : bool -> tables -> scopes -> nat -> expr -> sem_ty outcome0

val ex : bool -> tables -> nat -> scopes -> expr -> sem_ty outcome0

val check_lcond : bool -> tables -> nat -> scopes -> lcond -> unit outcome0

val check_cond : bool -> tables -> nat -> scopes -> cond -> unit outcome0

val check_let :
  bool -> tables -> nat -> scopes -> ident -> bool -> ast_ty option -> expr
  -> scopes outcome0

val check_assign :
  bool -> tables -> nat -> scopes -> ident -> expr -> unit outcome0

val check_call_stmt :
  bool -> tables -> nat -> scopes -> ident -> expr list -> unit outcome0

val no_code_after : err_kind option -> unit outcome0

val check_nested_stmt :
  bool -> tables -> nat -> sem_ty -> (scopes -> bool -> ifstmt -> unit
  outcome0) -> (scopes -> stmt list -> unit outcome0) -> bool -> bool ->
  scopes -> stmt -> (scopes * err_kind option) outcome0

val check_block :
  bool -> tables -> nat -> sem_ty -> (scopes -> bool -> ifstmt -> unit
  outcome0) -> (scopes -> stmt list -> unit outcome0) -> bool -> bool ->
  scopes -> err_kind option -> stmt list -> unit outcome0

val check_ifbody :
  bool -> tables -> nat -> sem_ty -> (scopes -> bool -> ifstmt -> unit
  outcome0) -> (scopes -> stmt list -> unit outcome0) -> scopes -> bool ->
  ifbody -> unit outcome0

val check_if_step :
  bool -> tables -> nat -> sem_ty -> (scopes -> bool -> ifstmt -> unit
  outcome0) -> (scopes -> stmt list -> unit outcome0) -> scopes -> bool ->
  ifstmt -> unit outcome0

val check_loop_step :
  bool -> tables -> nat -> sem_ty -> (scopes -> bool -> ifstmt -> unit
  outcome0) -> (scopes -> stmt list -> unit outcome0) -> scopes -> stmt list
  -> unit outcome0

val check_if :
  bool -> tables -> nat -> sem_ty -> nat -> scopes -> bool -> ifstmt -> unit
  outcome0

val check_loop :
  bool -> tables -> nat -> sem_ty -> nat -> scopes -> stmt list -> unit
  outcome0

val check_fn_stmt :
  bool -> tables -> nat -> sem_ty -> scopes -> bool -> stmt ->
  (scopes * bool) outcome0

val check_fn_stmts :
  bool -> tables -> nat -> sem_ty -> scopes -> bool -> stmt list -> bool
  outcome0

val declare_params : scope -> (ident * ast_ty) list -> scope outcome0

val fuel_of_fn : fn_decl -> nat

val check_fn_body : bool -> tables -> fn_decl -> unit outcome0

val check_bodies : bool -> tables -> fn_decl list -> unit outcome0

val check_structs :
  (string * sem_ty) list -> program -> (string * sem_ty) list outcome0

val consts_mentioned : cval list -> ident list

val consts_before_literal : cval list -> ident list

val r5_checked : bool -> cexpr -> ident list

val all_declared : (string * sem_ty) list -> ident list -> unit outcome0

val check_const_decl :
  bool -> tables -> ident -> ast_ty -> cexpr -> tables outcome0

val check_param_types :
  tables -> loc -> (ident * ast_ty) list -> unit outcome0

val check_fn_decl : tables -> fn_decl -> tables outcome0

val check_decls : bool -> tables -> program -> tables outcome0

val fn_decls : program -> fn_decl list

val check_program : bool -> program -> unit outcome0

val stuck_viol : viol

val first_violation : bool -> program -> viol option

val wf_b : program -> bool

val accepted_spec_b : program -> bool

val err_kind_eqb : err_kind -> err_kind -> bool

val loc_eqb : loc -> loc -> bool

val val_agrees : string option -> string option -> bool

val viol_agrees : viol -> err -> bool

val no_errors : output -> bool

val chk_C14 : program -> output -> bool

val chk_C02 : program -> output -> bool

val chk_C01 : program -> output -> bool

val chk_C01_quirk : program -> output -> bool

type ev =
| EDecl of nat
| EUse of nat
| EUseField of nat * string
| EUseConst of string
| EAssign of nat
| ECall of string
| EExt of n
| ERet

val ev_eqb : ev -> ev -> bool

val evs_eqb : ev list -> ev list -> bool

type rscope = (string * nat) list

type rscopes = rscope list

val scope_find : string -> rscope -> nat option

val resolve : string -> rscopes -> nat option

val declare_in : string -> nat -> rscopes -> rscopes

val oapp : ev list option -> ev list option -> ev list option

val ev_expr : rscopes -> expr -> ev list option

val ev_val : rscopes -> expr_val -> ev list option

val ev_exprs : rscopes -> expr list -> ev list option

val ev_lcond : rscopes -> lcond -> ev list option

val ev_cond : rscopes -> cond -> ev list option

val ev_stmt : rscopes -> nat -> stmt -> ((rscopes * nat) * ev list) option

val ev_if : rscopes -> nat -> ifstmt -> (nat * ev list) option

val ev_ifbody : rscopes -> nat -> ifbody -> (nat * ev list) option

val ev_stmts : rscopes -> nat -> stmt list -> (nat * ev list) option

val param_scope : nat -> (ident * ast_ty) list -> rscope -> rscope

val src_events : fn_decl -> ev list option

type nmap = (string * nat) list

val nmap_find : string -> nmap -> nat option

val attr_name_at : n -> ((string * n) * sem_ty) list -> string option

val field_name : sem_ty -> n -> string option

val stack_scan :
  instr list -> nmap -> nat -> nat -> bool -> (nat * ev list) option

val stack_events : instr list -> (nat * ev list) option

val chk_C03_fn : fn_decl -> block -> bool

val chk_C03_fns : fn_decl list -> block list -> bool

val chk_C03 : program -> output -> bool

type rkind =
| KTy of sem_ty
| KCond
| KUnk

type regmap = (n * (rkind * bool)) list

val reg_find : n -> regmap -> (rkind * bool) option

val reg_fix : n -> sem_ty -> regmap -> regmap

val chk_operand : regmap -> eres -> regmap option

val chk_operands : regmap -> eres list -> regmap option

val is_cond_reg : regmap -> n -> bool

val value_eqb0 : value -> value -> bool

type valmap = (string * value) list

val declared : valmap -> value -> bool

val attr_ty_at : n -> ((string * n) * sem_ty) list -> sem_ty option

val field_ty : sem_ty -> n -> sem_ty option

val tys_eqb : sem_ty list -> sem_ty list -> bool

val chk_call : globals -> func_sem -> eres list -> bool

val chk_const : globals -> const_sem -> bool

val scan_C04 :
  globals -> sem_ty -> instr list -> regmap -> valmap -> (ident * ast_ty)
  list -> bool

val chk_C04_fn : globals -> fn_decl -> block -> bool

val chk_C04_fns : globals -> fn_decl list -> block list -> bool

val chk_C04 : program -> output -> bool

val pv_eqb : prim_val -> prim_val -> bool

val bop_eqb : binop -> binop -> bool

val cop_eqb : cmpop -> cmpop -> bool

val lop_eqb : logicop -> logicop -> bool

val nthN : 'a1 list -> n -> 'a1 option

val same_len : 'a1 list -> 'a2 list -> bool

type dt =
| DLit of prim_val
| DRead of string
| DConst of string
| DField of string * n
| DCall of string * dt list
| DExt of n
| DOp of binop * dt * dt
| DCmp of cmpop * dt * dt
| DLogic of logicop * dt * dt
| DUnknown of n

type denv = ((n * dt) * bool) list

val env_find : n -> denv -> (dt * bool) option

val reg_tree : denv -> n -> dt

val operand : denv -> eres -> dt

type usite =
| ULet of string * dt
| UAssign of string * dt
| URet of dt
| UCondSingle of dt
| UCondLogic of dt
| UCall of string * dt list

val scan0 : denv -> instr list -> usite list

val decl_of : instr -> (string * sem_ty) list

val stack_decls : instr list -> (string * sem_ty) list

val decl_index : string -> (string * sem_ty) list -> n -> n option

type tok =
| KLit of prim_val
| KVar of n * string
| KConst of string
| KField of n * string * n
| KCallOpen of string
| KCallSep
| KCallClose
| KExt of n
| KOp of binop
| KCmp of cmpop
| KLogic of logicop
| KOpen
| KClose
| KBad

val tok_eqb : bool -> tok -> tok -> bool

val toks_eqb : bool -> tok list -> tok list -> bool

val tokss_eqb : bool -> tok list list -> tok list list -> bool

val var_tok : (string * sem_ty) list -> string list -> string -> tok

val dfield_tok : (string * sem_ty) list -> string list -> string -> n -> tok

val dt_toks :
  (string * sem_ty) list -> string list -> dt -> tok list -> tok list

type scope0 = (string * n) list

val sc_find : string -> scope0 -> n option

type esite =
| ELet of string * n * tok list
| EAssign0 of string * n option * tok list
| ERet0 of tok list
| ECondSingle of tok list
| ECondLogic of tok list
| ECall0 of string * tok list list

val expr_calls : expr -> (ident * expr list) list

val val_calls : expr_val -> (ident * expr list) list

val name_tok : scope0 -> ident -> tok

val field_tok : (string * sem_ty) list -> scope0 -> ident -> ident -> tok

val expr_toks :
  (string * sem_ty) list -> scope0 -> expr -> tok list -> tok list

val lcond_toks :
  (string * sem_ty) list -> scope0 -> lcond -> tok list -> tok list

val etoks : (string * sem_ty) list -> scope0 -> expr -> tok list

val call_site :
  (string * sem_ty) list -> scope0 -> (ident * expr list) -> esite

val call_sites : (string * sem_ty) list -> scope0 -> expr -> esite list

val lcond_calls : (string * sem_ty) list -> scope0 -> lcond -> esite list

val cond_sites : (string * sem_ty) list -> scope0 -> cond -> esite list

val stmt_sites :
  (string * sem_ty) list -> stmt -> scope0 -> n -> (esite list * scope0) * n

val stmts_sites :
  (string * sem_ty) list -> stmt list -> scope0 -> n -> esite list

val param_scope0 : (ident * ast_ty) list -> scope0 -> n -> scope0 * n

val fn_sites : (string * sem_ty) list -> fn_decl -> esite list

val let_name : esite -> string list

val decl_names0 : fn_decl -> esite list -> string list

val opt_N_eqb : n option -> n -> bool

val opt_str_eqb : string option -> string -> bool

val tree_is :
  bool -> (string * sem_ty) list -> string list -> dt -> tok list -> bool

val site_eqb :
  bool -> (string * sem_ty) list -> string list -> usite -> esite -> bool

val sites_eqb :
  bool -> (string * sem_ty) list -> string list -> usite list -> esite list
  -> bool

val chk_C06_fn : bool -> fn_decl -> block -> bool

val chk_C06_fns : bool -> fn_decl list -> block list -> bool

val chk_C06_gen : bool -> program -> output -> bool

val chk_C06 : program -> output -> bool

val chk_C06_scoped : program -> output -> bool

val expr_exts : expr -> (n * ast_ty) list

val val_exts : expr_val -> (n * ast_ty) list

val lcond_exts : lcond -> (n * ast_ty) list

val cond_exts : cond -> (n * ast_ty) list

val stmt_exts : stmt -> (n * ast_ty) list

val if_exts : ifstmt -> (n * ast_ty) list

val ifbody_exts : ifbody -> (n * ast_ty) list

val fn_exts : fn_decl -> (n * ast_ty) list

val ext_of : instr -> (n * n) list

val stack_exts : instr list -> (n * n) list

val list_N_eqb : n list -> n list -> bool

val chk_order_fn : fn_decl -> block -> bool

val operands_of : instr -> eres list

val ext_pos : n -> (n * n) list -> n option

val nthN0 : 'a1 list -> n -> 'a1 option

val operand_ty_ok : (n * ast_ty) list -> (n * n) list -> eres -> bool

val scan_types : (n * ast_ty) list -> (n * n) list -> n -> instr list -> bool

val count_N : n -> n list -> n

val used_once : instr list -> bool

val chk_types_fn : fn_decl -> block -> bool

val ext_eqb : (n * n) -> (n * n) -> bool

val remove_one : (n * n) -> (n * n) list -> (n * n) list option

val sub_multiset : (n * n) list -> (n * n) list -> bool

val chk_blocks_tree : block -> bool

val all_fns : (fn_decl -> block -> bool) -> fn_decl list -> block list -> bool

val accepted_only : output -> bool -> bool

val chk_C19_order : program -> output -> bool

val chk_C19_types : program -> output -> bool

val chk_C19_blocks : program -> output -> bool

val chk_C19 : program -> output -> bool

val sfx : string -> n

val two32 : n

val name_ok : ident -> bool

val walk_stmt :
  (bool -> bool -> stmt -> bool) -> (bool -> ifbody -> bool) -> bool -> bool
  -> stmt -> bool

val walk_if :
  (bool -> bool -> stmt -> bool) -> (bool -> ifbody -> bool) -> bool ->
  ifstmt -> bool

val walk_fn_stmt :
  (bool -> bool -> stmt -> bool) -> (bool -> ifbody -> bool) -> (stmt ->
  bool) -> stmt -> bool

val chk_kind : bool -> bool -> stmt -> bool

val chk_kind_fn : stmt -> bool

val any_body : bool -> ifbody -> bool

val kinded_fn : fn_decl -> bool

val any_stmt : bool -> bool -> stmt -> bool

val chk_loop_body : bool -> ifbody -> bool

val loops_fn : fn_decl -> bool

val chk_name : bool -> bool -> stmt -> bool

val names_fn : fn_decl -> bool

val fn_in_domain_b : fn_decl -> bool

val in_domain_b : program -> bool

val direct_lets : stmt list -> string list

val bodies_if : ifstmt -> stmt list list

val bodies_stmt : stmt -> stmt list list

val kid_bodies : stmt list -> stmt list list

val direct_decls : block -> value list

val build_table :
  string list -> value list -> (string * value) list -> (string * value) list
  option

val table_eqb0 : (string * value) list -> (string * value) list -> bool

val chk_vals : nat -> string list -> stmt list -> block -> bool

val chk_C18_values_fn : fn_decl -> block -> bool

val chk_C18_values_fns : fn_decl list -> block list -> bool

val chk_C18_values : program -> output -> bool

val block_summary : block -> n list

val summary : run_result -> n list

type json =
| JNull
| JBool of bool
| JNum of z
| JFloat32 of z
| JFloat64 of z
| JStr of string
| JChar of z
| JArr of json list
| JObj of (string * json) list

val tag0 : string -> json

val tagc : string -> json -> json

val enc_opt : ('a1 -> json) -> 'a1 option -> json

val enc_N : n -> json

val enc_str : string -> json

val enc_ident : ident -> json

val enc_enum : ('a1 -> string) -> 'a1 -> json

val enc_prim_ty : prim_ty -> json

val enc_binop : binop -> json

val enc_cmpop : cmpop -> json

val enc_logicop : logicop -> json

val enc_err_kind : err_kind -> json

val enc_prim_val : prim_val -> json

val enc_attr : ident -> json -> json

val enc_ast_ty : ast_ty -> json

val enc_struct_decl : ident -> (ident * ast_ty) list -> json

val enc_sattr : string -> n -> json -> json

val enc_sem_ty : sem_ty -> json

val enc_sstruct_body : string -> ((string * n) * sem_ty) list -> json

val enc_chain : string -> json -> (binop * json) list -> json

val enc_cval : cval -> json

val enc_cexpr : cexpr -> json

val genc_expr : (ast_ty -> json) -> expr -> json

val genc_lcond : (ast_ty -> json) -> lcond -> json

val genc_cond : (ast_ty -> json) -> cond -> json

val genc_stmt : (ast_ty -> json) -> stmt -> json

val enc_param : (ident * ast_ty) -> json

val genc_fn : (ast_ty -> json) -> fn_decl -> json

val genc_top : (ast_ty -> json) -> top -> json

val genc_program : (ast_ty -> json) -> program -> json

val enc_program : program -> json

val enc_value : value -> json

val enc_eres_val : eres_val -> json

val enc_eres : eres -> json

val enc_cval_sem : cval_sem -> json

val enc_const_sem : const_sem -> json

val enc_func_sem : func_sem -> json

val enc_instr : instr -> json

val enc_stack : instr list -> json

val enc_loc : loc -> json

val enc_err : err -> json

val enc_errors : err list -> json

val enc_sparam : (string * sem_ty) -> json

val enc_ginstr : ginstr -> json

val enc_gstack : ginstr list -> json
